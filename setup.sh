#!/bin/bash
# Run once after a fresh restore, offline: warms the caches the checks share (MIR dump of the current
# tree, dev build of the binary). Everything is rebuilt on demand by the checks if the tree changes.
cd "$(dirname "$0")"
export CARGO_NET_OFFLINE=true
mkdir -p .cache evidence replays /var/tmp/verif-scratch
python3-vt - <<'PY'
import sys
sys.path.insert(0, 'lib')
import common
mir, src, dt = common.get_mir()
print('MIR dump ready:', mir, '%.1fs' % dt)
exe = common.native_binary()
print('dev binary ready:', exe)
PY
