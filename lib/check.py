"""Entry point: ./check <ID> --tier quick|thorough"""
import sys, os, argparse, importlib, traceback, time
sys.path.insert(0, os.path.dirname(os.path.abspath(__file__)))
import common
from session import Session


def main():
    ap = argparse.ArgumentParser()
    ap.add_argument('pid')
    ap.add_argument('--tier', default=os.environ.get('VERIF_TIER', 'quick'))
    ap.add_argument('--replay', default=None)
    ap.add_argument('--only', default=None, help='run only the named families (comma separated)')
    a = ap.parse_args()
    seed = int(os.environ.get('VERIF_SEED', '0') or 0)
    pid = a.pid.upper()
    mod = importlib.import_module('drivers.' + pid.lower())
    if a.replay:
        return mod.replay(a.replay)
    sess = Session(pid, a.tier, seed, getattr(mod, 'LEVEL', 'model_checking'))
    sess.only = set(a.only.split(',')) if a.only else None
    try:
        mod.main(sess)
    except common.BuildError as e:
        print('INCONCLUSIVE: build failed: %s' % e)
        sess.inconclusive('build', str(e))
    except Exception as e:
        traceback.print_exc()
        sess.inconclusive('driver crashed', repr(e))
    return sess.finish()


if __name__ == '__main__':
    sys.exit(main())
