"""Engine A: CBMC over the compiled code through Kani. Harness modules (kani/*.rs) are appended to source files of a
scratch copy of the tree under test; `cargo kani` runs there; results are parsed per assertion description."""
import os, re, subprocess, shutil, time, json
import common

KANI_DIR = os.path.join(common.VERIF, 'kani')


def run_harnesses(appends, harnesses, timeout=900):
    """appends: {relative source file: harness file name under /verif/kani}. harnesses: list of harness paths.
    -> {harness: {'status': 'SUCCESSFUL'|'FAILED'|'ERROR'|'TIMEOUT', 'failed': [descriptions], 'cover_unsat': [...], 'seconds': s, 'values': [...], 'raw_tail': str}}"""
    out = {}
    with common.Lock('kani'):
        work = os.path.join(common.SCRATCH_ROOT, 'kani-src')
        common.sync_tree(work)
        for rel, hf in appends.items():
            with open(os.path.join(work, rel), 'a') as f:
                f.write('\n' + open(os.path.join(KANI_DIR, hf)).read() + '\n')
        env = dict(common.ENV, CARGO_TARGET_DIR=os.path.join(common.CACHE, 'target-kani'))
        for h in harnesses:
            t = time.time()
            cmd = ['cargo', 'kani', '--harness', h, '-Z', 'concrete-playback', '--concrete-playback=print', '--output-format', 'regular']
            try:
                p = subprocess.run(cmd, cwd=work, env=env, stdout=subprocess.PIPE, stderr=subprocess.STDOUT, text=True, timeout=timeout)
                txt = p.stdout
                st = 'ERROR'
                m = re.search(r'VERIFICATION:- (SUCCESSFUL|FAILED)', txt)
                if m:
                    st = m.group(1)
                if 'Status: ERROR' in txt or 'out of memory' in txt.lower():
                    st = 'ERROR'
            except subprocess.TimeoutExpired as te:
                txt = (te.stdout or '') if isinstance(te.stdout, str) else ''
                st = 'TIMEOUT'
            failed = sorted(set(re.findall(r'Failed Checks: "([^"\n]*)"', txt)))
            unsat_cover = []
            for cm in re.finditer(r'Check \d+: [^\n]*\n\s*- Status: (\w+)\n\s*- Description: "([^"\n]*)"', txt):
                if cm.group(1) in ('UNSATISFIABLE', 'UNREACHABLE') and cm.group(2).startswith('reachable'):
                    unsat_cover.append(cm.group(2))
            vals = {}
            for vm in re.finditer(r'Check for `assertion`: ""([^"\n]*)"".*?//\s*(-?\d+)\s*\n', txt, re.S):
                vals.setdefault(vm.group(1), int(vm.group(2)))
            out[h] = {'status': st, 'failed': failed, 'cover_unsat': unsat_cover, 'seconds': round(time.time() - t, 1), 'values': vals, 'raw_tail': txt[-1500:]}
        common.sync_tree(work)
    return out
