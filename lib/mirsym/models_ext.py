"""Contract models for third-party crates (chrono, regex) — opaque services constrained by their
documented contract."""
import re
import z3
from z3 import BitVecVal, BoolVal, Not, And, Or, If, is_bv
from .core import (Agg, EnumV, Cell, Ref, UNIT, Unmodelled, conc, some, none, ok, err, mk_bool_enum)
from .models_std import model, Str, as_str, MODELS


class DateTimeV:
    """chrono NaiveDateTime / DateTime<Tz>: an i64 count of seconds (UTC timestamp of the naive value) plus, optionally, the
    sub-second part in nanoseconds (file times have one; literals do not). `timestamp()` is the seconds; comparisons of the values
    themselves see the fraction"""
    __slots__ = ('ts', 'ns')

    def __init__(self, ts, ns=None):
        self.ts, self.ns = ts, ns

    def __repr__(self):
        return 'DateTime(%s)' % self.ts

    def frac(self):
        return self.ns if self.ns is not None else BitVecVal(0, 32)

    def eq_model(self, ctx, other):
        return And(self.ts == other.ts, self.frac() == other.frac())

    def clone_model(self, ctx):
        return self


@model(r'^NaiveDateTime::and_utc$|^chrono::NaiveDateTime::and_utc$|^chrono::DateTime::naive_local$|^chrono::DateTime::naive_utc$')
def m_and_utc(ctx, args, callee):
    return ctx.deref(args[0])


@model(r'^chrono::DateTime::timestamp$|^NaiveDateTime::timestamp$')
def m_timestamp(ctx, args, callee):
    return ctx.deref(args[0]).ts


@model(r'^<NaiveDateTime as (PartialOrd|PartialEq|Ord)>::(lt|le|gt|ge|eq|ne)$|^<chrono::NaiveDateTime as (PartialOrd|PartialEq|Ord)>::(lt|le|gt|ge|eq|ne)$')
def m_dt_cmp(ctx, args, callee):
    x = ctx.deref(args[0]); y = ctx.deref(args[1])
    a, b = x.ts, y.ts
    fa, fb = x.frac(), y.frac()
    lt = Or(a < b, And(a == b, z3.ULT(fa, fb))); eq = And(a == b, fa == fb)
    k = callee.rsplit('::', 1)[1]
    return {'lt': lt, 'le': Or(lt, eq), 'gt': Not(Or(lt, eq)), 'ge': Not(lt), 'eq': eq, 'ne': Not(eq)}[k]


@model(r'^<NaiveDateTime as Ord>::cmp$|^<chrono::NaiveDateTime as Ord>::cmp$')
def m_dt_ord_cmp(ctx, args, callee):
    x = ctx.deref(args[0]); y = ctx.deref(args[1])
    lt = Or(x.ts < y.ts, And(x.ts == y.ts, z3.ULT(x.frac(), y.frac()))); eq = And(x.ts == y.ts, x.frac() == y.frac())
    return EnumV(z3.simplify(If(lt, BitVecVal(-1, 64), If(eq, BitVecVal(0, 64), BitVecVal(1, 64)))), {}, 'Ordering')


@model(r'^<NaiveDateTime as (std::default::)?Default>::default$|^<chrono::NaiveDateTime as (std::default::)?Default>::default$')
def m_dt_default(ctx, args, callee):
    """documented: the UNIX epoch, 1970-01-01 00:00:00"""
    return DateTimeV(BitVecVal(0, 64))


class RegexV:
    """a compiled regex: identified by its pattern text"""
    __slots__ = ('pat',)

    def __init__(self, pat):
        self.pat = pat

    def clone_model(self, ctx):
        return self


def regex_new(ctx, pat):
    """Regex::new: Ok or Err — a solver Boolean per distinct pattern text (ghost 'regex_ok')"""
    key = pat.s if pat.s is not None else repr(pat)
    tbl = ctx.ghost.setdefault('regex_ok', {})
    if key not in tbl:
        tbl[key] = ctx.fresh_bool('regex_ok')
    return tbl[key]


@model(r'^regex::Regex::new$|^Regex::new$')
def m_regex_new(ctx, args, callee):
    pat = as_str(ctx, args[0])
    okb = regex_new(ctx, pat)
    if ctx.decide(okb):
        return ok(RegexV(pat))
    return err(UNIT)


@model(r'^regex::Regex::is_match$|^Regex::is_match$')
def m_regex_is_match(ctx, args, callee):
    rx = ctx.deref(args[0]); subj = as_str(ctx, args[1])
    pk = rx.pat.s if rx.pat.s is not None else repr(rx.pat)
    sk = subj.s if subj.s is not None else (str(subj.term) if subj.term is not None else repr(subj))
    tbl = ctx.ghost.setdefault('is_match', {})
    key = (pk, sk)
    if key not in tbl:
        tbl[key] = ctx.fresh_bool('is_match')
    return tbl[key]


# ------------------------------------------------------------------------------------------------ std::time::Duration
class DurationV:
    __slots__ = ('secs',)

    def __init__(self, secs):
        self.secs = secs


@model(r'^(std::time::|core::time::)?Duration::from_secs$|^(std::time::|core::time::)?Duration::from_millis$')
def m_duration_from_secs(ctx, args, callee):
    return DurationV(args[0])


@model(r'^(std::time::|core::time::)?Duration::from_secs_f64$|^(std::time::|core::time::)?Duration::from_secs_f32$')
def m_duration_from_secs_f(ctx, args, callee):
    """documented: panics if the value is negative, not finite or overflows Duration"""
    x = args[0]
    lim = z3.FPVal(18446744073709551616.0, x.sort())
    ctx.obligation(z3.And(z3.Not(z3.fpIsNaN(x)), z3.Not(z3.fpIsInf(x)), z3.fpGEQ(x, z3.FPVal(0.0, x.sort())), z3.fpLT(x, lim)),
                   'cannot convert float seconds to Duration: value is negative, not finite or too large')
    return DurationV(x)


@model(r'to_human_time_string$|to_human_time_string_with_format$')
def m_human_time(ctx, args, callee):
    from .models_fmt import OpaqueStr
    return OpaqueStr('human_time(%r)' % (ctx.deref(args[0]),))


# ------------------------------------------------------------------------------------------------ static regexes, concrete subjects
def static_regex_text(ctx, name):
    """the pattern literal of `static NAME: LazyLock<Regex> = LazyLock::new(|| { Regex::new("...") ... })`, read from the tree's sources"""
    import os
    cache = ctx.prog.__dict__.setdefault('_static_regex', {})
    short = name.rsplit('::', 1)[-1]
    if short not in cache:
        cache[short] = None
        root = ctx.prog.src_root if hasattr(ctx.prog, 'src_root') else None
        roots = [root] if root else []
        for r in roots:
            for dp, dn, fn in os.walk(os.path.join(r, 'src')):
                for f in fn:
                    if f.endswith('.rs'):
                        t = open(os.path.join(dp, f), encoding='utf-8', errors='replace').read()
                        t = re.sub(r'(?m)^\s*//[^\n]*\n', '', t)         # whole-line comments between the pieces of the definition
                        m = re.search(r'static\s+' + re.escape(short) + r'\s*:\s*LazyLock<\s*Regex\s*>\s*=\s*LazyLock::new\(\|\|\s*\{?\s*Regex::new\(\s*(r#*)?"((?:[^"\\]|\\.)*)"', t, re.S)
                        if m:
                            raw = m.group(2)
                            cache[short] = raw if m.group(1) else bytes(raw, 'utf-8').decode('unicode_escape')
    return cache[short]


def rust_regex_to_py(p):
    m = re.match(r'^\^\(\?([a-zA-Z]+)\)', p)
    if m:
        return '(?%s)^' % m.group(1) + p[m.end():]
    return p


@model(r'^<LazyLock<regex::Regex> as Deref>::deref$|^<LazyLock<Regex> as Deref>::deref$', 'regex:static LazyLock<Regex> (pattern text read from the source)')
def m_lazy_regex(ctx, args, callee):
    st = ctx.deref(args[0])
    name = st[1] if isinstance(st, tuple) else None
    txt = static_regex_text(ctx, name) if name else None
    if txt is None:
        raise Unmodelled('static regex %r: pattern text not found' % (name,))
    return Ref(Cell(RegexV(Str(txt))))


@model(r'^regex::Regex::captures$|^Regex::captures$', 'regex:captures on a concrete pattern and subject (Python re as the engine)')
def m_regex_captures(ctx, args, callee):
    rx = ctx.deref(args[0]); sub = as_str(ctx, args[1])
    if rx.pat.s is None or sub.s is None or type(sub) is not Str:
        raise Unmodelled('captures on symbolic text')
    try:
        mm = re.search(rust_regex_to_py(rx.pat.s), sub.s)
    except re.error as e:
        raise Unmodelled('python re cannot take the pattern: %s' % e)
    return some(('pycap', mm)) if mm else none()


@model(r"^<regex::Captures<'_> as (std::ops::)?Index<usize>>::index$", 'regex:Captures[i]')
def m_cap_index(ctx, args, callee):
    c = ctx.deref(args[0])
    if not (isinstance(c, tuple) and c[0] == 'pycap'):
        raise Unmodelled('Captures[i] on %r' % (c,))
    g = c[1].group(conc(args[1]))
    if g is None:
        from .core import Panic
        raise Panic('no group at index %d' % conc(args[1]))
    return Str(g)


@model(r'^regex::Captures::get$', 'regex:Captures::get')
def m_cap_get(ctx, args, callee):
    c = ctx.deref(args[0])
    if not (isinstance(c, tuple) and c[0] == 'pycap'):
        raise Unmodelled('Captures::get on %r' % (c,))
    g = c[1].group(conc(args[1]))
    return none() if g is None else some(('pymatch', g))


@model(r'^regex::Match::as_str$', 'regex:Match::as_str')
def m_match_as_str(ctx, args, callee):
    m_ = ctx.deref(args[0])
    if not (isinstance(m_, tuple) and m_[0] == 'pymatch'):
        raise Unmodelled('Match::as_str on %r' % (m_,))
    return Str(m_[1])


@model(r'^regex::Captures::name$', 'regex:Captures::name')
def m_cap_name(ctx, args, callee):
    c = ctx.deref(args[0])
    if not (isinstance(c, tuple) and c[0] == 'pycap'):
        raise Unmodelled('Captures::name on %r' % (c,))
    n = as_str(ctx, args[1]).s
    try:
        g = c[1].group(n)
    except (IndexError, error_t):
        return none()
    return none() if g is None else some(('pymatch', g))


error_t = re.error
