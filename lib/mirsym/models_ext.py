"""Contract models for third-party crates (chrono, regex) — opaque services constrained by their
documented contract."""
import re
import z3
from z3 import BitVecVal, BoolVal, Not, And, Or, If, is_bv
from .core import (Agg, EnumV, Cell, Ref, UNIT, Unmodelled, conc, some, none, ok, err, mk_bool_enum)
from .models_std import model, Str, as_str, MODELS


class DateTimeV:
    """chrono NaiveDateTime / DateTime<Tz>: an i64 count of seconds (UTC timestamp of the naive value) plus, optionally, the
    sub-second part in nanoseconds (file times have one; literals do not). `timestamp()` is the seconds; comparisons of the values
    themselves see the fraction"""
    __slots__ = ('ts', 'ns')

    def __init__(self, ts, ns=None):
        self.ts, self.ns = ts, ns

    def __repr__(self):
        return 'DateTime(%s)' % self.ts

    def frac(self):
        return self.ns if self.ns is not None else BitVecVal(0, 32)

    def eq_model(self, ctx, other):
        return And(self.ts == other.ts, self.frac() == other.frac())

    def clone_model(self, ctx):
        return self


@model(r'^NaiveDateTime::and_utc$|^chrono::NaiveDateTime::and_utc$|^chrono::DateTime::naive_local$|^chrono::DateTime::naive_utc$')
def m_and_utc(ctx, args, callee):
    return ctx.deref(args[0])


@model(r'^chrono::DateTime::timestamp$|^NaiveDateTime::timestamp$')
def m_timestamp(ctx, args, callee):
    return ctx.deref(args[0]).ts


@model(r'^<NaiveDateTime as (PartialOrd|PartialEq|Ord)>::(lt|le|gt|ge|eq|ne)$|^<chrono::NaiveDateTime as (PartialOrd|PartialEq|Ord)>::(lt|le|gt|ge|eq|ne)$')
def m_dt_cmp(ctx, args, callee):
    x = ctx.deref(args[0]); y = ctx.deref(args[1])
    a, b = x.ts, y.ts
    fa, fb = x.frac(), y.frac()
    lt = Or(a < b, And(a == b, z3.ULT(fa, fb))); eq = And(a == b, fa == fb)
    k = callee.rsplit('::', 1)[1]
    return {'lt': lt, 'le': Or(lt, eq), 'gt': Not(Or(lt, eq)), 'ge': Not(lt), 'eq': eq, 'ne': Not(eq)}[k]


class RegexV:
    """a compiled regex: identified by its pattern text"""
    __slots__ = ('pat',)

    def __init__(self, pat):
        self.pat = pat

    def clone_model(self, ctx):
        return self


def regex_new(ctx, pat):
    """Regex::new: Ok or Err — a solver Boolean per distinct pattern text (ghost 'regex_ok')"""
    key = pat.s if pat.s is not None else repr(pat)
    tbl = ctx.ghost.setdefault('regex_ok', {})
    if key not in tbl:
        tbl[key] = ctx.fresh_bool('regex_ok')
    return tbl[key]


@model(r'^regex::Regex::new$|^Regex::new$')
def m_regex_new(ctx, args, callee):
    pat = as_str(ctx, args[0])
    okb = regex_new(ctx, pat)
    if ctx.decide(okb):
        return ok(RegexV(pat))
    return err(UNIT)


@model(r'^regex::Regex::is_match$|^Regex::is_match$')
def m_regex_is_match(ctx, args, callee):
    rx = ctx.deref(args[0]); subj = as_str(ctx, args[1])
    pk = rx.pat.s if rx.pat.s is not None else repr(rx.pat)
    sk = subj.s if subj.s is not None else (str(subj.term) if subj.term is not None else repr(subj))
    tbl = ctx.ghost.setdefault('is_match', {})
    key = (pk, sk)
    if key not in tbl:
        tbl[key] = ctx.fresh_bool('is_match')
    return tbl[key]


# ------------------------------------------------------------------------------------------------ std::time::Duration
class DurationV:
    __slots__ = ('secs',)

    def __init__(self, secs):
        self.secs = secs


@model(r'^(std::time::|core::time::)?Duration::from_secs$|^(std::time::|core::time::)?Duration::from_millis$')
def m_duration_from_secs(ctx, args, callee):
    return DurationV(args[0])


@model(r'^(std::time::|core::time::)?Duration::from_secs_f64$|^(std::time::|core::time::)?Duration::from_secs_f32$')
def m_duration_from_secs_f(ctx, args, callee):
    """documented: panics if the value is negative, not finite or overflows Duration"""
    x = args[0]
    lim = z3.FPVal(18446744073709551616.0, x.sort())
    ctx.obligation(z3.And(z3.Not(z3.fpIsNaN(x)), z3.Not(z3.fpIsInf(x)), z3.fpGEQ(x, z3.FPVal(0.0, x.sort())), z3.fpLT(x, lim)),
                   'cannot convert float seconds to Duration: value is negative, not finite or too large')
    return DurationV(x)


@model(r'to_human_time_string$|to_human_time_string_with_format$')
def m_human_time(ctx, args, callee):
    from .models_fmt import OpaqueStr
    return OpaqueStr('human_time(%r)' % (ctx.deref(args[0]),))
