"""Parser for `rustc -Zunpretty=mir` text.

Produces Fn objects whose basic blocks hold *pre-compiled* statement tuples, so
that the symbolic executor never re-matches a regular expression on a hot path.
Compilation of a function body happens lazily, the first time it is executed.
"""
import re, ast

INT_W = {'u8': 8, 'u16': 16, 'u32': 32, 'u64': 64, 'usize': 64, 'i8': 8, 'i16': 16, 'i32': 32,
         'i64': 64, 'isize': 64, 'u128': 128, 'i128': 128, 'char': 32}
SIGNED = {'i8', 'i16', 'i32', 'i64', 'isize', 'i128'}


class MirSyntax(Exception):
    pass


def split_top(s, sep=','):
    """split on sep at bracket depth 0 (handles () [] <> {} and string/char literals)"""
    out, depth, cur, i, n = [], 0, [], 0, len(s)
    while i < n:
        c = s[i]
        if c == '"':
            j = i + 1
            while j < n and s[j] != '"':
                j += 2 if s[j] == '\\' else 1
            cur.append(s[i:j + 1]); i = j + 1; continue
        if c == "'" and i + 2 < n:
            # char literal 'x' or '\n' (lifetimes 'a never close with ')
            m = re.match(r"'(\\.|\\u\{[0-9a-fA-F]+\}|[^'\\])'", s[i:])
            if m:
                cur.append(m.group(0)); i += len(m.group(0)); continue
        if c in '([{<':
            depth += 1
        elif c in ')]}':
            depth -= 1
        elif c == '>' and i > 0 and s[i - 1] not in '-=':
            depth -= 1
        if c == sep and depth == 0:
            out.append(''.join(cur).strip()); cur = []
        else:
            cur.append(c)
        i += 1
    t = ''.join(cur).strip()
    if t:
        out.append(t)
    return out


def balanced(s):
    d = 0
    for c in s:
        if c in '([':
            d += 1
        elif c in ')]':
            d -= 1
        if d < 0:
            return False
    return d == 0


def strip_generics(s):
    """remove every ::<...> turbofish (balanced) from a path"""
    out, i, n = [], 0, len(s)
    while i < n:
        if s.startswith('::<', i) and not s.startswith('::<impl ', i):
            d, j = 0, i + 2
            while j < n:
                if s[j] == '<':
                    d += 1
                elif s[j] == '>' and s[j - 1] not in '-=':
                    d -= 1
                    if d == 0:
                        break
                j += 1
            i = j + 1
            continue
        out.append(s[i]); i += 1
    return ''.join(out)


_place_cache = {}


def parse_place(s):
    """-> (local, (proj, ...)); proj: ('deref',) ('field', n, ty) ('downcast', name) ('index', local)
       ('cindex', n, from_end) ('subslice', a, b, from_end)"""
    s = s.strip()
    r = _place_cache.get(s)
    if r is None:
        loc, pr = _pp(s)
        r = (loc, tuple(pr))
        _place_cache[s] = r
    return r


def _pp(s):
    s = s.strip()
    if re.fullmatch(r'_\d+', s):
        return s, []
    if s.startswith('(*') and s.endswith(')') and balanced(s[2:-1]):
        loc, pr = _pp(s[2:-1])
        return loc, pr + [('deref',)]
    if s.startswith('(') and s.endswith(')') and balanced(s[1:-1]):
        inner = s[1:-1]
        m = re.match(r'^(.*) as (\w+)$', inner)
        if m and balanced(m.group(1)) and ': ' not in _tail_after_place(m.group(1)):
            loc, pr = _pp(m.group(1))
            return loc, pr + [('downcast', m.group(2))]
        depth = 0
        for i, c in enumerate(inner):
            if c in '([<':
                depth += 1
            elif c in ')]' or (c == '>' and inner[i - 1] not in '-='):
                depth -= 1
            elif c == '.' and depth == 0:
                m2 = re.match(r'\.(\d+): ', inner[i:])
                if m2:
                    loc, pr = _pp(inner[:i])
                    return loc, pr + [('field', int(m2.group(1)), inner[i + len(m2.group(0)):])]
        raise MirSyntax('place? ' + s)
    m = re.match(r'^(.*)\[(_\d+)\]$', s)
    if m:
        loc, pr = _pp(m.group(1))
        return loc, pr + [('index', m.group(2))]
    m = re.match(r'^(.*)\[(-?)(\d+) of (\d+)\]$', s)
    if m:
        loc, pr = _pp(m.group(1))
        return loc, pr + [('cindex', int(m.group(3)), m.group(2) == '-')]
    m = re.match(r'^(.*)\[(\d+):(-?)(\d*)\]$', s)
    if m:
        loc, pr = _pp(m.group(1))
        return loc, pr + [('subslice', int(m.group(2)), int(m.group(4) or 0), m.group(3) == '-')]
    raise MirSyntax('place?? ' + s)


def _tail_after_place(s):
    return ''


class Fn:
    __slots__ = ('name', 'sig', 'body', 'args', 'locals', 'ret', '_blocks', 'raw_blocks', 'lineno',
                 'nlines', 'span', 'kind')

    def __init__(self, name, sig, body, lineno=0):
        self.name, self.sig, self.body = name, sig, body
        self.args, self.locals, self.ret = [], {}, '()'
        self._blocks = None
        self.raw_blocks = None
        self.lineno = lineno
        self.nlines = body.count('\n') + 2
        self.kind = 'fn'

    def blocks(self):
        if self._blocks is None:
            self._compile()
        return self._blocks

    def _raw(self):
        if self.raw_blocks is None:
            rb = {}
            for bm in re.finditer(r'^    (bb\d+)( \(cleanup\))?: \{\n(.*?)^    \}', self.body, re.S | re.M):
                lines = [l.strip() for l in bm.group(3).strip().split('\n') if l.strip()]
                rb[bm.group(1)] = (lines, bool(bm.group(2)))
            self.raw_blocks = rb
        return self.raw_blocks

    def _compile(self):
        out = {}
        for bb, (lines, cleanup) in self._raw().items():
            if cleanup:
                continue
            # re-join multi-line statements (string constants containing newlines)
            stmts = []
            for l in lines:
                stmts.append(compile_stmt(l, self))
            out[bb] = stmts
        self._blocks = out

    def text_hash(self):
        import hashlib
        return hashlib.sha1((self.sig + self.body).encode()).hexdigest()[:12]


def _sig_name_end(sig):
    depth = 0
    for i, c in enumerate(sig):
        if c == '<':
            depth += 1
        elif c == '>' and sig[i - 1] not in '-=':
            depth -= 1
        elif c == '(' and depth == 0:
            return i
    return None


def load(path):
    text = open(path).read()
    fns = {}
    line_of = None
    for m in re.finditer(r'^fn (.*?) \{\n(.*?)^\}\n', text, re.S | re.M):
        sig, body = m.group(1), m.group(2)
        ne = _sig_name_end(sig)
        if ne is None:
            continue
        name = sig[:ne]
        f = Fn(name, sig, body, text.count('\n', 0, m.start()) + 1)
        d = 0; j = ne
        for k in range(ne, len(sig)):
            c = sig[k]
            if c in '(<[':
                d += 1
            elif c in ')]' or (c == '>' and sig[k - 1] not in '-='):
                d -= 1
            if d == 0:
                j = k; break
        for a in split_top(sig[ne + 1:j]):
            am = re.match(r'(?:mut )?(_\d+): (.*)$', a, re.S)
            if am:
                f.args.append((am.group(1), am.group(2)))
        rm = re.search(r'\) -> (.*)$', sig[j:], re.S)
        f.ret = rm.group(1).strip() if rm else '()'
        for lm in re.finditer(r'^\s+let (?:mut )?(_\d+): (.*);$', body, re.M):
            f.locals[lm.group(1)] = lm.group(2)
        for a, t in f.args:
            f.locals[a] = t
        fns.setdefault(name, []).append(f)
    for m in re.finditer(r'^(?:const|static) ([^\n]*?::promoted\[\d+\]|[^\n:]*?): ([^\n]*?) = \{\n(.*?)^\}\n', text, re.S | re.M):
        name, ty, body = m.groups()
        f = Fn(name, name, body, text.count('\n', 0, m.start()) + 1)
        f.ret = ty
        f.kind = 'const'
        for lm in re.finditer(r'^\s+let (?:mut )?(_\d+): (.*);$', body, re.M):
            f.locals[lm.group(1)] = lm.group(2)
        fns.setdefault(name, []).append(f)
    allocs = {}
    for m in re.finditer(r'^(alloc\d+) \((?:static: ([\w:]+), )?size: (\d+), align: \d+\) \{\n(.*?)^\}\n', text, re.S | re.M):
        allocs[m.group(1)] = (int(m.group(3)), m.group(4), m.group(2))
    for m in re.finditer(r'^(alloc\d+) \((?:static: ([\w:]+), )?size: 0, align: \d+\) \{\}', text, re.M):
        allocs.setdefault(m.group(1), (0, '', m.group(2)))
    return fns, allocs, text


# --------------------------------------------------------------------------- statements

def parse_const(s):
    """constant operand text (after 'const ') -> ('int', value, ty) | ('bool', b) | ('str', s) | ('bytes', b)
       | ('char', c) | ('float', f) | ('unit',) | ('zst', text) | ('named', text) | ('alloc', text)"""
    s = s.strip()
    if s == '()':
        return ('unit',)
    if s in ('true', 'false'):
        return ('bool', s == 'true')
    m = re.fullmatch(r'(-?\d+)_(\w+)', s)
    if m and m.group(2) in INT_W:
        return ('int', int(m.group(1)), m.group(2))
    m = re.fullmatch(r'(-?[\d.]+(?:[eE][+-]?\d+)?)(f64|f32)', s)
    if m:
        return ('float', float(m.group(1)), m.group(2))
    m = re.fullmatch(r'([+-]?inf|NaN)(f64|f32)', s)
    if m:
        return ('float', float(m.group(1).replace('NaN', 'nan')), m.group(2))
    if s.startswith('"') and s.endswith('"'):
        return ('str', unescape_rust(s[1:-1]))
    if s.startswith('b"') and s.endswith('"'):
        return ('bytes', unescape_rust_bytes(s[2:-1]))
    m = re.fullmatch(r"'(.*)'", s, re.S)
    if m:
        return ('char', unescape_rust(m.group(1)))
    if s.startswith('ZeroSized: '):
        return ('zst', s[len('ZeroSized: '):])
    m = re.fullmatch(r'\{(alloc\d+)(?:<imm>)?: (.*)\}', s, re.S)
    if m:
        return ('alloc', m.group(1), m.group(2))
    return ('named', s)


def unescape_rust(s):
    out = []; i = 0; n = len(s)
    while i < n:
        c = s[i]
        if c == '\\' and i + 1 < n:
            d = s[i + 1]
            if d == 'n': out.append('\n'); i += 2
            elif d == 't': out.append('\t'); i += 2
            elif d == 'r': out.append('\r'); i += 2
            elif d == '0': out.append('\0'); i += 2
            elif d == '\\': out.append('\\'); i += 2
            elif d == '"': out.append('"'); i += 2
            elif d == "'": out.append("'"); i += 2
            elif d == 'x': out.append(chr(int(s[i + 2:i + 4], 16))); i += 4
            elif d == 'u':
                j = s.index('}', i); out.append(chr(int(s[i + 3:j], 16))); i = j + 1
            else: out.append(c); i += 1
        else:
            out.append(c); i += 1
    return ''.join(out)


def unescape_rust_bytes(s):
    out = bytearray(); i = 0; n = len(s)
    while i < n:
        c = s[i]
        if c == '\\' and i + 1 < n:
            d = s[i + 1]
            if d == 'n': out.append(10); i += 2
            elif d == 't': out.append(9); i += 2
            elif d == 'r': out.append(13); i += 2
            elif d == '0': out.append(0); i += 2
            elif d == '\\': out.append(92); i += 2
            elif d == '"': out.append(34); i += 2
            elif d == "'": out.append(39); i += 2
            elif d == 'x': out.append(int(s[i + 2:i + 4], 16)); i += 4
            else: out.append(ord(c)); i += 1
        else:
            out.extend(c.encode('utf-8')); i += 1
    return bytes(out)


def parse_operand(s):
    s = s.strip()
    if s.startswith('const '):
        return ('const', parse_const(s[6:]))
    m = re.match(r'^(?:no_retag )?(copy|move) (.*)$', s, re.S)
    if m:
        return (m.group(1), parse_place(m.group(2)))
    if re.match(r'^[<\w]', s) and not s.startswith(('copy', 'move')):
        return ('const', ('fnitem', s))
    raise MirSyntax('operand ' + s)


_BINOPS = ('Eq', 'Ne', 'Lt', 'Le', 'Gt', 'Ge', 'Add', 'Sub', 'Mul', 'Div', 'Rem', 'BitAnd', 'BitOr',
           'BitXor', 'Shl', 'Shr', 'Offset', 'Cmp', 'AddUnchecked', 'SubUnchecked', 'MulUnchecked',
           'ShlUnchecked', 'ShrUnchecked')


def operand_type(op, fn):
    """best-effort static type of an operand (for signedness)"""
    if op[0] == 'const':
        c = op[1]
        if c[0] == 'int':
            return c[2]
        if c[0] == 'bool':
            return 'bool'
        if c[0] == 'float':
            return c[2]
        if c[0] == 'char':
            return 'char'
        return None
    loc, proj = op[1]
    if not proj:
        return fn.locals.get(loc, '').strip()
    last = proj[-1]
    if last[0] == 'field':
        return last[2].strip()
    return None


def parse_rvalue(s, fn, dst_ty):
    s = s.strip()
    m = re.match(r'^(AddWithOverflow|SubWithOverflow|MulWithOverflow)\((.*)\)$', s, re.S)
    if m:
        a, b = [parse_operand(x) for x in split_top(m.group(2))]
        ty = operand_type(a, fn) or operand_type(b, fn)
        if ty is None and dst_ty:
            ty = dst_ty.strip('()').split(',')[0].strip()
        return ('checked', m.group(1)[:3], a, b, ty)
    m = re.match(r'^(\w+)\((.*)\)$', s, re.S)
    if m and m.group(1) in _BINOPS:
        a, b = [parse_operand(x) for x in split_top(m.group(2))]
        ty = operand_type(a, fn) or operand_type(b, fn)
        return ('binop', m.group(1), a, b, ty)
    m = re.match(r'^(Not|Neg|PtrMetadata)\((.*)\)$', s, re.S)
    if m:
        a = parse_operand(m.group(2))
        return ('unop', m.group(1), a, operand_type(a, fn))
    m = re.match(r'^discriminant\((.*)\)$', s, re.S)
    if m:
        return ('discr', parse_place(m.group(1)))
    m = re.match(r'^Len\((.*)\)$', s, re.S)
    if m:
        return ('len', parse_place(m.group(1)))
    m = re.match(r'^&(mut |raw const |raw mut |fake shallow |fake )?(.*)$', s, re.S)
    if m and not s.startswith('&&'):
        return ('ref', parse_place(m.group(2)))
    m = re.match(r'^(.*) as (.+?) \((\w+)(?:\((.*)\))?\)$', s, re.S)
    if m and (m.group(1).startswith(('copy ', 'move ', 'const ', 'no_retag '))):
        a = parse_operand(m.group(1))
        return ('cast', a, m.group(2).strip(), m.group(3), operand_type(a, fn), m.group(4))
    if s.startswith(('copy ', 'move ', 'const ', 'no_retag ')):
        return ('use', parse_operand(s))
    if s.startswith('[') and s.endswith(']'):
        inner = s[1:-1]
        parts = split_top(inner, ';')
        if len(parts) == 2:
            return ('repeat', parse_operand(parts[0]), parts[1].strip())
        return ('array', [parse_operand(x) for x in split_top(inner)])
    if s.startswith('(') and s.endswith(')') and not s.startswith('(*'):
        inner = s[1:-1]
        return ('tuple', [parse_operand(x) for x in split_top(inner) if x])
    if s == '()':
        return ('tuple', [])
    # closure / coroutine aggregate: {closure@src/..} (captures)
    m = re.match(r'^\{closure@([^}]*)\}(?: \{ (.*) \})?$', s, re.S)
    if m:
        caps = []
        for part in split_top(m.group(2) or ''):
            k, v = part.split(': ', 1)
            caps.append((k.strip(), parse_operand(v)))
        return ('closure', m.group(1), caps)
    # ADT aggregate:  Path::Variant(ops) | Path { f: op, .. } | Path::Variant | Path
    m = re.match(r'^([\w:<>&\'\[\], ()*;]+?) \{ (.*) \}$', s, re.S)
    if m and balanced(m.group(2)):
        fields = []
        for part in split_top(m.group(2)):
            k, v = part.split(': ', 1)
            fields.append((k.strip(), parse_operand(v)))
        return ('adt_struct', m.group(1).strip(), fields)
    if s.endswith(')') and '::' in s:
        sc = split_call(s)
        if sc and re.match(r'^[\w:<>&\'\[\], ()*;]+$', sc[0]) and '::' in sc[0]:
            return ('adt_tuple', sc[0].strip(), [parse_operand(x) for x in split_top(sc[1])])
    if dst_ty and re.fullmatch(r'[\w:<>]+', s) and re.match(r'^(for<[^>]*> )?fn\(.*\{.*\}$', dst_ty.strip(), re.S):
        # a function item assigned to a local of fn-item type (`_1 = mode::is_char_device;`)
        return ('use', ('const', ('fnitem', s)))
    if re.match(r'^[\w:<>&\'\[\], ()*;]+$', s) and ('::' in s or s[:1].isupper()):
        if '::' not in s and dst_ty and re.match(r'^[\w:]+$', dst_ty.strip()):
            # a bare (imported) variant name: qualify it with the declared type of the destination
            return ('adt_unit', dst_ty.strip() + '::' + s)
        return ('adt_unit', s)
    if re.fullmatch(r'[\w:<>]+', s):
        return ('use', ('const', ('fnitem', s)))
    raise MirSyntax('rvalue ' + s)


_CHAR_RE = re.compile(r"'(\\.|\\u\{[0-9a-fA-F]+\}|\\x[0-9a-fA-F]{2}|[^'\\])'")


def split_call(call):
    """`callee(args)` -> (callee, argstr): args = the last top-level paren group, which must end the text"""
    if not call.endswith(')'):
        return None
    i, n, d, start = 0, len(call), 0, None
    while i < n:
        c = call[i]
        if c == '"':
            j = i + 1
            while j < n and call[j] != '"':
                j += 2 if call[j] == '\\' else 1
            i = j + 1
            continue
        if c == "'":
            m = _CHAR_RE.match(call, i)
            if m:
                i = m.end(); continue
        if c == '(':
            if d == 0:
                start = i
            d += 1
        elif c == ')':
            d -= 1
        i += 1
    if start is None or d != 0:
        return None
    return call[:start], call[start + 1:-1]


def compile_stmt(l, fn):
    """one MIR line -> tuple"""
    if l.startswith(('StorageLive', 'StorageDead', 'nop', 'FakeRead', 'AscribeUserType', 'PlaceMention',
                     'Retag', 'Coverage', 'ConstEvalCounter', 'BackwardIncompatibleDropHint', 'debug ')):
        return ('nop',)
    m = re.match(r'^goto -> (bb\d+);$', l)
    if m:
        return ('goto', m.group(1))
    if l == 'return;':
        return ('return',)
    if l == 'unreachable;':
        return ('unreachable',)
    if l.startswith('resume'):
        return ('resume',)
    m = re.match(r'^switchInt\((.*)\) -> \[(.*)\];$', l, re.S)
    if m:
        op = parse_operand(m.group(1))
        tg = []
        for p in m.group(2).split(', '):
            k, b = p.split(': ')
            tg.append((None if k == 'otherwise' else int(k), b))
        return ('switch', op, tg, operand_type(op, fn))
    m = re.match(r'^assert\((!?)(.*?), "(.*?)"(?:, (.*))?\) -> \[success: (bb\d+), unwind.*\];$', l, re.S)
    if m:
        return ('assert', parse_operand(m.group(2)), not m.group(1), m.group(3), m.group(5))
    m = re.match(r'^drop\((.*?)\) -> \[return: (bb\d+), unwind.*\];$', l)
    if m:
        return ('drop', parse_place(m.group(1)), m.group(2))
    m = re.match(r'^(.*?) = (.*) -> \[return: (bb\d+), unwind.*\];$', l, re.S)
    if m:
        sc = split_call(m.group(2))
        if sc:
            callee, argstr = sc
            return ('call', parse_place(m.group(1)), callee.strip(),
                    [parse_operand(a) for a in split_top(argstr)], m.group(3))
    m = re.match(r'^(.*?) = (.*) -> (?:unwind.*|bb\d+);$', l, re.S)
    if m:
        sc = split_call(m.group(2))
        if sc:
            callee, argstr = sc
            return ('call', parse_place(m.group(1)), callee.strip(),
                    [parse_operand(a) for a in split_top(argstr)], None)
    m = re.match(r'^(.*?) = (.*);$', l, re.S)
    if m:
        dst = parse_place(m.group(1))
        dty = fn.locals.get(dst[0], '') if not dst[1] else (dst[1][-1][2] if dst[1][-1][0] == 'field' else '')
        return ('assign', dst, parse_rvalue(m.group(2), fn, dty))
    m = re.match(r'^(?:set_discriminant|discriminant)\((.*)\) = (\d+);$', l)
    if m:
        return ('setdiscr', parse_place(m.group(1)), int(m.group(2)))
    m = re.match(r'^(?:assume|Assume)\((.*)\);$', l)
    if m:
        return ('nop',)
    raise MirSyntax('stmt ' + l)
