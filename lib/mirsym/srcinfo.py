"""Type tables read from the Rust sources of the tree under test (regenerated every run):
enum variant order (= discriminant order when no explicit discriminants are given), struct
field order, and the `impl [Trait for] Type` header behind a `<impl at file:L:C: L:C>` span."""
import os, re

STD_ENUMS = {
    'Option': ['None', 'Some'],
    'Result': ['Ok', 'Err'],
    'Cow': ['Borrowed', 'Owned'],
    'ControlFlow': ['Continue', 'Break'],
    'Entry': ['Vacant', 'Occupied'],
    'LocalResult': ['Single', 'Ambiguous', 'None'],      # chrono 0.4.x (MappedLocalTime)
    'MappedLocalTime': ['Single', 'Ambiguous', 'None'],
}
# std::cmp::Ordering has explicit discriminants -1, 0, 1
ORDERING = {'Less': -1, 'Equal': 0, 'Greater': 1}


def strip_comments(src):
    out = []; i = 0; n = len(src)
    while i < n:
        c = src[i]
        if src.startswith('//', i):
            j = src.find('\n', i)
            if j < 0: j = n
            out.append(' ' * (j - i)); i = j; continue
        if src.startswith('/*', i):
            j = src.find('*/', i + 2)
            j = n if j < 0 else j + 2
            out.append(re.sub(r'[^\n]', ' ', src[i:j])); i = j; continue
        if c == '"':
            j = i + 1
            while j < n and src[j] != '"':
                j += 2 if src[j] == '\\' else 1
            out.append('"' + re.sub(r'[^\n]', '_', src[i + 1:j]) + '"'); i = j + 1; continue
        if c == "'":
            m = re.match(r"'(\\.|\\u\{[0-9a-fA-F]+\}|\\x[0-9a-fA-F]{2}|[^'\\])'", src[i:])
            if m:
                out.append("'" + '_' * (len(m.group(0)) - 2) + "'"); i += len(m.group(0)); continue
        out.append(c); i += 1
    return ''.join(out)


def _match_brace(s, i):
    d = 0
    for j in range(i, len(s)):
        if s[j] == '{': d += 1
        elif s[j] == '}':
            d -= 1
            if d == 0: return j
    return len(s) - 1


def _split_top(s):
    out, d, cur = [], 0, []
    for i, c in enumerate(s):
        if c in '([{<': d += 1
        elif c in ')]}': d -= 1
        elif c == '>' and i > 0 and s[i - 1] not in '-=': d -= 1
        if c == ',' and d == 0:
            out.append(''.join(cur)); cur = []
        else:
            cur.append(c)
    out.append(''.join(cur))
    return [x.strip() for x in out if x.strip()]


class SrcInfo:
    def __init__(self, root):
        self.root = root
        self.enums = {}      # name -> [(variant, kind, nfields|fieldnames, explicit_discr)]
        self.structs = {}    # name -> [field names] (or int for tuple structs)
        self.files = {}
        self.enum_file = {}
        for dp, dn, fn in os.walk(os.path.join(root, 'src')):
            for f in fn:
                if f.endswith('.rs'):
                    p = os.path.join(dp, f)
                    rel = os.path.relpath(p, root)
                    raw = open(p, encoding='utf-8', errors='replace').read()
                    self.files[rel] = (raw, strip_comments(raw))
        for rel, (raw, src) in self.files.items():
            self._scan(rel, src)

    def _scan(self, rel, src):
        for m in re.finditer(r'\benum\s+(\w+)\s*(?:<[^{]*>)?\s*\{', src):
            e = _match_brace(src, m.end() - 1)
            body = src[m.end():e]
            vs = []
            for part in _split_top(body):
                part = re.sub(r'#\[[^\]]*\]', '', part).strip()
                vm = re.match(r'^(\w+)\s*(\(.*\)|\{.*\})?\s*(?:=\s*(-?\d+))?$', part, re.S)
                if not vm:
                    continue
                name, pay, disc = vm.groups()
                if pay is None:
                    vs.append((name, 'unit', 0, disc))
                elif pay.startswith('('):
                    vs.append((name, 'tuple', len(_split_top(pay[1:-1])), disc))
                else:
                    vs.append((name, 'struct', [x.split(':')[0].strip().split()[-1] for x in _split_top(pay[1:-1])], disc))
            # local enums may be redefined (same name in different fns): keep the first, flag clash
            if m.group(1) in self.enums and self.enums[m.group(1)] != vs:
                self.enums[m.group(1) + '@' + rel] = vs
            else:
                self.enums[m.group(1)] = vs
                self.enum_file[m.group(1)] = rel
        for m in re.finditer(r'\bstruct\s+(\w+)\s*(?:<[^{(;]*>)?\s*(?:where[^{]*)?\{', src):
            e = _match_brace(src, m.end() - 1)
            body = src[m.end():e]
            fields = []
            for part in _split_top(body):
                part = re.sub(r'#\[[^\]]*\]', '', part).strip()
                fm = re.match(r'^(?:pub(?:\([^)]*\))?\s+)?(\w+)\s*:', part)
                if fm:
                    fields.append(fm.group(1))
            self.structs[m.group(1)] = fields
        for m in re.finditer(r'\bstruct\s+(\w+)\s*(?:<[^{(;]*>)?\s*\(([^;]*)\)\s*;', src):
            self.structs[m.group(1)] = len(_split_top(m.group(2)))
        for m in re.finditer(r'\bstruct\s+(\w+)\s*;', src):
            self.structs.setdefault(m.group(1), [])      # unit struct

    # ---------------------------------------------------------------- lookups
    def variants(self, enum):
        enum = enum.split('::')[-1]
        if enum in STD_ENUMS:
            return STD_ENUMS[enum]
        v = self.enums.get(enum)
        return [x[0] for x in v] if v else None

    def variant_index(self, enum, variant):
        enum = enum.split('::')[-1]
        if enum == 'Ordering':
            return ORDERING.get(variant)
        if enum in STD_ENUMS:
            return STD_ENUMS[enum].index(variant) if variant in STD_ENUMS[enum] else None
        cands = [self.enums.get(enum)] + [v for k, v in self.enums.items() if k.startswith(enum + '@')]
        for v in cands:
            if not v:
                continue
            nxt = 0
            for name, kind, nf, disc in v:
                if disc is not None:
                    nxt = int(disc)
                if name == variant:
                    return nxt
                nxt += 1
        return None

    def variant_name(self, enum, idx):
        enum = enum.split('::')[-1]
        if enum == 'Ordering':
            for k, v in ORDERING.items():
                if v == idx: return k
        vs = self.variants(enum)
        if vs and 0 <= idx < len(vs):
            return vs[idx]
        return None

    def variant_fields(self, enum, variant):
        v = self.enums.get(enum.split('::')[-1])
        if not v: return None
        for name, kind, nf, disc in v:
            if name == variant:
                return nf
        return None

    def find_variant(self, variant):
        """enums (crate) that have this variant name"""
        return [e for e, vs in self.enums.items() if any(x[0] == variant for x in vs)]

    def impl_at(self, file, line, col, ecol):
        """-> (trait or None, type) for the impl/derive whose span starts at file:line:col"""
        ent = self.files.get(file)
        if not ent:
            return None
        raw, src = ent
        lines = src.split('\n')
        if line - 1 >= len(lines):
            return None
        l = lines[line - 1]
        seg = l[col - 1:]
        if seg.startswith('impl'):
            # header may span lines
            rest = '\n'.join(lines[line - 1:line + 6])[col - 1:]
            hdr = rest.split('{')[0]
            hdr = re.sub(r'^impl\s*(<[^>]*(?:<[^>]*>[^>]*)*>)?\s*', '', hdr.strip())
            hdr = re.split(r'\bwhere\b', hdr)[0].strip()
            m = re.match(r'^(.*?)\s+for\s+(.*)$', hdr, re.S)
            if m:
                return (_last_seg(m.group(1)) + _trait_args(m.group(1)), _last_seg(m.group(2)))
            return (None, _last_seg(hdr))
        # derive: name at [col, ecol)
        dname = l[col - 1:ecol - 1]
        for k in range(line - 1, min(line + 12, len(lines))):
            m = re.search(r'\b(?:struct|enum|union)\s+(\w+)', lines[k])
            if m:
                return (dname, m.group(1))
        return None


def _trait_args(t):
    """normalised generic arguments of a trait reference: From<WritableBuffer> -> '<WritableBuffer>'"""
    t = t.strip()
    i = t.find('<')
    if i < 0 or not t.endswith('>'):
        return ''
    inner = t[i + 1:-1]
    return '<' + ','.join(_last_seg(x) for x in _split_top(inner)) + '>'


def _last_seg(t):
    t = t.strip()
    t = re.sub(r"^&(?:'\w+\s+)?(?:mut\s+)?", '', t)
    # strip generics
    d = 0; out = []
    for i, c in enumerate(t):
        if c == '<': d += 1
        elif c == '>' and t[i - 1] not in '-=': d -= 1
        elif d == 0: out.append(c)
    t = ''.join(out).strip()
    return t.split('::')[-1].strip()
