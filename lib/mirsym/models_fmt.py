"""Model of core::fmt as this nightly lowers `format_args!`:
    Arguments::new::<N, M>(template: &[u8; N], args: &[Argument; M])
template bytes: 0x00 end | n (1..0x7f) = literal of n bytes follows | 0xC0 = next argument, default options.
Any other directive byte (width / precision / flags) is UNMODELLED.
Display of crate types runs their real `fmt` body from the dump into a sink Formatter."""
import re
import z3
from z3 import BitVecVal, BoolVal, is_bv, is_bool, is_fp
from .core import Agg, EnumV, Cell, Ref, UNIT, Unmodelled, conc, sconc, ok, err, BoxV
from .models_std import model, Str, Bytes, as_str, str_concat, Seq, lift_str, SpecialStr
from .mirparse import INT_W, SIGNED


class FmtArg:
    __slots__ = ('kind', 'val', 'ty')

    def __init__(self, kind, val, ty):
        self.kind, self.val, self.ty = kind, val, ty


class FmtArgs:
    __slots__ = ('pieces',)

    def __init__(self, pieces):
        self.pieces = pieces     # list of Str | FmtArg


class Formatter:
    """sink: accumulates a Str; `fail_after` lets a driver inject write errors"""
    __slots__ = ('out',)

    def __init__(self):
        self.out = Str('')


class NumStr(SpecialStr):
    """decimal rendering of a bit-vector integer, with concrete prefix/suffix text"""
    __slots__ = ('bv', 'signed', 'pre', 'suf')

    def __init__(self, bvterm, signed, pre='', suf=''):
        Str.__init__(self)
        self.bv, self.signed, self.pre, self.suf = bvterm, signed, pre, suf

    def __repr__(self):
        return 'NumStr(%r+%s+%r)' % (self.pre, self.bv, self.suf)

    def z3term(self):
        raise Unmodelled('NumStr as z3 string')

    def length(self, ctx):
        raise Unmodelled('length of NumStr')

    def ndigits(self):
        """number of characters of the decimal rendering (incl. a minus sign), as a 64-bit term"""
        w = self.bv.size()
        v = self.bv
        neg = (v < 0) if self.signed else z3.BoolVal(False)
        mag = z3.If(neg, -v, v) if self.signed else v
        n = z3.BitVecVal(1, 64)
        p = 10
        k = 1
        while p < (1 << w):
            n = z3.If(z3.UGE(mag, z3.BitVecVal(p, w)), z3.BitVecVal(k + 1, 64), n)
            p *= 10; k += 1
        # build from the largest threshold down so that the outermost test wins
        n = z3.BitVecVal(1, 64)
        ths = []
        p = 10; k = 1
        while p < (1 << w):
            ths.append((p, k + 1)); p *= 10; k += 1
        for p, kk in ths:
            n = z3.If(z3.UGE(mag, z3.BitVecVal(p, w)), z3.BitVecVal(kk, 64), n)
        return z3.If(neg, n + 1, n) if self.signed else n

    def length(self, ctx):
        return self.ndigits() + z3.BitVecVal(len((self.pre + self.suf).encode('utf-8')), 64)

    def _with(self, pre, suf):
        return NumStr(self.bv, self.signed, pre, suf)

    def sop(self, ctx, name, args, callee, *extra):
        from .models_std import as_str
        from .core import conc
        if name == 'len':
            return self.length(ctx)
        if name == 'is_empty':
            return z3.BoolVal(False)
        if name == 'chars':
            from .models_std import ClassChars
            neg = bool(ctx.decide(self.bv < 0)) if self.signed else False
            return ClassChars(list(self.pre) + (['-'] if neg else []) + [None] + list(self.suf))
        if name == 'to_lower':
            return self._with(self.pre.lower(), self.suf.lower())
        if name == 'to_upper':
            return self._with(self.pre.upper(), self.suf.upper())
        if name == 'trim':
            if (self.pre and self.pre != self.pre.lstrip()) or (self.suf and self.suf != self.suf.rstrip()):
                raise Unmodelled('trim of decorated numeral')
            return self
        if name == 'replace':
            a = as_str(ctx, args[1]); b = as_str(ctx, args[2])
            if a.s is None or b.s is None or any(ch.isdigit() or ch == '-' for ch in a.s) or a.s == '':
                raise Unmodelled('replace on numeral')
            return self._with(self.pre.replace(a.s, b.s), self.suf.replace(a.s, b.s))
        if name in ('ends_with', 'starts_with', 'contains'):
            p = ctx.deref(args[1])
            if z3.is_bv(p):
                p = Str(chr(conc(p)))
            p = as_str(ctx, p)
            if p.s is None:
                raise Unmodelled(name + ' with symbolic pattern on numeral')
            t = p.s
            if t == '':
                return z3.BoolVal(True)
            if name == 'ends_with':
                if self.suf:
                    if len(t) <= len(self.suf):
                        return z3.BoolVal(self.suf.endswith(t))
                    head = t[:len(t) - len(self.suf)]
                    if t[len(t) - len(self.suf):] != self.suf:
                        return z3.BoolVal(False)
                    if any(not ch.isdigit() for ch in head):
                        return z3.BoolVal(False)        # the characters before the suffix are digits
                    raise Unmodelled('ends_with reaching into the digits of a numeral')
                if not t[-1].isdigit():
                    return z3.BoolVal(False)
                raise Unmodelled('ends_with digits on numeral')
            if name == 'starts_with':
                if self.pre:
                    if len(t) <= len(self.pre):
                        return z3.BoolVal(self.pre.startswith(t))
                    raise Unmodelled('starts_with longer than the prefix of a numeral')
                if t[0] == '-' and len(t) == 1 and self.signed:
                    return self.bv < 0
                if not (t[0].isdigit() or t[0] == '-'):
                    return z3.BoolVal(False)
                raise Unmodelled('starts_with digits on numeral')
            if not any(ch.isdigit() or ch == '-' for ch in t):
                return z3.BoolVal(t in self.pre or t in self.suf)
            raise Unmodelled('contains digits on numeral')
        if name == 'slice':
            kind = extra[0]
            rng = args[1]
            if kind == 'RangeTo':
                idx = rng.f[0]
                j = conc(z3.simplify(self.length(ctx) - idx))
                if j is None:
                    raise Unmodelled('slice of numeral at a symbolic offset')
                sb = self.suf.encode('utf-8')
                if 0 <= j <= len(sb):
                    return self._with(self.pre, sb[:len(sb) - j].decode('utf-8'))
            raise Unmodelled('slice of numeral (%s)' % kind)
        raise Unmodelled('%s on numeral' % name)

    def parse_hook(self, ctx, ty):
        if self.pre == '-' and not self.suf and not self.signed:
            # "-<digits>": a negative literal
            if ty == 'f64':
                return ok(z3.fpNeg(z3.fpToFPUnsigned(z3.RNE(), self.bv, z3.Float64())))
            if ty in INT_W and ty not in SIGNED:
                return err(UNIT) if True else None
            if ty in SIGNED:
                w = INT_W[ty]
                if w >= self.bv.size():
                    v = z3.ZeroExt(w - self.bv.size(), self.bv) if w > self.bv.size() else self.bv
                    fits = z3.ULE(self.bv, z3.BitVecVal(1 << (w - 1), self.bv.size()))
                    if ctx.decide(fits):
                        return ok(-v)
                    return err(UNIT)
        import re as _re
        if ty == 'f64' and ctx.ghost.get('exact_f64') and not self.pre and not self.signed and (self.suf or '') in ('', '.5', '.25', '.0625', '.000244140625'):
            den = {'': 1, '.5': 2, '.25': 4, '.0625': 16, '.000244140625': 4096}[self.suf or '']
            return ok(ExactF64(self.bv * den + (1 if den > 1 else 0), den))
        if ty == 'f64' and not self.pre and _re.fullmatch(r'\.[0-9]+', self.suf or ''):
            # "<digits>.<digits>": the decimal fraction (exact for the halves / quarters the drivers use)
            base = z3.fpToFP(z3.RNE(), self.bv, z3.Float64()) if self.signed else z3.fpToFPUnsigned(z3.RNE(), self.bv, z3.Float64())
            return ok(z3.fpAdd(z3.RNE(), base, z3.FPVal(float('0' + self.suf), z3.Float64())))
        if self.pre or self.suf:
            # "<digits><suffix>" is not an integer / float literal unless the suffix is empty
            if ty in INT_W or ty == 'f64':
                return err(UNIT)
            raise Unmodelled('parse::<%s> of decorated NumStr' % ty)
        w0 = self.bv.size()
        if ty in INT_W:
            w = INT_W[ty]; sg = ty in SIGNED
            v = self.bv
            # in range?
            if w == w0 and sg == self.signed:
                return ok(v)
            if self.signed:
                if sg:
                    if w >= w0:
                        return ok(z3.SignExt(w - w0, v))
                    fits = z3.And(v >= -(1 << (w - 1)), v <= (1 << (w - 1)) - 1)
                    if ctx.decide(fits):
                        return ok(z3.Extract(w - 1, 0, v))
                    return err(UNIT)
                nonneg = v >= 0
                if not ctx.decide(nonneg):
                    return err(UNIT)
                if w >= w0:
                    return ok(z3.ZeroExt(w - w0, v) if w > w0 else v)
                if ctx.decide(z3.ULT(v, BitVecVal(1 << w, w0))):
                    return ok(z3.Extract(w - 1, 0, v))
                return err(UNIT)
            else:
                lim = (1 << (w - 1)) - 1 if sg else (1 << w) - 1
                if w > w0 or (w == w0 and not sg):
                    return ok(z3.ZeroExt(w - w0, v) if w > w0 else v)
                if ctx.decide(z3.ULE(v, BitVecVal(lim, w0))):
                    return ok(z3.Extract(w - 1, 0, v) if w < w0 else v)
                return err(UNIT)
        if ty == 'f64':
            f = z3.fpToFP(z3.RNE(), self.bv, z3.Float64()) if self.signed else z3.fpToFPUnsigned(z3.RNE(), self.bv, z3.Float64())
            return ok(f)
        raise Unmodelled('parse::<%s> of NumStr' % ty)


def rust_str_debug(t):
    """<str as Debug>::fmt of a concrete text (char::escape_debug_ext with grapheme-extend escaping; the Unicode tables
    are approximated by Python's unicodedata: Cc Cf Cs Co Cn Zl Zp and non-space Zs unprintable, Mn Me extenders)"""
    import unicodedata
    out = ['"']
    for ch in t:
        if ch in '"\\':
            out.append('\\' + ch)
        elif ch == '\n':
            out.append('\\n')
        elif ch == '\r':
            out.append('\\r')
        elif ch == '\t':
            out.append('\\t')
        elif ch == '\0':
            out.append('\\0')
        else:
            cat = unicodedata.category(ch)
            if cat in ('Cc', 'Cf', 'Cs', 'Co', 'Cn', 'Zl', 'Zp', 'Mn', 'Me') or (cat == 'Zs' and ch != ' '):
                out.append('\\u{%x}' % ord(ch))
            else:
                out.append(ch)
    out.append('"')
    return ''.join(out)


def render_value(ctx, v, kind='display', ty=''):
    """-> Str for one formatted argument"""
    v0 = v
    v = ctx.deref(v)
    if isinstance(v, Str):
        if kind == 'debug':
            if hasattr(v, 'debug_hook'):
                return v.debug_hook(ctx)
            if v.s is not None:
                return Str(rust_str_debug(v.s))
            raise Unmodelled('Debug of symbolic string')
        return v
    if isinstance(v, EnumV) and v.ty == 'Cow':
        return render_value(ctx, list(v.p.values())[0][0], kind, ty)
    if is_bv(v) and kind in ('hex', 'HEX', 'bin', 'oct'):
        # radix directives print the two's-complement bit pattern of the value
        c = conc(v)
        if c is None:
            return OpaqueStr('%s(%s)' % (kind, v))
        return Str(format(c & ((1 << v.size()) - 1), {'hex': 'x', 'HEX': 'X', 'bin': 'b', 'oct': 'o'}[kind]))
    if is_bv(v):
        t = ty.strip().lstrip('&').strip()
        c = conc(v)
        if t == 'char':
            if c is None:
                raise Unmodelled('Display of symbolic char')
            return Str(chr(c))
        sg = t in SIGNED
        if c is not None:
            return Str(str(sconc(v) if sg else c))
        return NumStr(v, sg)
    if is_bool(v):
        c = conc(v)
        if c is None:
            from .models_std import table_str
            return Str(var=None, tab=None, term=z3.If(v, z3.StringVal('true'), z3.StringVal('false')))
        return Str('true' if c else 'false')
    if is_fp(v):
        s = z3.simplify(v)
        if z3.is_fp_value(s):
            return Str(rust_f64_display(s))
        if hasattr(ctx, 'float_display'):
            return ctx.float_display(v)
        return FloatStr(v)
    # crate types: run the real Display / Debug impl
    tname = None
    if isinstance(v, Agg) and v.ty:
        tname = v.ty
    elif isinstance(v, EnumV) and v.ty:
        tname = v.ty
    if tname:
        tr = 'Display' if kind == 'display' else 'Debug'
        fl = ctx.prog.by_trait.get((tr, tname, 'fmt'))
        if fl:
            f = Formatter()
            ref = v0 if isinstance(v0, Ref) else Ref(Cell(v))
            for _ in range(8):
                t = ctx.project(ref.cell.v, ref.path)
                if isinstance(t, Ref):
                    ref = t
                elif isinstance(t, BoxV):
                    ref = Ref(t.cell)
                elif hasattr(t, 'cell') and type(t).__name__ == 'RcV':
                    ref = Ref(t.cell)
                else:
                    break
            ctx.call_fn(fl[0], [ref, Ref(Cell(f))])
            return f.out
    if hasattr(v, 'display'):
        return v.display(ctx, kind)
    raise Unmodelled('%s of %r (%s)' % (kind, type(v).__name__, ty))


class ExactF64:
    """an f64 known to be the exact rational num/den (den a power of two, |value| < 2^53): float multiplications by
    integer-valued constants and the cast to an integer are then integer arithmetic — no IEEE bit-blasting.
    The side condition (the product stays below 2^53) is checked on every operation; if it can fail the path is UNMODELLED."""
    __slots__ = ('num', 'den')

    def __init__(self, num, den=1):
        self.num, self.den = num, den

    def __repr__(self):
        return 'ExactF64(%s/%d)' % (self.num, self.den)

    def binop(self, ctx, op, other, ty):
        if op == 'Mul' and z3.is_fp(other):
            o = z3.simplify(other)
            if z3.is_fp_value(o):
                r = z3.simplify(z3.fpToReal(o))
                if r.denominator_as_long() == 1 and r.numerator_as_long() > 0:
                    k = r.numerator_as_long()
                    num = self.num * k
                    # the product, as an exact integer (128 bits), stays below 2^53 * den and inside the 64-bit numerator
                    wide = z3.ZeroExt(64, self.num) * z3.BitVecVal(k, 128)
                    okc = z3.And(z3.ULT(wide, z3.BitVecVal(min((1 << 53) * self.den, 1 << 64), 128)))
                    if ctx.check(z3.Not(okc)) != z3.unsat:
                        raise Unmodelled('exact-f64 abstraction: the product may exceed 2^53')
                    return ExactF64(num, self.den)
        if op in ('Ge', 'Gt', 'Le', 'Lt', 'Eq', 'Ne') and z3.is_fp(other):
            o = z3.simplify(other)
            if z3.is_fp_value(o) and not o.isNaN() and not o.isInf():
                # num/den (>= 0) against the rational constant p/q: cross-multiplied in 128 bits
                r = z3.simplify(z3.fpToReal(o))
                p_, q_ = r.numerator_as_long(), r.denominator_as_long()
                if p_ < 0:
                    return z3.BoolVal(op in ('Ge', 'Gt', 'Ne'))
                a = z3.ZeroExt(64, self.num) * z3.BitVecVal(q_, 128); b = z3.BitVecVal(p_ * self.den, 128)
                return {'Ge': z3.UGE(a, b), 'Gt': z3.UGT(a, b), 'Le': z3.ULE(a, b), 'Lt': z3.ULT(a, b), 'Eq': a == b, 'Ne': a != b}[op]
        raise Unmodelled('exact-f64 abstraction: %s with %r' % (op, other))

    def cast(self, ctx, to, kind, from_ty):
        if kind == 'FloatToInt' and to in INT_W:
            w = INT_W[to]
            q = z3.UDiv(self.num, z3.BitVecVal(self.den, 64))
            return q if w == 64 else z3.Extract(w - 1, 0, q)
        raise Unmodelled('exact-f64 abstraction: cast %s' % kind)


class FloatStr(SpecialStr):
    """Display text of a symbolic f64 (uninterpreted; parse::<f64> gives the value back)"""
    __slots__ = ('fp', 'pre', 'suf')

    def __init__(self, fp, pre='', suf=''):
        Str.__init__(self)
        self.fp, self.pre, self.suf = fp, pre, suf

    def __repr__(self):
        return 'FloatStr(%s)' % self.fp

    def z3term(self):
        raise Unmodelled('FloatStr as z3 string')

    def length(self, ctx):
        raise Unmodelled('length of FloatStr')

    def parse_hook(self, ctx, ty):
        if self.pre or self.suf:
            raise Unmodelled('parse of decorated FloatStr')
        if ty == 'f64':
            return ok(self.fp)
        raise Unmodelled('parse::<%s> of FloatStr' % ty)


def rust_f64_display(fpval):
    """Rust's `{}` for a concrete f64"""
    if z3.fpIsNaN(fpval) is True or str(fpval) == 'NaN':
        return 'NaN'
    s = str(fpval)
    if s in ('+oo',):
        return 'inf'
    if s in ('-oo',):
        return '-inf'
    import fractions
    r = z3.simplify(z3.fpToReal(fpval))
    fr = fractions.Fraction(r.numerator_as_long(), r.denominator_as_long())
    f = float(fr)
    if f == int(f) and abs(f) < 1e16:
        txt = str(int(f))
        if f == 0 and str(fpval).startswith('-'):
            txt = '-0'
        return txt
    txt = repr(f)
    if 'e' in txt or 'E' in txt:
        # Rust never uses exponent notation for `{}`
        from decimal import Decimal
        txt = format(Decimal(txt), 'f')
    return txt


def render(ctx, fa):
    out = Str('')
    for p in fa.pieces:
        if isinstance(p, Str):
            piece = p
        else:
            piece = render_value(ctx, p.val, p.kind, p.ty)
        out = concat_any(ctx, out, piece)
    return out


def concat_any(ctx, a, b):
    if type(a) is Str and a.s == '':
        return b
    if type(b) is Str and b.s == '':
        return a
    if isinstance(a, NumStr) or isinstance(b, NumStr) or isinstance(a, FloatStr) or isinstance(b, FloatStr):
        if isinstance(a, (NumStr, FloatStr)) and b.s is not None:
            r = type(a).__new__(type(a)); Str.__init__(r)
            if isinstance(a, NumStr):
                NumStr.__init__(r, a.bv, a.signed, a.pre, a.suf + b.s)
            else:
                FloatStr.__init__(r, a.fp, a.pre, a.suf + b.s)
            return r
        if isinstance(b, (NumStr, FloatStr)) and a.s is not None and not (isinstance(a, (NumStr, FloatStr))):
            if isinstance(b, NumStr):
                return NumStr(b.bv, b.signed, a.s + b.pre, b.suf)
            return FloatStr(b.fp, a.s + b.pre, b.suf)
        raise Unmodelled('concat of two symbolic numerals')
    if hasattr(a, 'concat_hook'):
        return a.concat_hook(ctx, b, False)
    if hasattr(b, 'concat_hook'):
        return b.concat_hook(ctx, a, True)
    if isinstance(a, SpecialStr) or isinstance(b, SpecialStr):
        return OpaqueStr('%r ++ %r' % (a, b))
    return str_concat(ctx, a, b)


class OpaqueStr(SpecialStr):
    """a text nothing is known about except that it was built (messages); any inspection of it is UNMODELLED"""
    __slots__ = ('what',)

    def __init__(self, what):
        Str.__init__(self)
        self.what = what

    def __repr__(self):
        return 'OpaqueStr(%s)' % self.what[:60]


@model(r'^core::fmt::rt::Argument::new_(display|debug|lower_hex|upper_hex|binary|octal)$')
def m_arg_new(ctx, args, callee):
    m = re.search(r'new_\w+::<(.*)>$', callee.strip(), re.S)
    ty = m.group(1) if m else ''
    kind = {'new_display': 'display', 'new_debug': 'debug', 'new_lower_hex': 'hex', 'new_upper_hex': 'HEX', 'new_binary': 'bin', 'new_octal': 'oct'}[re.search(r'new_[a-z_]+', callee).group(0)]
    return FmtArg(kind, args[0], ty)


@model(r'^Arguments::new$|^core::fmt::Arguments::new$|^std::fmt::Arguments::new$')
def m_arguments_new(ctx, args, callee):
    tmpl = ctx.deref(args[0])
    if not isinstance(tmpl, Bytes):
        raise Unmodelled('format template %r' % (type(tmpl).__name__,))
    argv = ctx.deref(args[1])
    items = argv.f if isinstance(argv, Agg) else [c.v for c in argv.items]
    b = tmpl.b
    pieces = []; i = 0; nxt = 0
    while i < len(b):
        c = b[i]
        if c == 0:
            break
        if c < 0x80:
            pieces.append(Str(b[i + 1:i + 1 + c].decode('utf-8', 'replace'))); i += 1 + c
        elif c == 0xC0:
            pieces.append(items[nxt]); nxt += 1; i += 1
        else:
            raise Unmodelled('format directive 0x%02x' % c)
    return FmtArgs(pieces)


@model(r'^Arguments::from_str$|^Arguments::new_const$|^core::fmt::Arguments::from_str$')
def m_arguments_from_str(ctx, args, callee):
    a = ctx.deref(args[0])
    if isinstance(a, Str):
        return FmtArgs([a])
    if isinstance(a, Agg):
        return FmtArgs([as_str(ctx, x) for x in a.f])
    raise Unmodelled('Arguments::from_str of %r' % (type(a).__name__,))


@model(r'^std::fmt::format$|^alloc::fmt::format$')
def m_format(ctx, args, callee):
    return render(ctx, args[0])


@model(r'^<.* as ToString>::to_string$', 'to_string_via_display')
def m_to_string(ctx, args, callee):
    m = re.match(r'^<(.*) as ToString>::to_string$', callee.strip(), re.S)
    return render_value(ctx, args[0], 'display', m.group(1) if m else '')


def _fmt_target(ctx, v):
    while isinstance(v, Ref):
        t = ctx.project(v.cell.v, v.path)
        if isinstance(t, Ref):
            v = t
        else:
            return t, v
    return v, None


@model(r'^Formatter::write_str$|^std::fmt::Formatter::write_str$|^<std::fmt::Formatter<\'_> as (std::fmt::)?Write>::write_str$|^core::fmt::Formatter::write_str$')
def m_fmt_write_str(ctx, args, callee):
    f, _ = _fmt_target(ctx, args[0])
    f.out = concat_any(ctx, f.out, as_str(ctx, args[1]))
    return ok(UNIT)


@model(r'^<std::fmt::Formatter<\'_> as (std::fmt::)?Write>::write_char$|^std::fmt::Formatter::write_char$')
def m_fmt_write_char(ctx, args, callee):
    f, _ = _fmt_target(ctx, args[0])
    c = conc(args[1])
    if c is None:
        raise Unmodelled('write_char(symbolic)')
    f.out = concat_any(ctx, f.out, Str(chr(c)))
    return ok(UNIT)


@model(r'^Formatter::write_fmt$|^std::fmt::Formatter::write_fmt$|^<std::fmt::Formatter<\'_> as (std::fmt::)?Write>::write_fmt$|^core::fmt::Formatter::write_fmt$')
def m_fmt_write_fmt(ctx, args, callee):
    f, _ = _fmt_target(ctx, args[0])
    f.out = concat_any(ctx, f.out, render(ctx, args[1]))
    return ok(UNIT)


@model(r'^<(std::string::String|str|&str) as (std::fmt::)?Display>::fmt$')
def m_str_display(ctx, args, callee):
    f, _ = _fmt_target(ctx, args[1])
    f.out = concat_any(ctx, f.out, as_str(ctx, args[0]))
    return ok(UNIT)


@model(r'^<std::string::String as (std::fmt::)?Write>::write_str$|^<std::string::String as (std::fmt::)?Write>::write_fmt$')
def m_string_write(ctx, args, callee):
    cur = as_str(ctx, args[0])
    add = as_str(ctx, args[1]) if callee.endswith('write_str') else render(ctx, args[1])
    ctx.store(args[0], concat_any(ctx, cur, add))
    return ok(UNIT)


def render_lazy(ctx, fa):
    try:
        return render(ctx, fa)
    except Unmodelled as e:
        return Str('<unrendered: %s>' % e)


@model(r'^std::io::_print$|^std::io::_eprint$', 'print_to_ghost')
def m_print(ctx, args, callee):
    ctx.ghost.setdefault('stderr' if 'eprint' in callee else 'stdout_print', []).append(render_lazy(ctx, args[0]))
    return UNIT
