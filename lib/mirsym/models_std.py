"""Contract models for code outside the crate (std / alloc / core).  Each model states the contract it
implements; every model used on a run is listed in the evidence.  Anything not matched here (and not
defined in the dump) is UNMODELLED and makes the path inconclusive."""
import re
import z3
from z3 import (BitVecVal, BoolVal, Not, And, Or, If, ULT, ULE, UGT, UGE, is_bv, is_bool, is_fp, simplify,
                is_true, is_false)
from .core import (Agg, EnumV, Cell, Ref, BoxV, UNIT, FnItem, Closure, Panic, PathEnd, Unmodelled, Exit,
                   conc, sconc, some, none, ok, err, mk_bool_enum, clone_struct, to_bool, UNINIT)
from .mirparse import INT_W, SIGNED

MODELS = []


def model(pattern, name=None):
    def deco(f):
        MODELS.append((re.compile(pattern), f, name or f.__name__))
        return f
    return deco


@model(r'^<.* as Fn(Once|Mut)?<\(.*\)>>::call(_once|_mut)?$')
def m_fn_call(ctx, args, callee):
    """`f(x)` on a closure / fn item held in a local: the arguments arrive as one tuple"""
    from .core import Agg
    tup = args[1]
    return ctx.call_closure(args[0], list(tup.f) if isinstance(tup, Agg) else [tup])


def _int_valued_fp(x):
    """syntactically a float converted from a bit-vector integer (possibly negated): finite, without a fraction"""
    try:
        while x.decl().kind() == z3.Z3_OP_FPA_NEG:
            x = x.arg(0)
        return x.decl().kind() == z3.Z3_OP_FPA_TO_FP_UNSIGNED or (x.decl().kind() == z3.Z3_OP_FPA_TO_FP and x.num_args() == 2 and z3.is_bv(x.arg(1)))
    except Exception:
        return False


@model(r'^(core::|std::)?f64::<impl f64>::(fract|trunc|floor|ceil|round)$|^f64::(fract|trunc|floor|ceil|round)$')
def m_f64_rounding(ctx, args, callee):
    x = args[0]
    k = callee.rsplit('::', 1)[1]
    # a value converted from an integer has no fraction (said syntactically: the solver's float theory needs minutes to find that out)
    if _int_valued_fp(x):
        return z3.FPVal(0.0, x.sort()) if k == 'fract' else x
    tr = z3.fpRoundToIntegral(z3.RTZ(), x)
    if k == 'fract':
        return z3.fpSub(z3.RNE(), x, tr)
    mode = {'trunc': z3.RTZ(), 'floor': z3.RTN(), 'ceil': z3.RTP(), 'round': z3.RNA()}[k]
    return z3.fpRoundToIntegral(mode, x)


@model(r'^core::f64::<impl f64>::is_finite$|^f64::is_finite$|^core::f64::<impl f64>::is_nan$|^f64::is_nan$|^core::f64::<impl f64>::is_infinite$|^f64::is_infinite$')
def m_f64_class(ctx, args, callee):
    from .models_fmt import ExactF64
    x = args[0]
    k = callee.rsplit('::', 1)[1]
    if isinstance(x, ExactF64) or _int_valued_fp(x):
        return z3.BoolVal(k == 'is_finite')
    return {'is_finite': z3.Not(z3.Or(z3.fpIsNaN(x), z3.fpIsInf(x))), 'is_nan': z3.fpIsNaN(x), 'is_infinite': z3.fpIsInf(x)}[k]


# =========================================================================== strings
class Str:
    """text value. kinds: concrete python str | TableSym (symbolic index into a table of concrete strings)
    | z3 String term"""
    __slots__ = ('s', 'var', 'tab', 'term')

    def __init__(self, s=None, var=None, tab=None, term=None):
        self.s, self.var, self.tab, self.term = s, var, tab, term

    @property
    def concrete(self):
        return self.s is not None

    @property
    def is_table(self):
        return self.tab is not None

    def __repr__(self):
        if self.s is not None:
            return 'Str(%r)' % self.s
        if self.tab is not None:
            return 'StrTab(%s,%r)' % (self.var, self.tab)
        return 'StrZ3(%s)' % self.term

    def length(self, ctx):
        return lift_int(ctx, lambda a: len(a.encode('utf-8')), 64, self)

    def z3term(self):
        if self.s is not None:
            return z3.StringVal(self.s)
        if self.term is not None:
            return self.term
        t = z3.StringVal(self.tab[max(self.tab)])
        for i in sorted(self.tab)[:-1][::-1]:
            t = If(self.var == i, z3.StringVal(self.tab[i]), t)
        return t

    def index_read(self, ctx, idx):
        raise Unmodelled('index into str')


class SpecialStr(Str):
    """symbolic text with structure (decimal rendering of an integer / float): supports the string operations
    listed in `sop`; anything else is UNMODELLED"""
    __slots__ = ()

    def sop(self, ctx, name, *args):
        raise Unmodelled('%s on %s' % (name, type(self).__name__))


class Bytes:
    __slots__ = ('b',)

    def __init__(self, b):
        self.b = bytes(b)

    def length(self, ctx):
        return BitVecVal(len(self.b), 64)

    def __repr__(self):
        return 'Bytes(%r)' % self.b


def table_str(ctx, name, entries):
    """a fresh TableSym over the given concrete strings"""
    entries = list(entries)
    if len(entries) == 1:
        return Str(entries[0])
    v = ctx.fresh_bv(name, 8)
    ctx.assume(ULT(v, BitVecVal(len(entries), 8)))
    return Str(var=v, tab=dict(enumerate(entries)))


def as_str(ctx, v):
    v = ctx.deref(v)
    if isinstance(v, Str):
        return v
    if isinstance(v, EnumV) and v.ty == 'Cow':
        return as_str(ctx, list(v.p.values())[0][0])
    if hasattr(v, 'as_str'):
        return v.as_str(ctx)
    raise Unmodelled('expected string, got %r' % (type(v).__name__,))


def _tables(strs):
    return [x for x in strs if x.tab is not None]


def lift_str(ctx, f, *strs):
    """apply a python str function; result is a Str"""
    if all(x.s is not None for x in strs):
        return Str(f(*[x.s for x in strs]))
    tabs = _tables(strs)
    if any(x.term is not None for x in strs) or len({id(t.var) for t in tabs}) > 1 and not _same_var(tabs):
        raise Unmodelled('string op on z3 term / two tables')
    var = tabs[0].var
    out = {}
    for i in tabs[0].tab:
        out[i] = f(*[(x.s if x.s is not None else x.tab[i]) for x in strs])
    if len(set(out.values())) == 1:
        return Str(next(iter(out.values())))
    return Str(var=var, tab=out)


def _same_var(tabs):
    return all(t.var.eq(tabs[0].var) for t in tabs)


def lift_val(ctx, f, strs, mk, zero):
    """apply a python function returning a python scalar; mk(pyvalue) -> z3 term"""
    if all(x.s is not None for x in strs):
        return mk(f(*[x.s for x in strs]))
    tabs = _tables(strs)
    if any(x.term is not None for x in strs) or not tabs or not _same_var(tabs):
        raise Unmodelled('string op on z3 term / two tables')
    var = tabs[0].var
    keys = sorted(tabs[0].tab)
    vals = {i: f(*[(x.s if x.s is not None else x.tab[i]) for x in strs]) for i in keys}
    distinct = set(vals.values())
    if len(distinct) == 1:
        return mk(vals[keys[0]])
    # group keys by value
    res = mk(vals[keys[-1]])
    groups = {}
    for i in keys:
        groups.setdefault(vals[i], []).append(i)
    items = list(groups.items())
    res = mk(items[-1][0])
    for val, ks in items[:-1][::-1]:
        res = If(Or([var == k for k in ks]), mk(val), res)
    return res


def lift_bool(ctx, f, *strs):
    return lift_val(ctx, f, strs, lambda b: BoolVal(bool(b)), False)


def lift_int(ctx, f, w, *strs):
    return lift_val(ctx, f, strs, lambda n: BitVecVal(n, w), 0)


def str_eq(ctx, a, b):
    if hasattr(a, 'eq_hook'):
        return a.eq_hook(ctx, b)
    if hasattr(b, 'eq_hook'):
        return b.eq_hook(ctx, a)
    if hasattr(a, 'bv') or hasattr(b, 'bv') or hasattr(a, 'fp') or hasattr(b, 'fp'):
        return numstr_eq(ctx, a, b)
    if a.term is not None or b.term is not None:
        return a.z3term() == b.z3term()
    if a.tab is not None and b.tab is not None and not a.var.eq(b.var):
        return Or([And(a.var == i, b.var == j) for i in a.tab for j in b.tab if a.tab[i] == b.tab[j]])
    return lift_bool(ctx, lambda x, y: x == y, a, b)


def numstr_eq(ctx, a, b):
    """equality involving the decimal rendering of a symbolic integer (injective per signedness/width)"""
    if hasattr(a, 'fp') or hasattr(b, 'fp'):
        if hasattr(a, 'fp') and hasattr(b, 'fp') and (a.pre, a.suf) == (b.pre, b.suf):
            # Display of f64 is injective on non-NaN values except that it is one text per value
            return z3.fpEQ(a.fp, b.fp) if True else None
        raise Unmodelled('equality of float rendering with other text')
    if hasattr(a, 'bv') and hasattr(b, 'bv'):
        if (a.pre, a.suf, a.signed) == (b.pre, b.suf, b.signed) and a.bv.size() == b.bv.size():
            return a.bv == b.bv
        raise Unmodelled('equality of two differently decorated numerals')
    n, o = (a, b) if hasattr(a, 'bv') else (b, a)
    if o.s is not None:
        t = o.s
        if not (t.startswith(n.pre) and t.endswith(n.suf) and len(t) >= len(n.pre) + len(n.suf)):
            return BoolVal(False)
        mid = t[len(n.pre):len(t) - len(n.suf)] if n.suf else t[len(n.pre):]
        import re as _re
        if not _re.fullmatch(r'-?(0|[1-9][0-9]*)', mid) or (mid.startswith('-') and not n.signed) or mid == '-0':
            return BoolVal(False)
        v = int(mid); w = n.bv.size()
        lo, hi = (-(1 << (w - 1)), (1 << (w - 1)) - 1) if n.signed else (0, (1 << w) - 1)
        if v < lo or v > hi:
            return BoolVal(False)
        return n.bv == BitVecVal(v, w)
    if o.tab is not None:
        return Or([And(o.var == i, numstr_eq(ctx, n, Str(t))) for i, t in o.tab.items()])
    raise Unmodelled('equality of numeral rendering with symbolic text')


# --- construction / conversion
_STRT = r"(&*(mut )?(str|std::string::String|String|Cow<'_, str>|Box<str>))"


@model(r'^<' + _STRT + r' as (ToOwned|ToString|Clone|Deref|DerefMut|AsRef<str>|Borrow<str>|Into<std::string::String>'
       r'|From<' + _STRT + r'>)>::(to_owned|to_string|clone|deref|deref_mut|as_ref|borrow|into|from)$'
       r'|^std::string::String::as_str$|^std::string::String::as_mut_str$|^Cow::into_owned$|^std::string::String::into_boxed_str$'
       r'|^<std::string::String as From<Cow<\'_, str>>>::from$|^(core::)?str::<impl str>::to_string$|^(core::)?str::<impl str>::to_owned$'
       r'|^(core::)?str::<impl str>::into_string$', 'str_identity')
def m_str_identity(ctx, args, callee):
    return as_str(ctx, args[0])


@model(r'^std::string::String::new$')
def m_string_new(ctx, args, callee):
    return Str('')


@model(r'^std::string::String::with_capacity$')
def m_string_with_capacity(ctx, args, callee):
    return Str('')


@model(r'^<std::string::String as From<char>>::from$|^<char as ToString>::to_string$|^char::to_string$')
def m_string_from_char(ctx, args, callee):
    c = conc(ctx.deref(args[0]))
    if c is None:
        raise Unmodelled('String::from(symbolic char)')
    return Str(chr(c))


@model(r'^std::string::String::len$|^core::str::<impl str>::len$|^str::<impl str>::len$')
def m_str_len(ctx, args, callee):
    _s0 = as_str(ctx, args[0])
    if isinstance(_s0, SpecialStr):
        return _s0.sop(ctx, 'len', args, callee)
    return as_str(ctx, args[0]).length(ctx)


@model(r'^std::string::String::is_empty$|^core::str::<impl str>::is_empty$|^str::<impl str>::is_empty$')
def m_str_is_empty(ctx, args, callee):
    _s0 = as_str(ctx, args[0])
    if isinstance(_s0, SpecialStr):
        return _s0.sop(ctx, 'is_empty', args, callee)
    s = as_str(ctx, args[0])
    if s.term is not None:
        return z3.Length(s.term) == 0
    return lift_bool(ctx, lambda a: a == '', s)


@model(r'^std::string::String::push_str$')
def m_push_str(ctx, args, callee):
    s = as_str(ctx, args[0]); t = as_str(ctx, args[1])
    ctx.store(args[0], str_concat(ctx, s, t))
    return UNIT


@model(r'^std::string::String::push$')
def m_push(ctx, args, callee):
    s = as_str(ctx, args[0]); c = conc(args[1])
    if c is None:
        if hasattr(args[1], 'charsym'):
            pass
        raise Unmodelled('String::push(symbolic char)')
    ctx.store(args[0], str_concat(ctx, s, Str(chr(c))))
    return UNIT


@model(r'^std::string::String::clear$')
def m_str_clear(ctx, args, callee):
    ctx.store(args[0], Str(''))
    return UNIT


def str_concat(ctx, a, b):
    if isinstance(a, SpecialStr) or isinstance(b, SpecialStr):
        from .models_fmt import concat_any
        return concat_any(ctx, a, b)
    if a.term is not None or b.term is not None:
        return Str(term=z3.Concat(a.z3term(), b.z3term()))
    if a.tab is not None and b.tab is not None and not a.var.eq(b.var):
        raise Unmodelled('concat of two independent tables')
    return lift_str(ctx, lambda x, y: x + y, a, b)


@model(r'^<std::string::String as Add<&str>>::add$')
def m_str_add(ctx, args, callee):
    return str_concat(ctx, as_str(ctx, args[0]), as_str(ctx, args[1]))


@model(r'^<std::string::String as AddAssign<&str>>::add_assign$')
def m_str_add_assign(ctx, args, callee):
    ctx.store(args[0], str_concat(ctx, as_str(ctx, args[0]), as_str(ctx, args[1])))
    return UNIT


@model(r'^<(&?&?(mut )?(str|std::string::String)|Cow<\'_, str>) as PartialEq(<.*>)?>::(eq|ne)$', 'str_eq')
def m_str_eq(ctx, args, callee):
    r = str_eq(ctx, as_str(ctx, args[0]), as_str(ctx, args[1]))
    return Not(r) if callee.endswith('::ne') else r


@model(r'^(std::result::)?Result::is_ok_and$|^(std::result::)?Result::is_err_and$|^(std::option::)?Option::is_some_and$|^(std::option::)?Option::is_none_or$')
def m_is_x_and(ctx, args, callee):
    ev = args[0]
    d = ev.d if isinstance(ev.d, int) else conc(ev.d)
    if d is None:
        d = ctx.concretize(ev.d, [0, 1])
    k = re.search(r'::(is_ok_and|is_err_and|is_some_and|is_none_or)\b', callee).group(1)
    hit = {'is_ok_and': 0, 'is_err_and': 1, 'is_some_and': 1, 'is_none_or': 1}[k]
    if d == hit:
        return ctx.call_closure(args[1], [ev.p[d][0]])
    return BoolVal(k == 'is_none_or')


@model(r'^<(&?)(f64|f32) as PartialOrd>::partial_cmp$')
def m_float_partial_cmp(ctx, args, callee):
    """None when either side is NaN, otherwise the order of the two numbers"""
    a = ctx.deref(args[0]); b = ctx.deref(args[1])
    if ctx.decide(Or(z3.fpIsNaN(a), z3.fpIsNaN(b))):
        return none()
    d = simplify(If(z3.fpLT(a, b), BitVecVal(-1, 64), If(z3.fpEQ(a, b), BitVecVal(0, 64), BitVecVal(1, 64))))
    return some(EnumV(d, {}, 'Ordering'))


@model(r'^<T as (Ord|PartialOrd)>::(cmp|partial_cmp)$', 'generic_T_cmp')
def m_generic_t_cmp(ctx, args, callee):
    """a generic T: Ord inside a crate function, resolved by the run-time value (the searcher instantiates T = String)"""
    a = ctx.deref(args[0])
    if isinstance(a, Str):
        return m_str_cmp(ctx, args, callee.replace('<T as', '<std::string::String as'))
    raise Unmodelled('<T as Ord>::cmp on %r' % (type(a).__name__,))


@model(r'^<(&?)(std::string::String|str|&str) as PartialOrd(<.*>)?>::(lt|le|gt|ge)$', 'str_order')
def m_str_order(ctx, args, callee):
    """`a < b` ... on texts: byte-lexicographic (UTF-8 keeps the order of the code points, which is z3's str.<)"""
    a = as_str(ctx, args[0]); b = as_str(ctx, args[1])
    k = callee.rsplit('::', 1)[1]
    if a.s is not None and b.s is not None:
        x, y = a.s.encode(), b.s.encode()
        return BoolVal({'lt': x < y, 'le': x <= y, 'gt': x > y, 'ge': x >= y}[k])
    if isinstance(a, SpecialStr) or isinstance(b, SpecialStr) or a.tab is not None or b.tab is not None:
        r = m_str_cmp(ctx, args, '<std::string::String as Ord>::cmp')
        d = BitVecVal(r.d, 64) if isinstance(r.d, int) else r.d
        return {'lt': d == -1, 'le': d != 1, 'gt': d == 1, 'ge': d != -1}[k]
    ta, tb = a.z3term(), b.z3term()
    return {'lt': ta < tb, 'le': ta <= tb, 'gt': tb < ta, 'ge': tb <= ta}[k]


@model(r'^<(&?)(std::string::String|str|&str) as (Ord|PartialOrd)>::(cmp|partial_cmp)$', 'str_cmp')
def m_str_cmp(ctx, args, callee):
    """byte-lexicographic order of strings"""
    a = as_str(ctx, args[0]); b = as_str(ctx, args[1])
    def mk(lt, eq):
        r = EnumV(simplify(If(lt, BitVecVal(-1, 64), If(eq, BitVecVal(0, 64), BitVecVal(1, 64)))), {}, 'Ordering')
        return some(r) if 'partial_cmp' in callee else r
    if a.s is not None and b.s is not None:
        x, y = a.s.encode(), b.s.encode()
        r = EnumV(-1 if x < y else (0 if x == y else 1), {}, 'Ordering')
        return some(r) if 'partial_cmp' in callee else r
    if hasattr(a, 'bv') and hasattr(b, 'bv') and not (a.signed or b.signed or a.pre or a.suf or b.pre or b.suf):
        # decimal renderings of two unsigned values: pad both to 20 digits on the right, then the shorter one first
        def digits(x):
            w = x.size(); d = BitVecVal(1, 8)
            for k in range(1, 20):
                if 10 ** k < (1 << w):
                    d = If(z3.UGE(x, BitVecVal(10 ** k, w)), BitVecVal(k + 1, 8), d)
            return d

        def scaled(x, nd):
            w = x.size(); x128 = z3.ZeroExt(128 - w, x); r = x128
            for k in range(1, 20):
                r = If(nd == k, x128 * BitVecVal(10 ** (20 - k), 128), r)
            return r
        da, db = digits(a.bv), digits(b.bv)
        sa, sb = scaled(a.bv, da), scaled(b.bv, db)
        return mk(Or(ULT(sa, sb), And(sa == sb, ULT(da, db))), And(sa == sb, da == db))
    if isinstance(a, SpecialStr) or isinstance(b, SpecialStr):
        raise Unmodelled('string order of symbolic numerals')
    if (a.tab is not None or a.s is not None) and (b.tab is not None or b.s is not None):
        ta = a.tab if a.tab is not None else {None: a.s}
        tb = b.tab if b.tab is not None else {None: b.s}
        def c(v, i):
            return BoolVal(True) if i is None else v.var == i
        lt = Or([And(c(a, i), c(b, j)) for i, x in ta.items() for j, y in tb.items() if x.encode() < y.encode()] or [BoolVal(False)])
        eq = Or([And(c(a, i), c(b, j)) for i, x in ta.items() for j, y in tb.items() if x == y] or [BoolVal(False)])
        return mk(lt, eq)
    raise Unmodelled('string order of %r / %r' % (a, b))


@model(r'^(core::)?str::<impl str>::starts_with$')
def m_starts_with(ctx, args, callee):
    _s0 = as_str(ctx, args[0])
    if isinstance(_s0, SpecialStr):
        return _s0.sop(ctx, 'starts_with', args, callee)
    s = as_str(ctx, args[0]); p = ctx.deref(args[1])
    if is_bv(p):
        pc = conc(p)
        if pc is None:
            raise Unmodelled('starts_with(symbolic char)')
        p = Str(chr(pc))
    if isinstance(p, (FnItem, Closure)):
        # a predicate on the first character
        if s.s is None:
            raise Unmodelled('starts_with(predicate) on a symbolic string')
        if not s.s:
            return BoolVal(False)
        return ctx.call_closure(p, [BitVecVal(ord(s.s[0]), 32)]) if isinstance(p, Closure) else ctx.call(p.text, [BitVecVal(ord(s.s[0]), 32)])
    p = as_str(ctx, p)
    if s.term is not None or p.term is not None:
        return z3.PrefixOf(p.z3term(), s.z3term())
    return lift_bool(ctx, lambda a, b: a.startswith(b), s, p)


@model(r'^(core::)?str::<impl str>::ends_with$')
def m_ends_with(ctx, args, callee):
    _s0 = as_str(ctx, args[0])
    if isinstance(_s0, SpecialStr):
        return _s0.sop(ctx, 'ends_with', args, callee)
    s = as_str(ctx, args[0]); p = ctx.deref(args[1])
    if is_bv(p):
        p = Str(chr(conc(p)))
    p = as_str(ctx, p)
    if s.term is not None or p.term is not None:
        return z3.SuffixOf(p.z3term(), s.z3term())
    return lift_bool(ctx, lambda a, b: a.endswith(b), s, p)


@model(r'^(core::)?str::<impl str>::contains$')
def m_contains(ctx, args, callee):
    _s0 = as_str(ctx, args[0])
    if isinstance(_s0, SpecialStr):
        return _s0.sop(ctx, 'contains', args, callee)
    s = as_str(ctx, args[0]); p = ctx.deref(args[1])
    if is_bv(p):
        pc = conc(p)
        if pc is None:
            raise Unmodelled('contains(symbolic char)')
        p = Str(chr(pc))
    if isinstance(p, (FnItem, Closure)):
        raise Unmodelled('contains(closure)')
    if isinstance(p, (Agg, Seq)):
        # a char array / slice pattern: any of the characters
        chars = p.f if isinstance(p, Agg) else [c.v for c in p.items]
        outs = []
        for ch in chars:
            cc = conc(ch)
            if cc is None:
                raise Unmodelled('contains([symbolic char])')
            t = Str(chr(cc))
            if s.term is not None:
                outs.append(z3.Contains(s.z3term(), t.z3term()))
            else:
                outs.append(lift_bool(ctx, lambda a, b: b in a, s, t))
        return Or(outs) if outs else BoolVal(False)
    p = as_str(ctx, p)
    if s.term is not None or p.term is not None:
        return z3.Contains(s.z3term(), p.z3term())
    return lift_bool(ctx, lambda a, b: b in a, s, p)


@model(r'^(core::)?(char::methods::)?<impl char>::(is_ascii_digit|is_ascii_alphabetic|is_ascii_alphanumeric|is_ascii_whitespace|is_ascii_uppercase|is_ascii_lowercase|is_ascii_punctuation)$|^char::(is_ascii_digit|is_ascii_alphabetic|is_ascii_alphanumeric|is_ascii_whitespace)$')
def m_char_ascii_class(ctx, args, callee):
    c = ctx.deref(args[0])
    k = re.search(r'is_ascii_(\w+)', callee).group(1)
    rng = {'digit': [(48, 57)], 'alphabetic': [(65, 90), (97, 122)], 'alphanumeric': [(48, 57), (65, 90), (97, 122)], 'uppercase': [(65, 90)], 'lowercase': [(97, 122)],
           'whitespace': [(9, 10), (12, 13), (32, 32)], 'punctuation': [(33, 47), (58, 64), (91, 96), (123, 126)]}[k]
    return simplify(Or([And(z3.UGE(c, BitVecVal(lo, c.size())), z3.ULE(c, BitVecVal(hi, c.size()))) for lo, hi in rng]))


@model(r'^(core::)?str::<impl str>::(find|rfind)$')
def m_str_find(ctx, args, callee):
    """str::find / rfind with a char or &str pattern on a concrete subject: Option<byte offset>"""
    s = as_str(ctx, args[0]); p = ctx.deref(args[1])
    if isinstance(s, SpecialStr) or s.s is None:
        raise Unmodelled('find on a symbolic string')
    if is_bv(p):
        pc = conc(p)
        if pc is None:
            raise Unmodelled('find(symbolic char)')
        p = Str(chr(pc))
    if isinstance(p, (FnItem, Closure, Agg, Seq)):
        raise Unmodelled('find(closure / char set)')
    p = as_str(ctx, p)
    if p.s is None:
        raise Unmodelled('find(symbolic pattern)')
    b = s.s.encode('utf-8'); q = p.s.encode('utf-8')
    i = b.rfind(q) if re.search(r'::rfind(::<.*>)?\s*$', callee, re.S) else b.find(q)
    return none() if i < 0 else some(BitVecVal(i, 64))


@model(r'^(core::)?str::<impl str>::to_lowercase$|^(core::)?str::<impl str>::to_ascii_lowercase$')
def m_to_lower(ctx, args, callee):
    _s0 = as_str(ctx, args[0])
    if isinstance(_s0, SpecialStr):
        return _s0.sop(ctx, 'to_lower', args, callee)
    s = as_str(ctx, args[0])
    if s.term is not None:
        raise Unmodelled('to_lowercase on z3 string')
    if 'ascii' in callee:
        return lift_str(ctx, lambda a: ''.join(c.lower() if c.isascii() else c for c in a), s)
    return lift_str(ctx, lambda a: a.lower(), s)


@model(r'^(core::)?str::<impl str>::to_uppercase$|^(core::)?str::<impl str>::to_ascii_uppercase$')
def m_to_upper(ctx, args, callee):
    _s0 = as_str(ctx, args[0])
    if isinstance(_s0, SpecialStr):
        return _s0.sop(ctx, 'to_upper', args, callee)
    s = as_str(ctx, args[0])
    if s.term is not None:
        raise Unmodelled('to_uppercase on z3 string')
    if 'ascii' in callee:
        return lift_str(ctx, lambda a: ''.join(c.upper() if c.isascii() else c for c in a), s)
    return lift_str(ctx, lambda a: a.upper(), s)


def _rust_trim_chars():
    return None


@model(r'^(core::)?str::<impl str>::trim$')
def m_trim(ctx, args, callee):
    _s0 = as_str(ctx, args[0])
    if isinstance(_s0, SpecialStr):
        return _s0.sop(ctx, 'trim', args, callee)
    return lift_str(ctx, lambda a: a.strip(), as_str(ctx, args[0]))


@model(r'^(core::)?str::<impl str>::trim_start$')
def m_trim_start(ctx, args, callee):
    _s0 = as_str(ctx, args[0])
    if isinstance(_s0, SpecialStr):
        return _s0.sop(ctx, 'trim_start', args, callee)
    return lift_str(ctx, lambda a: a.lstrip(), as_str(ctx, args[0]))


@model(r'^(core::)?str::<impl str>::trim_end$')
def m_trim_end(ctx, args, callee):
    _s0 = as_str(ctx, args[0])
    if isinstance(_s0, SpecialStr):
        return _s0.sop(ctx, 'trim_end', args, callee)
    return lift_str(ctx, lambda a: a.rstrip(), as_str(ctx, args[0]))


@model(r'^(core::)?str::<impl str>::replace$')
def m_replace(ctx, args, callee):
    _s0 = as_str(ctx, args[0])
    if isinstance(_s0, SpecialStr):
        return _s0.sop(ctx, 'replace', args, callee)
    pat = ctx.deref(args[1])
    if is_bv(pat):
        pc = conc(pat)
        if pc is None:
            raise Unmodelled('replace(symbolic char)')
        pat = Str(chr(pc))
    return lift_str(ctx, lambda a, b, c: a.replace(b, c), as_str(ctx, args[0]), as_str(ctx, pat), as_str(ctx, args[2]))


@model(r'^<(std::string::String|str) as (std::ops::)?Index<(std::ops::)?Range(To|From|Full|Inclusive|ToInclusive)?<usize>>>::index$|^<(std::string::String|str) as (std::ops::)?Index<RangeFull>>::index$'
       r'|^(core::)?str::<impl str>::get$', 'str_slice')
def m_str_slice(ctx, args, callee):
    s_ = as_str(ctx, args[0])
    rng = args[1]
    kind = re.search(r'Index<(?:std::ops::)?(\w+)', callee)
    kind = kind.group(1) if kind else 'Range'
    if isinstance(s_, SpecialStr):
        return s_.sop(ctx, 'slice', args, callee, kind)
    if kind == 'RangeFull':
        return s_
    f = rng.f
    def cv(x, hi):
        c = conc(x)
        if c is None:
            c = ctx.concretize(x, range(0, hi + 1))
        return c
    if s_.s is None:
        raise Unmodelled('slice of symbolic string')
    b = s_.s.encode('utf-8'); n = len(b)
    if kind == 'RangeTo':
        lo, hi = 0, cv(f[0], n + 1)
    elif kind == 'RangeFrom':
        lo, hi = cv(f[0], n + 1), n
    elif kind == 'Range':
        lo, hi = cv(f[0], n + 1), cv(f[1], n + 1)
    elif kind == 'RangeToInclusive':
        lo, hi = 0, cv(f[0], n + 1) + 1
    else:
        raise Unmodelled('slice kind ' + kind)
    okb = lo <= hi <= n
    if okb:
        try:
            b[:lo].decode('utf-8'); b[lo:hi].decode('utf-8')
        except UnicodeDecodeError:
            okb = False
    if callee.endswith('::get'):
        return some(Str(b[lo:hi].decode('utf-8'))) if okb else none()
    ctx.obligation(BoolVal(okb), 'byte index out of range / not a char boundary in str slice')
    return Str(b[lo:hi].decode('utf-8'))


def _parse_int_py(txt, signed, w):
    """Rust's str::parse::<iN/uN>: optional '+' (and '-' for signed), decimal digits, in range"""
    m = re.fullmatch(r'([+-]?)([0-9]+)', txt)
    if not m:
        return None
    if m.group(1) == '-' and not signed:
        return None
    v = int(m.group(2))
    if m.group(1) == '-':
        v = -v
    lo, hi = (-(1 << (w - 1)), (1 << (w - 1)) - 1) if signed else (0, (1 << w) - 1)
    if v < lo or v > hi:
        return None
    return v


@model(r'^(core::)?str::<impl str>::parse$', 'str_parse')
def parse_dispatch(ctx, args, callee):
    m = re.search(r'parse::<([\w:]+)>', callee)
    if not m:
        raise Unmodelled('parse without turbofish: ' + callee)
    ty = m.group(1).split('::')[-1]
    s = as_str(ctx, args[0])
    if hasattr(s, 'parse_hook'):
        return s.parse_hook(ctx, ty)
    if ty in INT_W and ty != 'char':
        w = INT_W[ty]; sg = ty in SIGNED
        if s.term is not None:
            raise Unmodelled('parse::<int> on z3 string')
        okc = lift_bool(ctx, lambda a: _parse_int_py(a, sg, w) is not None, s)
        val = lift_int(ctx, lambda a: (_parse_int_py(a, sg, w) or 0), w, s)
        c = conc(okc)
        if c is True:
            return ok(val)
        if c is False:
            return err(UNIT)
        return EnumV(If(okc, BitVecVal(0, 64), BitVecVal(1, 64)), {0: [val], 1: [UNIT]}, 'Result')
    if ty == 'f64':
        if s.term is not None:
            raise Unmodelled('parse::<f64> on z3 string')
        def pf(a):
            try:
                if not re.fullmatch(r'[+-]?([0-9]+\.?[0-9]*([eE][+-]?[0-9]+)?|\.[0-9]+([eE][+-]?[0-9]+)?|inf|infinity|nan)', a, re.I):
                    return None
                return float(a)
            except ValueError:
                return None
        okc = lift_bool(ctx, lambda a: pf(a) is not None, s)
        val = lift_val(ctx, lambda a: (pf(a) if pf(a) is not None else 0.0), [s], lambda x: z3.FPVal(x, z3.Float64()), 0.0)
        c = conc(okc)
        if c is True:
            return ok(val)
        if c is False:
            return err(UNIT)
        return EnumV(If(okc, BitVecVal(0, 64), BitVecVal(1, 64)), {0: [val], 1: [UNIT]}, 'Result')
    if ty == 'bool':
        okc = lift_bool(ctx, lambda a: a in ('true', 'false'), s)
        val = lift_bool(ctx, lambda a: a == 'true', s)
        c = conc(okc)
        if c is True:
            return ok(val)
        if c is False:
            return err(UNIT)
        return EnumV(If(okc, BitVecVal(0, 64), BitVecVal(1, 64)), {0: [val], 1: [UNIT]}, 'Result')
    raise Unmodelled('parse::<%s>' % ty)


# =========================================================================== Option / Result
def _discr_is(ev, idx):
    d = ev.d
    if isinstance(d, int):
        return BoolVal(d == idx)
    return d == BitVecVal(idx, 64)


def _payload(ev, idx, n=0):
    return ev.p[idx][n]


def fork_variant(ctx, ev, nvariants=2):
    """make the discriminant concrete on this path"""
    d = ev.d
    if isinstance(d, int):
        return d
    c = conc(d)
    if c is not None:
        return c
    lab = ctx.branch([(i, d == BitVecVal(i, 64)) for i in range(nvariants)])
    return lab


@model(r'^(std::option::)?Option::unwrap$|^(std::option::)?Option::expect$')
def m_opt_unwrap(ctx, args, callee):
    ev = args[0]
    ctx.obligation(_discr_is(ev, 1), 'called `Option::unwrap()` on a `None` value')
    return _payload(ev, 1)


@model(r'^(std::result::)?Result::unwrap$|^(std::result::)?Result::expect$')
def m_res_unwrap(ctx, args, callee):
    ev = args[0]
    ctx.obligation(_discr_is(ev, 0), 'called `Result::unwrap()` on an `Err` value')
    return _payload(ev, 0)


@model(r'^(std::result::)?Result::unwrap_err$')
def m_res_unwrap_err(ctx, args, callee):
    ev = args[0]
    ctx.obligation(_discr_is(ev, 1), 'called `Result::unwrap_err()` on an `Ok` value')
    return _payload(ev, 1)


@model(r'^(std::option::)?Option::unwrap_or$')
def m_opt_unwrap_or(ctx, args, callee):
    ev = args[0]
    d = fork_variant(ctx, ev)
    return _payload(ev, 1) if d == 1 else args[1]


@model(r'^(std::result::)?Result::unwrap_or$')
def m_res_unwrap_or(ctx, args, callee):
    ev = args[0]
    d = fork_variant(ctx, ev)
    return _payload(ev, 0) if d == 0 else args[1]


@model(r'^(std::option::)?Option::unwrap_or_default$|^(std::result::)?Result::unwrap_or_default$')
def m_unwrap_or_default(ctx, args, callee):
    ev = args[0]
    d = fork_variant(ctx, ev)
    good = 1 if 'Option' in callee else 0
    if d == good:
        return _payload(ev, good)
    return default_for_callee(ctx, callee)


def default_for_callee(ctx, callee):
    m = re.search(r'::<(.*)>::unwrap_or_default', callee, re.S)
    ty = m.group(1) if m else ''
    ty = ty.split(',')[0].strip()
    return default_value(ctx, ty)


def default_value(ctx, ty):
    ty = ty.strip()
    if ty in INT_W:
        return BitVecVal(0, INT_W[ty])
    if ty == 'bool':
        return BoolVal(False)
    if ty in ('std::string::String', 'String'):
        return Str('')
    if ty.startswith(('Vec<', 'std::vec::Vec<')):
        return Seq([])
    if ty == 'f64':
        return z3.FPVal(0.0, z3.Float64())
    raise Unmodelled('Default for ' + ty)


@model(r'^(std::option::)?Option::unwrap_or_else$')
def m_opt_unwrap_or_else(ctx, args, callee):
    ev = args[0]
    d = fork_variant(ctx, ev)
    return _payload(ev, 1) if d == 1 else ctx.call_closure(args[1], [])


@model(r'^(std::result::)?Result::unwrap_or_else$')
def m_res_unwrap_or_else(ctx, args, callee):
    ev = args[0]
    d = fork_variant(ctx, ev)
    return _payload(ev, 0) if d == 0 else ctx.call_closure(args[1], [_payload(ev, 1)])


@model(r'^(std::option::)?Option::is_some$')
def m_is_some(ctx, args, callee):
    return _discr_is(ctx.deref(args[0]), 1)


@model(r'^(std::option::)?Option::is_none$')
def m_is_none(ctx, args, callee):
    return _discr_is(ctx.deref(args[0]), 0)


@model(r'^(std::result::)?Result::is_ok$')
def m_is_ok(ctx, args, callee):
    return _discr_is(ctx.deref(args[0]), 0)


@model(r'^(std::result::)?Result::is_err$')
def m_is_err(ctx, args, callee):
    return _discr_is(ctx.deref(args[0]), 1)


@model(r'^(std::option::)?Option::as_ref$|^(std::option::)?Option::as_mut$|^(std::option::)?Option::as_deref$')
def m_opt_as_ref(ctx, args, callee):
    r = args[0]
    ev = ctx.deref(r)
    d = fork_variant(ctx, ev)
    if d == 0:
        return none()
    if isinstance(r, Ref):
        inner = Ref(r.cell, tuple(r.path) + (('downcast', 1), ('field', 0)))
    else:
        inner = Ref(Cell(ev), (('downcast', 1), ('field', 0)))
    if callee.endswith('as_deref'):
        v = ctx.deref(inner)
        if isinstance(v, Str):
            return some(v)
    return some(inner)


@model(r'^(std::result::)?Result::as_ref$')
def m_res_as_ref(ctx, args, callee):
    r = args[0]
    ev = ctx.deref(r)
    d = fork_variant(ctx, ev)
    inner = Ref(r.cell, tuple(r.path) + (('downcast', d), ('field', 0)))
    return EnumV(d, {d: [inner]}, 'Result')


@model(r'^(std::option::)?Option::cloned$|^(std::option::)?Option::copied$')
def m_opt_cloned(ctx, args, callee):
    ev = args[0]
    d = fork_variant(ctx, ev)
    if d == 0:
        return none()
    return some(deep_clone(ctx, ctx.deref(_payload(ev, 1))))


@model(r'^(std::option::)?Option::take$')
def m_opt_take(ctx, args, callee):
    ev = ctx.deref(args[0])
    ctx.store(args[0], none())
    return ev


@model(r'^(std::option::)?Option::replace$')
def m_opt_replace(ctx, args, callee):
    ev = ctx.deref(args[0])
    ctx.store(args[0], some(args[1]))
    return ev


@model(r'^(std::option::)?Option::map$')
def m_opt_map(ctx, args, callee):
    ev = args[0]
    d = fork_variant(ctx, ev)
    if d == 0:
        return none()
    return some(ctx.call_closure(args[1], [_payload(ev, 1)]))


@model(r'^(std::option::)?Option::and_then$')
def m_opt_and_then(ctx, args, callee):
    ev = args[0]
    d = fork_variant(ctx, ev)
    if d == 0:
        return none()
    return ctx.call_closure(args[1], [_payload(ev, 1)])


@model(r'^(std::option::)?Option::map_or$')
def m_opt_map_or(ctx, args, callee):
    ev = args[0]
    d = fork_variant(ctx, ev)
    if d == 0:
        return args[1]
    return ctx.call_closure(args[2], [_payload(ev, 1)])


@model(r'^(std::result::)?Result::map_or$')
def m_res_map_or(ctx, args, callee):
    ev = args[0]
    d = fork_variant(ctx, ev)
    if d == 1:
        return args[1]
    return ctx.call_closure(args[2], [_payload(ev, 0)])


@model(r'^(std::result::)?Result::map_or_else$')
def m_res_map_or_else(ctx, args, callee):
    ev = args[0]
    d = fork_variant(ctx, ev)
    if d == 1:
        return ctx.call_closure(args[1], [_payload(ev, 1)])
    return ctx.call_closure(args[2], [_payload(ev, 0)])


@model(r'^(std::option::)?Option::map_or_else$')
def m_opt_map_or_else(ctx, args, callee):
    ev = args[0]
    d = fork_variant(ctx, ev)
    if d == 0:
        return ctx.call_closure(args[1], [])
    return ctx.call_closure(args[2], [_payload(ev, 1)])


@model(r'^(std::option::)?Option::ok_or$')
def m_opt_ok_or(ctx, args, callee):
    ev = args[0]
    d = fork_variant(ctx, ev)
    return ok(_payload(ev, 1)) if d == 1 else err(args[1])


@model(r'^(std::option::)?Option::ok_or_else$')
def m_opt_ok_or_else(ctx, args, callee):
    ev = args[0]
    d = fork_variant(ctx, ev)
    return ok(_payload(ev, 1)) if d == 1 else err(ctx.call_closure(args[1], []))


@model(r'^(std::option::)?Option::or$')
def m_opt_or(ctx, args, callee):
    ev = args[0]
    d = fork_variant(ctx, ev)
    return ev if d == 1 else args[1]


@model(r'^(std::option::)?Option::filter$')
def m_opt_filter(ctx, args, callee):
    ev = args[0]
    d = fork_variant(ctx, ev)
    if d == 0:
        return none()
    keep = ctx.call_closure(args[1], [Ref(Cell(_payload(ev, 1)))])
    return ev if ctx.decide(keep) else none()


@model(r'^(std::result::)?Result::ok$')
def m_res_ok(ctx, args, callee):
    ev = args[0]
    d = fork_variant(ctx, ev)
    return some(_payload(ev, 0)) if d == 0 else none()


@model(r'^(std::result::)?Result::err$')
def m_res_err(ctx, args, callee):
    ev = args[0]
    d = fork_variant(ctx, ev)
    return some(_payload(ev, 1)) if d == 1 else none()


@model(r'^(std::result::)?Result::map$')
def m_res_map(ctx, args, callee):
    ev = args[0]
    d = fork_variant(ctx, ev)
    if d == 1:
        return ev
    return ok(ctx.call_closure(args[1], [_payload(ev, 0)]))


@model(r'^(std::result::)?Result::map_err$')
def m_res_map_err(ctx, args, callee):
    ev = args[0]
    d = fork_variant(ctx, ev)
    if d == 0:
        return ev
    return err(ctx.call_closure(args[1], [_payload(ev, 1)]))


@model(r'^(std::result::)?Result::and_then$')
def m_res_and_then(ctx, args, callee):
    ev = args[0]
    d = fork_variant(ctx, ev)
    if d == 1:
        return ev
    return ctx.call_closure(args[1], [_payload(ev, 0)])


@model(r'^<(std::result::)?Result<.*> as Try>::branch$')
def m_res_branch(ctx, args, callee):
    ev = args[0]
    d = fork_variant(ctx, ev)
    if d == 0:
        return EnumV(0, {0: [_payload(ev, 0)]}, 'ControlFlow')
    return EnumV(1, {1: [EnumV(1, {1: [_payload(ev, 1)]}, 'Result')]}, 'ControlFlow')


@model(r'^<(std::option::)?Option<.*> as Try>::branch$')
def m_opt_branch(ctx, args, callee):
    ev = args[0]
    d = fork_variant(ctx, ev)
    if d == 1:
        return EnumV(0, {0: [_payload(ev, 1)]}, 'ControlFlow')
    return EnumV(1, {1: [none()]}, 'ControlFlow')


@model(r'^<(std::result::)?Result<.*> as FromResidual<.*>>::from_residual$')
def m_res_from_residual(ctx, args, callee):
    ev = args[0]
    e = _payload(ev, 1)
    return err(e)


@model(r'^<(std::option::)?Option<.*> as FromResidual<.*>>::from_residual$')
def m_opt_from_residual(ctx, args, callee):
    return none()


@model(r'^<(std::option::)?Option<.*> as PartialEq>::(eq|ne)$')
def m_opt_eq(ctx, args, callee):
    a = ctx.deref(args[0]); b = ctx.deref(args[1])
    r = generic_eq(ctx, a, b)
    return Not(r) if callee.endswith('::ne') else r


@model(r'^<(std::option::)?Option<.*> as Clone>::clone$|^<(std::result::)?Result<.*> as Clone>::clone$')
def m_opt_clone(ctx, args, callee):
    return deep_clone(ctx, ctx.deref(args[0]))


def generic_eq(ctx, a, b):
    """structural equality of two model values -> z3 Bool"""
    a = ctx.deref(a); b = ctx.deref(b)
    if isinstance(a, Str) and isinstance(b, Str):
        return str_eq(ctx, a, b)
    if isinstance(a, EnumV) and isinstance(b, EnumV):
        da = BitVecVal(a.d, 64) if isinstance(a.d, int) else a.d
        db = BitVecVal(b.d, 64) if isinstance(b.d, int) else b.d
        parts = []
        for i in set(a.p) | set(b.p):
            pa = a.p.get(i); pb = b.p.get(i)
            if pa is None or pb is None or not pa:
                continue
            parts.append(Or(da != BitVecVal(i, 64), And([generic_eq(ctx, x, y) for x, y in zip(pa, pb)])))
        return And([da == db] + parts)
    if isinstance(a, Agg) and isinstance(b, Agg):
        if len(a.f) != len(b.f):
            return BoolVal(False)
        return And([generic_eq(ctx, x, y) for x, y in zip(a.f, b.f)] or [BoolVal(True)])
    if isinstance(a, Seq) and isinstance(b, Seq):
        if len(a.items) != len(b.items):
            return BoolVal(False)
        return And([generic_eq(ctx, x.v, y.v) for x, y in zip(a.items, b.items)] or [BoolVal(True)])
    if a is UNIT and b is UNIT:
        return BoolVal(True)
    if isinstance(a, (RcV, BoxV)) and isinstance(b, (RcV, BoxV)):
        return generic_eq(ctx, a.cell.v, b.cell.v)
    if isinstance(a, z3.ExprRef) and isinstance(b, z3.ExprRef):
        if is_fp(a):
            return z3.fpEQ(a, b)
        return a == b
    if hasattr(a, 'eq_model'):
        return a.eq_model(ctx, b)
    raise Unmodelled('eq of %r and %r' % (type(a).__name__, type(b).__name__))


def deep_clone(ctx, v):
    if isinstance(v, Agg):
        return Agg([deep_clone(ctx, x) for x in v.f], v.ty)
    if isinstance(v, EnumV):
        return EnumV(v.d, {k: [deep_clone(ctx, x) for x in p] for k, p in v.p.items()}, v.ty)
    if isinstance(v, Seq):
        return Seq([deep_clone(ctx, c.v) for c in v.items], v.kind)
    if isinstance(v, Map):
        m = Map(v.kind)
        for k, c in v.d.items():
            m.d[k] = Cell(deep_clone(ctx, c.v))
        m.keys = dict(v.keys)
        m.sym = [(k, Cell(deep_clone(ctx, c.v))) for k, c in v.sym]
        return m
    if isinstance(v, BoxV):
        return BoxV(deep_clone(ctx, v.cell.v))
    if isinstance(v, RcV):
        return v
    if hasattr(v, 'clone_model'):
        return v.clone_model(ctx)
    return v


@model(r'^<.* as Clone>::clone$|^<.* as ToOwned>::to_owned$', 'generic_clone')
def m_clone(ctx, args, callee):
    return deep_clone(ctx, ctx.deref(args[0]))


@model(r'^<.* as PartialEq(<.*>)?>::ne$', 'ne_via_eq')
def m_ne_via_eq(ctx, args, callee):
    """PartialEq::ne default method: !eq"""
    r = ctx.call(callee[:-2] + 'eq', args)
    return Not(r)


# =========================================================================== Box / Rc
class RcV:
    __slots__ = ('cell',)

    def __init__(self, v):
        self.cell = Cell(v)


@model(r'^<Box<.*> as (std::default::)?Default>::default$')
def m_box_default(ctx, args, callee):
    m = re.match(r'^<Box<(.*)> as (?:std::default::)?Default>::default$', callee.strip(), re.S)
    inner = '<%s as Default>::default' % m.group(1)
    return BoxV(ctx.call(inner, []))


@model(r'^Box::new$|^<Box<.*> as From<.*>>::from$')
def m_box_new(ctx, args, callee):
    return BoxV(args[0])


@model(r'^<Box<.*> as Deref>::deref$|^<Box<.*> as DerefMut>::deref_mut$|^<Box<.*> as AsRef<.*>>::as_ref$')
def m_box_deref(ctx, args, callee):
    b = ctx.deref_once(args[0]) if hasattr(ctx, 'deref_once') else None
    r = args[0]
    bx = r
    while isinstance(bx, Ref):
        bx = ctx.project(bx.cell.v, bx.path)
    if isinstance(bx, BoxV):
        return Ref(bx.cell)
    raise Unmodelled('Box deref of %r' % (type(bx).__name__,))


@model(r'^Box::new_uninit$')
def m_box_new_uninit(ctx, args, callee):
    """Box<MaybeUninit<T>>: layout MaybeUninit { uninit: (), value: ManuallyDrop(MaybeDangling(T)) } as this nightly prints it"""
    return BoxV(Agg([UNIT, Agg([Agg([UNINIT])])], 'MaybeUninit'))


@model(r'^std::boxed::box_assume_init_into_vec_unsafe$|^alloc::boxed::box_assume_init_into_vec_unsafe$')
def m_box_into_vec(ctx, args, callee):
    b = args[0]
    v = b.cell.v
    if isinstance(v, Agg) and v.ty == 'MaybeUninit':
        v = v.f[1].f[0].f[0]
    if isinstance(v, Agg):
        return Seq(list(v.f))
    raise Unmodelled('box_assume_init_into_vec_unsafe of %r' % (type(v).__name__,))


@model(r'^Rc::new$|^Arc::new$')
def m_rc_new(ctx, args, callee):
    return RcV(args[0])


@model(r'^<Rc<.*> as Deref>::deref$|^<Arc<.*> as Deref>::deref$|^<Rc<.*> as AsRef<.*>>::as_ref$')
def m_rc_deref(ctx, args, callee):
    rc = args[0]
    while isinstance(rc, Ref):
        rc = ctx.project(rc.cell.v, rc.path)
    if isinstance(rc, RcV):
        return Ref(rc.cell)
    raise Unmodelled('Rc deref of %r' % (type(rc).__name__,))


@model(r'^<Rc<.*> as Clone>::clone$|^<Arc<.*> as Clone>::clone$')
def m_rc_clone(ctx, args, callee):
    rc = args[0]
    while isinstance(rc, Ref):
        rc = ctx.project(rc.cell.v, rc.path)
    return rc


# =========================================================================== sequences
class Seq:
    """Vec / slice / VecDeque / array-backed sequence with a concrete number of element cells"""
    __slots__ = ('items', 'kind')

    def __init__(self, values=(), kind='Vec'):
        self.items = [v if isinstance(v, Cell) else Cell(v) for v in values]
        self.kind = kind

    def length(self, ctx):
        return BitVecVal(len(self.items), 64)

    def index_read(self, ctx, idx):
        i = conc(idx)
        if i is None:
            n = len(self.items)
            inb = ULT(idx, BitVecVal(n, idx.size()))
            ctx.obligation(inb, 'index out of bounds: the len is %d' % n)
            i = ctx.concretize(idx, range(n))
        else:
            ctx.obligation(BoolVal(i < len(self.items)), 'index out of bounds: the len is %d but the index is %d' % (len(self.items), i))
        return self.items[i].v

    def __repr__(self):
        return 'Seq(%r)' % ([c.v for c in self.items],)


def as_seq(ctx, v):
    v0 = v
    v = ctx.deref(v)
    if isinstance(v, Seq):
        return v
    if isinstance(v, Agg):
        # arrays: expose as a Seq sharing nothing (arrays are only read through this view)
        return Seq(v.f, 'array')
    if isinstance(v, RcV):
        return as_seq(ctx, v.cell.v)
    raise Unmodelled('expected sequence, got %r' % (type(v).__name__,))


@model(r'^Vec::new$|^VecDeque::new$|^Vec::with_capacity$|^VecDeque::with_capacity$|^<Vec<.*> as Default>::default$')
def m_vec_new(ctx, args, callee):
    return Seq([], 'VecDeque' if 'VecDeque' in callee else 'Vec')


@model(r'^(std|alloc)::vec::from_elem$')
def m_vec_from_elem(ctx, args, callee):
    n = conc(args[1])
    if n is None:
        n = ctx.concretize(args[1], range(0, 9))
    return Seq([deep_clone(ctx, args[0]) for _ in range(n)])


@model(r'^Vec::push$|^VecDeque::push_back$')
def m_vec_push(ctx, args, callee):
    as_seq(ctx, args[0]).items.append(Cell(args[1]))
    return UNIT


@model(r'^VecDeque::push_front$')
def m_vec_push_front(ctx, args, callee):
    as_seq(ctx, args[0]).items.insert(0, Cell(args[1]))
    return UNIT


@model(r'^Vec::insert$')
def m_vec_insert(ctx, args, callee):
    s = as_seq(ctx, args[0])
    i = conc(args[1])
    if i is None:
        i = ctx.concretize(args[1], range(len(s.items) + 2))
    ctx.obligation(BoolVal(i <= len(s.items)), 'insertion index out of bounds')
    s.items.insert(i, Cell(args[2]))
    return UNIT


@model(r'^Vec::remove$')
def m_vec_remove(ctx, args, callee):
    s = as_seq(ctx, args[0])
    i = conc(args[1])
    if i is None:
        i = ctx.concretize(args[1], range(len(s.items) + 1))
    ctx.obligation(BoolVal(i < len(s.items)), 'removal index out of bounds')
    return s.items.pop(i).v


@model(r'^Vec::pop$|^VecDeque::pop_back$')
def m_vec_pop(ctx, args, callee):
    s = as_seq(ctx, args[0])
    if not s.items:
        return none()
    return some(s.items.pop().v)


@model(r'^VecDeque::pop_front$')
def m_vec_pop_front(ctx, args, callee):
    s = as_seq(ctx, args[0])
    if not s.items:
        return none()
    return some(s.items.pop(0).v)


@model(r'^Vec::len$|^VecDeque::len$|^(core|std)::slice::<impl \[.*\]>::len$')
def m_vec_len(ctx, args, callee):
    return as_seq(ctx, args[0]).length(ctx)


@model(r'^Vec::is_empty$|^VecDeque::is_empty$|^(core|std)::slice::<impl \[.*\]>::is_empty$')
def m_vec_is_empty(ctx, args, callee):
    return BoolVal(len(as_seq(ctx, args[0]).items) == 0)


@model(r'^Vec::clear$|^VecDeque::clear$')
def m_vec_clear(ctx, args, callee):
    as_seq(ctx, args[0]).items.clear()
    return UNIT


@model(r'^Vec::truncate$')
def m_vec_truncate(ctx, args, callee):
    s = as_seq(ctx, args[0])
    n = conc(args[1])
    if n is None:
        n = ctx.concretize(args[1], range(len(s.items) + 1))
    del s.items[n:]
    return UNIT


@model(r'^<Vec<.*> as Deref>::deref$|^<Vec<.*> as DerefMut>::deref_mut$|^Vec::as_slice$|^Vec::as_mut_slice$'
       r'|^<Vec<.*> as AsRef<.*>>::as_ref$|^<\[.*\] as AsRef<.*>>::as_ref$|^<Vec<.*> as Borrow<.*>>::borrow$')
def m_vec_deref(ctx, args, callee):
    return args[0]


@model(r'^<Vec<.*> as (std::ops::)?Index<usize>>::index$|^<\[.*\] as (std::ops::)?Index<usize>>::index$'
       r'|^<Vec<.*> as IndexMut<usize>>::index_mut$|^<VecDeque<.*> as (std::ops::)?Index<usize>>::index$')
def m_vec_index(ctx, args, callee):
    s = as_seq(ctx, args[0])
    idx = args[1]
    i = conc(idx)
    n = len(s.items)
    if i is None:
        ctx.obligation(ULT(idx, BitVecVal(n, idx.size())), 'index out of bounds: the len is %d' % n)
        i = ctx.concretize(idx, range(n))
    else:
        ctx.obligation(BoolVal(i < n), 'index out of bounds: the len is %d but the index is %d' % (n, i))
    return Ref(s.items[i])


@model(r'^<Vec<.*> as (std::ops::)?Index<(std::ops::)?Range(To|From|Full)?<usize>>>::index$|^<\[.*\] as (std::ops::)?Index<(std::ops::)?Range(To|From)?<usize>>>::index$')
def m_vec_index_range(ctx, args, callee):
    """v[a..b], v[..b], v[a..]: panics when the range reaches past the end (documented); the result is the sub-sequence (sharing cells)"""
    s = as_seq(ctx, args[0])
    n = len(s.items)
    rng = args[1]
    kind = re.search(r'Index<(?:std::ops::)?(Range(?:To|From|Full)?)<', callee).group(1)
    f = rng.f if isinstance(rng, Agg) else []
    lo, hi = BitVecVal(0, 64), BitVecVal(n, 64)
    if kind == 'Range':
        lo, hi = f[0], f[1]
    elif kind == 'RangeTo':
        hi = f[0]
    elif kind == 'RangeFrom':
        lo = f[0]
    ctx.obligation(ULE(hi, BitVecVal(n, 64)), 'range end index out of range for slice of length %d' % n)
    ctx.obligation(ULE(lo, hi), 'slice index starts after its end')
    a = ctx.concretize(lo, range(n + 1)); b = ctx.concretize(hi, range(n + 1))
    out = Seq([]); out.items = s.items[a:b]
    return Ref(Cell(out))


@model(r'^(core|std)::slice::<impl \[.*\]>::get$|^Vec::get$|^VecDeque::get$|^(core|std)::slice::<impl \[.*\]>::get_mut$')
def m_vec_get(ctx, args, callee):
    s = as_seq(ctx, args[0])
    idx = args[1]
    i = conc(idx)
    n = len(s.items)
    if i is None:
        inb = ULT(idx, BitVecVal(n, idx.size()))
        if not ctx.decide(inb):
            return none()
        i = ctx.concretize(idx, range(n))
    if i >= n:
        return none()
    return some(Ref(s.items[i]))


@model(r'^(core|std)::slice::<impl \[.*\]>::first$|^Vec::first$')
def m_vec_first(ctx, args, callee):
    s = as_seq(ctx, args[0])
    return some(Ref(s.items[0])) if s.items else none()


@model(r'^(core|std)::slice::<impl \[.*\]>::last$|^Vec::last$|^VecDeque::back$')
def m_vec_last(ctx, args, callee):
    s = as_seq(ctx, args[0])
    return some(Ref(s.items[-1])) if s.items else none()


@model(r'^(core|std)::slice::<impl \[.*\]>::last_mut$')
def m_vec_last_mut(ctx, args, callee):
    s = as_seq(ctx, args[0])
    return some(Ref(s.items[-1])) if s.items else none()


@model(r'^(core|std)::slice::<impl \[.*\]>::contains$|^Vec::contains$')
def m_vec_contains(ctx, args, callee):
    s = as_seq(ctx, args[0])
    x = ctx.deref(args[1])
    return Or([generic_eq(ctx, c.v, x) for c in s.items] or [BoolVal(False)])


@model(r'^(std|core)::slice::<impl \[.*\]>::join$|^(std|core|alloc)::slice::<impl \[.*\]>::concat$')
def m_join(ctx, args, callee):
    s = as_seq(ctx, args[0])
    sep = as_str(ctx, args[1]) if len(args) > 1 else Str('')
    out = Str('')
    for i, c in enumerate(s.items):
        if i:
            out = str_concat(ctx, out, sep)
        out = str_concat(ctx, out, as_str(ctx, c.v))
    return out


@model(r'^(std|core|alloc)::slice::<impl \[.*\]>::to_vec$|^<\[.*\] as ToOwned>::to_owned$')
def m_to_vec(ctx, args, callee):
    s = as_seq(ctx, args[0])
    return Seq([deep_clone(ctx, c.v) for c in s.items])


@model(r'^(std|core|alloc)::slice::<impl \[.*\]>::into_vec$|^<Vec<.*> as From<.*>>::from$')
def m_into_vec(ctx, args, callee):
    v = args[0]
    if isinstance(v, BoxV):
        v = v.cell.v
    v = ctx.deref(v)
    if isinstance(v, Agg):
        return Seq(list(v.f))
    if isinstance(v, Seq):
        return Seq([c.v for c in v.items])
    raise Unmodelled('into_vec of %r' % (type(v).__name__,))


@model(r'^Vec::extend_from_slice$|^<Vec<.*> as Extend<.*>>::extend$|^Vec::append$')
def m_vec_extend(ctx, args, callee):
    s = as_seq(ctx, args[0])
    src = args[1]
    piece = ctx.deref(src) if isinstance(src, Ref) else src
    if isinstance(piece, Str):
        # bytes of a text appended to a Vec<u8>: the Vec is a byte rope whose elements are whole texts
        s.items.append(Cell(piece))
        return UNIT
    it = to_iter(ctx, src)
    while True:
        x = it.next(ctx)
        if x is None:
            break
        s.items.append(Cell(deep_clone(ctx, ctx.deref(x)) if 'extend_from_slice' in callee else x))
    return UNIT


@model(r'^(std::string::)?String::from_utf8_lossy$')
def m_from_utf8_lossy(ctx, args, callee):
    """String::from_utf8_lossy over a byte rope (a Vec<u8> whose elements are whole texts): the texts joined"""
    v = ctx.deref(args[0])
    if isinstance(v, Str):
        return EnumV(0, {0: [v]}, 'Cow')
    if isinstance(v, Seq) and all(isinstance(c.v, Str) for c in v.items):
        from .models_fmt import concat_any
        acc = Str('')
        for c in v.items:
            acc = concat_any(ctx, acc, c.v)
        return EnumV(1, {1: [acc]}, 'Cow')
    raise Unmodelled('from_utf8_lossy of raw bytes')


@model(r'^(std|core|alloc)::slice::<impl \[.*\]>::reverse$')
def m_reverse(ctx, args, callee):
    s = as_seq(ctx, args[0])
    vals = [c.v for c in s.items][::-1]
    for c, v in zip(s.items, vals):
        c.v = v
    return UNIT


@model(r'^(std|core|alloc)::slice::<impl \[.*\]>::sort_by$|^(std|core|alloc)::slice::<impl \[.*\]>::sort_unstable_by$')
def m_sort_by(ctx, args, callee):
    """stable insertion sort driven by the real comparator closure (forks where its verdict is symbolic)"""
    s_ = as_seq(ctx, args[0])
    cells = s_.items
    n = len(cells)
    for i in range(1, n):
        j = i
        while j > 0:
            r = ctx.call_closure(args[1], [Ref(cells[j - 1]), Ref(cells[j])])
            d = BitVecVal(r.d, 64) if isinstance(r.d, int) else r.d
            if not ctx.decide(d == BitVecVal(1, 64)):
                break
            cells[j - 1].v, cells[j].v = cells[j].v, cells[j - 1].v
            j -= 1
    return UNIT


@model(r'^(std|core|alloc)::slice::<impl \[.*\]>::sort$|^(std|core|alloc)::slice::<impl \[.*\]>::sort_unstable$')
def m_sort(ctx, args, callee):
    s_ = as_seq(ctx, args[0])
    try:
        keys = [key_of(ctx, c.v) for c in s_.items]
    except Unmodelled:
        raise Unmodelled('sort of symbolic values')
    order = sorted(range(len(keys)), key=lambda i: keys[i])
    vals = [s_.items[i].v for i in order]
    for c, v in zip(s_.items, vals):
        c.v = v
    return UNIT


# =========================================================================== iterators
class Iter:
    """lazy iterator: next(ctx) -> value or None (exhausted); all lengths are concrete"""

    def next(self, ctx):
        raise NotImplementedError

    def next_back(self, ctx):
        raise Unmodelled('next_back on %s' % type(self).__name__)

    def size_hint(self):
        return None


class ListIter(Iter):
    def __init__(self, values):
        self.vals = list(values); self.pos = 0; self.end = len(self.vals)

    def next(self, ctx):
        if self.pos >= self.end:
            return None
        v = self.vals[self.pos]; self.pos += 1
        return v

    def next_back(self, ctx):
        if self.pos >= self.end:
            return None
        self.end -= 1
        return self.vals[self.end]

    def remaining(self):
        return self.vals[self.pos:self.end]


class MapIter(Iter):
    def __init__(self, inner, f):
        self.inner, self.f = inner, f

    def next(self, ctx):
        x = self.inner.next(ctx)
        if x is None:
            return None
        return ctx.call_closure(self.f, [x])

    def next_back(self, ctx):
        x = self.inner.next_back(ctx)
        if x is None:
            return None
        return ctx.call_closure(self.f, [x])


class FilterIter(Iter):
    def __init__(self, inner, f):
        self.inner, self.f = inner, f

    def next(self, ctx):
        while True:
            x = self.inner.next(ctx)
            if x is None:
                return None
            keep = ctx.call_closure(self.f, [Ref(Cell(x))])
            if ctx.decide(keep):
                return x


class FilterMapIter(Iter):
    def __init__(self, inner, f):
        self.inner, self.f = inner, f

    def next(self, ctx):
        while True:
            x = self.inner.next(ctx)
            if x is None:
                return None
            r = ctx.call_closure(self.f, [x])
            d = fork_variant(ctx, r)
            if d == 1:
                return r.p[1][0]


class FlatMapIter(Iter):
    def __init__(self, inner, f):
        self.inner, self.f = inner, f; self.cur = None

    def next(self, ctx):
        while True:
            if self.cur is not None:
                x = self.cur.next(ctx)
                if x is not None:
                    return x
                self.cur = None
            o = self.inner.next(ctx)
            if o is None:
                return None
            sub = o if self.f is None else ctx.call_closure(self.f, [o])
            self.cur = to_iter(ctx, sub)


class EnumerateIter(Iter):
    def __init__(self, inner):
        self.inner = inner; self.n = 0

    def next(self, ctx):
        x = self.inner.next(ctx)
        if x is None:
            return None
        r = Agg([BitVecVal(self.n, 64), x]); self.n += 1
        return r


class ClonedIter(Iter):
    def __init__(self, inner):
        self.inner = inner

    def next(self, ctx):
        x = self.inner.next(ctx)
        if x is None:
            return None
        return deep_clone(ctx, ctx.deref(x))

    def next_back(self, ctx):
        x = self.inner.next_back(ctx)
        if x is None:
            return None
        return deep_clone(ctx, ctx.deref(x))


class ChainIter(Iter):
    def __init__(self, a, b):
        self.a, self.b = a, b

    def next(self, ctx):
        x = self.a.next(ctx)
        if x is not None:
            return x
        return self.b.next(ctx)


class ZipIter(Iter):
    def __init__(self, a, b):
        self.a, self.b = a, b

    def next(self, ctx):
        x = self.a.next(ctx)
        if x is None:
            return None
        y = self.b.next(ctx)
        if y is None:
            return None
        return Agg([x, y])


class TakeIter(Iter):
    def __init__(self, inner, n):
        self.inner, self.n = inner, n

    def next(self, ctx):
        if self.n <= 0:
            return None
        self.n -= 1
        return self.inner.next(ctx)


class SkipIter(Iter):
    def __init__(self, inner, n):
        self.inner, self.n = inner, n

    def next(self, ctx):
        while self.n > 0:
            self.n -= 1
            if self.inner.next(ctx) is None:
                return None
        return self.inner.next(ctx)


class RevIter(Iter):
    def __init__(self, inner):
        self.inner = inner

    def next(self, ctx):
        return self.inner.next_back(ctx)

    def next_back(self, ctx):
        return self.inner.next(ctx)


class PeekIter(Iter):
    def __init__(self, inner):
        self.inner = inner; self.buf = []

    def next(self, ctx):
        if self.buf:
            return self.buf.pop(0)
        return self.inner.next(ctx)

    def peek(self, ctx):
        if not self.buf:
            x = self.inner.next(ctx)
            if x is None:
                return None
            self.buf.append(x)
        return self.buf[0]


class RangeIter(Iter):
    def __init__(self, lo, hi, w):
        self.lo, self.hi, self.w = lo, hi, w

    def next(self, ctx):
        c = ctx.decide(ULT(self.lo, self.hi)) if self.w else None
        if not c:
            return None
        v = self.lo
        self.lo = simplify(self.lo + 1)
        return v


def to_iter(ctx, v):
    if isinstance(v, Iter):
        return v
    if isinstance(v, Ref):
        tgt = ctx.deref(v)
        if isinstance(tgt, Iter):
            return tgt
        if isinstance(tgt, Seq):
            return ListIter([Ref(c) for c in tgt.items])
        if isinstance(tgt, Agg):
            return ListIter([Ref(v.cell, tuple(v.path) + (('field', i),)) for i in range(len(tgt.f))])
        if isinstance(tgt, Map):
            return tgt.iter_refs(ctx)
        if isinstance(tgt, EnumV) and tgt.ty == 'Option':
            d = fork_variant(ctx, tgt)
            return ListIter([Ref(v.cell, tuple(v.path) + (('downcast', 1), ('field', 0)))] if d == 1 else [])
        if isinstance(tgt, RcV):
            return to_iter(ctx, Ref(tgt.cell))
        raise Unmodelled('iterate over &%r' % (type(tgt).__name__,))
    if isinstance(v, Seq):
        return ListIter([c.v for c in v.items])
    if isinstance(v, Agg):
        if v.ty == 'Range':
            return RangeIter(v.f[0], v.f[1], v.f[0].size())
        return ListIter(list(v.f))
    if isinstance(v, Map):
        return v.into_iter(ctx)
    if isinstance(v, EnumV) and v.ty == 'Option':
        d = fork_variant(ctx, v)
        return ListIter([v.p[1][0]] if d == 1 else [])
    raise Unmodelled('iterate over %r' % (type(v).__name__,))


@model(r'^<.* as IntoIterator>::into_iter$|^(core|std)::slice::<impl \[.*\]>::iter$|^Vec::iter$|^VecDeque::iter$'
       r'|^(core|std)::slice::<impl \[.*\]>::iter_mut$|^Vec::into_iter$|^Vec::drain$|^Option::iter$|^(std::option::)?Option::into_iter$')
def m_into_iter(ctx, args, callee):
    if callee.startswith('Vec') and 'drain' in callee:
        s = as_seq(ctx, args[0])
        vals = [c.v for c in s.items]; s.items.clear()
        return ListIter(vals)
    return to_iter(ctx, args[0])


def _it(ctx, v):
    v2 = v
    while isinstance(v2, Ref):
        v2 = ctx.project(v2.cell.v, v2.path)
    if isinstance(v2, Iter):
        return v2
    return to_iter(ctx, v)


@model(r'^<.* as Iterator>::next$')
def m_iter_next(ctx, args, callee):
    x = _it(ctx, args[0]).next(ctx)
    return none() if x is None else some(x)


@model(r'^<.* as DoubleEndedIterator>::next_back$')
def m_iter_next_back(ctx, args, callee):
    x = _it(ctx, args[0]).next_back(ctx)
    return none() if x is None else some(x)


@model(r'^<.* as Iterator>::map$')
def m_iter_map(ctx, args, callee):
    return MapIter(_it(ctx, args[0]), args[1])


@model(r'^<.* as Iterator>::filter$')
def m_iter_filter(ctx, args, callee):
    return FilterIter(_it(ctx, args[0]), args[1])


@model(r'^<.* as Iterator>::filter_map$')
def m_iter_filter_map(ctx, args, callee):
    return FilterMapIter(_it(ctx, args[0]), args[1])


@model(r'^<.* as Iterator>::flat_map$')
def m_iter_flat_map(ctx, args, callee):
    return FlatMapIter(_it(ctx, args[0]), args[1])


@model(r'^<.* as Iterator>::flatten$')
def m_iter_flatten(ctx, args, callee):
    return FlatMapIter(_it(ctx, args[0]), None)


@model(r'^<.* as Iterator>::enumerate$')
def m_iter_enumerate(ctx, args, callee):
    return EnumerateIter(_it(ctx, args[0]))


@model(r'^<.* as Iterator>::cloned$|^<.* as Iterator>::copied$')
def m_iter_cloned(ctx, args, callee):
    return ClonedIter(_it(ctx, args[0]))


@model(r'^<.* as Iterator>::chain$')
def m_iter_chain(ctx, args, callee):
    return ChainIter(_it(ctx, args[0]), to_iter(ctx, args[1]))


@model(r'^<.* as Iterator>::zip$')
def m_iter_zip(ctx, args, callee):
    return ZipIter(_it(ctx, args[0]), to_iter(ctx, args[1]))


@model(r'^<.* as Iterator>::rev$')
def m_iter_rev(ctx, args, callee):
    return RevIter(_it(ctx, args[0]))


@model(r'^<.* as Iterator>::peekable$')
def m_iter_peekable(ctx, args, callee):
    return PeekIter(_it(ctx, args[0]))


@model(r'^Peekable::peek$|^std::iter::Peekable::peek$')
def m_iter_peek(ctx, args, callee):
    x = _it(ctx, args[0]).peek(ctx)
    return none() if x is None else some(Ref(Cell(x)))


def _clamped_count(ctx, it, nterm):
    """a count used against an iterator with a known number of remaining items: any value >= that number acts like it"""
    n = conc(nterm)
    rem = None
    cur = it
    for _ in range(6):
        if isinstance(cur, ListIter):
            rem = len(cur.remaining()); break
        if isinstance(cur, SkipIter) and isinstance(cur.inner, ListIter):
            rem = max(0, len(cur.inner.remaining()) - cur.n); break
        cur = getattr(cur, 'inner', None)
        if cur is None:
            break
    if n is not None:
        return min(n, rem) if rem is not None else n
    if rem is None:
        return ctx.concretize(nterm, range(0, 9))
    if ctx.decide(UGE(nterm, BitVecVal(rem, nterm.size()))):
        return rem
    return ctx.concretize(nterm, range(0, rem))


@model(r'^<.* as Iterator>::take$')
def m_iter_take(ctx, args, callee):
    it = _it(ctx, args[0])
    return TakeIter(it, _clamped_count(ctx, it, args[1]))


@model(r'^<.* as Iterator>::skip$')
def m_iter_skip(ctx, args, callee):
    it = _it(ctx, args[0])
    return SkipIter(it, _clamped_count(ctx, it, args[1]))


def drain(ctx, it):
    out = []
    while True:
        x = it.next(ctx)
        if x is None:
            return out
        out.append(x)


@model(r'^<.* as Iterator>::collect$')
def m_iter_collect(ctx, args, callee):
    vals = drain(ctx, _it(ctx, args[0]))
    m = re.search(r'collect::<(.*)>$', callee, re.S)
    target = m.group(1) if m else 'Vec'
    t = target.strip()
    if t.startswith(('std::string::String', 'String')):
        out = Str('')
        for v in vals:
            v = ctx.deref(v)
            if is_bv(v):
                c = conc(v)
                if c is None:
                    raise Unmodelled('collect symbolic chars')
                v = Str(chr(c))
            out = str_concat(ctx, out, as_str(ctx, v))
        return out
    if t.startswith(('Vec', 'std::vec::Vec', 'VecDeque')):
        return Seq(vals)
    if t.startswith(('HashMap', 'BTreeMap', 'std::collections::HashMap', 'std::collections::BTreeMap')):
        mp_ = Map('HashMap' if 'Hash' in t else 'BTreeMap')
        for v in vals:
            mp_.insert(ctx, v.f[0], v.f[1])
        return mp_
    if t.startswith(('HashSet', 'BTreeSet', 'std::collections::HashSet', 'std::collections::BTreeSet')):
        mp_ = Map('HashSet' if 'Hash' in t else 'BTreeSet')
        for v in vals:
            mp_.insert(ctx, v, UNIT)
        return mp_
    if t.startswith(('Result<', 'std::result::Result<')):
        out = []
        for v in vals:
            d = fork_variant(ctx, v)
            if d == 1:
                return err(v.p[1][0])
            out.append(v.p[0][0])
        return ok(Seq(out))
    raise Unmodelled('collect into ' + t)


@model(r'^<.* as Iterator>::count$')
def m_iter_count(ctx, args, callee):
    it0 = _it(ctx, args[0])
    if hasattr(it0, 'count_hook'):
        return it0.count_hook(ctx)
    return BitVecVal(len(drain(ctx, _it(ctx, args[0]))), 64)


class ClassChars(Iter):
    """chars() of a text with a run of unknown decimal digits in it: concrete characters and one 'some digits' element. Only
    predicates that are uniform on the ten digits can be folded over it (any / all); anything else is UNMODELLED"""
    def __init__(self, parts):
        self.parts = parts          # list of characters (str) and the marker None = one or more decimal digits

    def next(self, ctx):
        raise Unmodelled('stepping through the characters of a symbolic numeral')

    def fold(self, ctx, pred):
        """-> list of python booleans, one per part (the path forks as the predicate demands)"""
        out = []
        for ch in self.parts:
            if ch is None:
                rs = [bool(ctx.decide(pred(BitVecVal(ord(d), 32)))) for d in '0123456789']
                if len(set(rs)) != 1:
                    raise Unmodelled('a predicate that tells decimal digits apart, on a symbolic numeral')
                out.append(rs[0])
            else:
                out.append(bool(ctx.decide(pred(BitVecVal(ord(ch), 32)))))
        return out


class TableChars(Iter):
    """chars() of a table string (a symbolic index into concrete texts): foldable by any / all, entry by entry"""
    def __init__(self, st):
        self.st = st

    def next(self, ctx):
        raise Unmodelled('stepping through the characters of a table string')

    def fold(self, ctx, pred, mode):
        hits = []
        for i, t in self.st.tab.items():
            rs = [bool(ctx.decide(pred(BitVecVal(ord(c), 32)))) for c in t]
            if (all(rs) if mode == 'all' else any(rs)):
                hits.append(self.st.var == i)
        return Or(hits) if hits else BoolVal(False)


@model(r'^<.* as Iterator>::any$')
def m_iter_any(ctx, args, callee):
    it = _it(ctx, args[0])
    if isinstance(it, TableChars):
        return it.fold(ctx, lambda c: ctx.call_closure(args[1], [c]), 'any')
    if isinstance(it, ClassChars):
        return BoolVal(any(it.fold(ctx, lambda c: ctx.call_closure(args[1], [c]))))
    while True:
        x = it.next(ctx)
        if x is None:
            return BoolVal(False)
        if ctx.decide(ctx.call_closure(args[1], [x])):
            return BoolVal(True)


@model(r'^<.* as Iterator>::all$')
def m_iter_all(ctx, args, callee):
    it = _it(ctx, args[0])
    if isinstance(it, TableChars):
        return it.fold(ctx, lambda c: ctx.call_closure(args[1], [c]), 'all')
    if isinstance(it, ClassChars):
        return BoolVal(all(it.fold(ctx, lambda c: ctx.call_closure(args[1], [c]))))
    while True:
        x = it.next(ctx)
        if x is None:
            return BoolVal(True)
        if not ctx.decide(ctx.call_closure(args[1], [x])):
            return BoolVal(False)


@model(r'^<.* as Iterator>::find$')
def m_iter_find(ctx, args, callee):
    it = _it(ctx, args[0])
    while True:
        x = it.next(ctx)
        if x is None:
            return none()
        if ctx.decide(ctx.call_closure(args[1], [Ref(Cell(x))])):
            return some(x)


@model(r'^<.* as Iterator>::find_map$')
def m_iter_find_map(ctx, args, callee):
    it = _it(ctx, args[0])
    while True:
        x = it.next(ctx)
        if x is None:
            return none()
        r = ctx.call_closure(args[1], [x])
        if fork_variant(ctx, r) == 1:
            return r


@model(r'^<.* as Iterator>::position$')
def m_iter_position(ctx, args, callee):
    it = _it(ctx, args[0]); i = 0
    while True:
        x = it.next(ctx)
        if x is None:
            return none()
        if ctx.decide(ctx.call_closure(args[1], [x])):
            return some(BitVecVal(i, 64))
        i += 1


@model(r'^<.* as Iterator>::for_each$')
def m_iter_for_each(ctx, args, callee):
    it = _it(ctx, args[0])
    while True:
        x = it.next(ctx)
        if x is None:
            return UNIT
        ctx.call_closure(args[1], [x])


@model(r'^<.* as Iterator>::fold$')
def m_iter_fold(ctx, args, callee):
    it = _it(ctx, args[0]); acc = args[1]
    while True:
        x = it.next(ctx)
        if x is None:
            return acc
        acc = ctx.call_closure(args[2], [acc, x])


@model(r'^<.* as Iterator>::last$')
def m_iter_last(ctx, args, callee):
    vals = drain(ctx, _it(ctx, args[0]))
    return some(vals[-1]) if vals else none()


@model(r'^<.* as Iterator>::nth$')
def m_iter_nth(ctx, args, callee):
    it = _it(ctx, args[0])
    n = conc(args[1])
    if n is None:
        n = ctx.concretize(args[1], range(0, 9))
    x = None
    for _ in range(n + 1):
        x = it.next(ctx)
        if x is None:
            return none()
    return some(x)


def _minmax(ctx, vals, want_max, signed=False):
    """fold of Ord::min / Ord::max over bit-vector or f64-free values"""
    if not vals:
        return none()
    best = ctx.deref(vals[0])
    for v in vals[1:]:
        v = ctx.deref(v)
        if not (is_bv(best) and is_bv(v)):
            raise Unmodelled('min/max over %r' % (type(v).__name__,))
        if want_max:
            # Iterator::max returns the last maximal element
            best = If((v >= best) if signed else UGE(v, best), v, best)
        else:
            best = If((v < best) if signed else ULT(v, best), v, best)
    return some(best)


def _item_signed(ctx, it, callee):
    """signedness of an iterator's integer items: from the return type of the closure that produces them"""
    cur = it
    for _ in range(8):
        f = getattr(cur, 'f', None)
        if f is not None and isinstance(f, Closure):
            fn = ctx.prog.closures.get(f.loc)
            if fn is not None:
                m = re.search(r'\b(i8|i16|i32|i64|isize|u8|u16|u32|u64|usize)\b', fn.ret)
                if m:
                    return m.group(1) in SIGNED
        cur = getattr(cur, 'inner', None)
        if cur is None:
            break
    sm = re.search(r'\b(i8|i16|i32|i64|isize)\b', callee)
    return bool(sm) and not re.search(r'\b(u8|u16|u32|u64|usize)\b', callee)


@model(r'^<.* as Iterator>::(min|max)$')
def m_iter_minmax(ctx, args, callee):
    it = _it(ctx, args[0])
    signed = _item_signed(ctx, it, callee)
    vals = drain(ctx, it)
    return _minmax(ctx, vals, callee.endswith('max'), signed)


@model(r'^<.* as Iterator>::sum$|^<.* as Sum.*>::sum$')
def m_iter_sum(ctx, args, callee):
    vals = drain(ctx, _it(ctx, args[0]))
    m = re.search(r'sum::<(\w+)>', callee)
    ty = m.group(1) if m else 'usize'
    if ty == 'f64':
        acc = z3.FPVal(0.0, z3.Float64())
        for v in vals:
            acc = z3.fpAdd(z3.RNE(), acc, ctx.deref(v))
        return acc
    w = INT_W[ty]
    acc = BitVecVal(0, w)
    for v in vals:
        v = ctx.deref(v)
        ok_ = z3.BVAddNoOverflow(acc, v, ty in SIGNED)
        ctx.obligation(ok_, 'attempt to add with overflow (Iterator::sum)')
        acc = acc + v
    return acc


# =========================================================================== maps / sets
def key_of(ctx, k):
    """hashable python key for a concrete model value (strings, ints, tuples/vecs of them)"""
    k = ctx.deref(k)
    if isinstance(k, Str):
        if k.s is None:
            raise Unmodelled('symbolic map key')
        return ('s', k.s)
    if is_bv(k) or is_bool(k):
        c = conc(k)
        if c is None:
            raise Unmodelled('symbolic map key')
        return ('i', c)
    if isinstance(k, Seq):
        return ('v',) + tuple(key_of(ctx, c.v) for c in k.items)
    if isinstance(k, Agg):
        return ('t',) + tuple(key_of(ctx, x) for x in k.f)
    if isinstance(k, EnumV):
        d = k.d if isinstance(k.d, int) else conc(k.d)
        if d is None:
            raise Unmodelled('symbolic map key')
        return ('e', d) + tuple(key_of(ctx, x) for x in k.p.get(d, []))
    if hasattr(k, 'map_key'):
        return k.map_key(ctx)
    if isinstance(k, (RcV, BoxV)):
        return key_of(ctx, k.cell.v)
    if k is UNIT:
        return ('u',)
    raise Unmodelled('map key %r' % (type(k).__name__,))


class Map:
    """HashMap / BTreeMap / HashSet / BTreeSet. Entries are (key value, cell); concrete keys are indexed in a dict,
    symbolic string keys are compared entry by entry (forking on equality). Iteration order: BTree* ascending by
    (concrete) key; Hash* unspecified — modelled as insertion order."""
    __slots__ = ('d', 'keys', 'kind', 'sym')

    def __init__(self, kind='HashMap'):
        self.d = {}; self.keys = {}; self.kind = kind; self.sym = []

    def _lookup(self, ctx, k):
        """-> cell or None; forks on symbolic key equality"""
        kv = ctx.deref(k)
        try:
            kk = key_of(ctx, kv)
        except Unmodelled:
            kk = None
        if kk is not None:
            c = self.d.get(kk)
            if c is not None:
                return c
            for sk, cell in self.sym:
                if ctx.decide(generic_eq(ctx, sk, kv)):
                    return cell
            return None
        for kk2, cell in list(self.d.items()):
            if ctx.decide(generic_eq(ctx, self.keys[kk2], kv)):
                return cell
        for sk, cell in self.sym:
            if ctx.decide(generic_eq(ctx, sk, kv)):
                return cell
        return None

    def insert(self, ctx, k, v):
        old = self._lookup(ctx, k)
        if old is not None:
            o = old.v; old.v = v
            return some(o)
        kv = ctx.deref(k)
        try:
            kk = key_of(ctx, kv)
            self.d[kk] = Cell(v); self.keys[kk] = k
        except Unmodelled:
            self.sym.append((kv, Cell(v)))
        return none()

    def get(self, ctx, k):
        return self._lookup(ctx, k)

    def ordered_keys(self, ctx=None):
        ks = list(self.d.keys())
        if self.kind.startswith('BTree'):
            cmpf = None
            if ctx is not None and ks:
                k0 = ctx.deref(self.keys[ks[0]])
                ty = getattr(k0, 'ty', None)
                if isinstance(k0, Agg) and ty:
                    fl = ctx.prog.by_trait.get(('Ord', ty, 'cmp'))
                    cmpf = fl[0] if fl else None
            if cmpf is None:
                ks.sort()
            else:
                # a crate type with its own Ord: the tree is ordered by the REAL comparison (run from MIR; a symbolic verdict forks)
                import functools

                def c(a, b):
                    r = ctx.call_fn(cmpf, [Ref(Cell(self.keys[a])), Ref(Cell(self.keys[b]))])
                    d = r.d if isinstance(r.d, int) else conc(r.d)
                    if d is None:
                        d = ctx.concretize(r.d, [(1 << 64) - 1, 0, 1])
                    d = d - (1 << 64) if d >= (1 << 63) else d
                    if d >= 128:
                        d -= 256
                    return d
                ks.sort(key=functools.cmp_to_key(c))
        return ks

    def _sym_guard(self):
        if self.sym:
            raise Unmodelled('iteration over a map with symbolic keys')

    def iter_refs(self, ctx):
        self._sym_guard()
        if self.kind.endswith('Set'):
            return ListIter([Ref(Cell(self.keys[k])) for k in self.ordered_keys(ctx)])
        return ListIter([Agg([Ref(Cell(self.keys[k])), Ref(self.d[k])]) for k in self.ordered_keys(ctx)])

    def into_iter(self, ctx):
        self._sym_guard()
        if self.kind.endswith('Set'):
            return ListIter([self.keys[k] for k in self.ordered_keys(ctx)])
        return ListIter([Agg([self.keys[k], self.d[k].v]) for k in self.ordered_keys(ctx)])

    def length(self, ctx):
        return BitVecVal(len(self.d) + len(self.sym), 64)

    def __repr__(self):
        return '%s(%r%s)' % (self.kind, {k: c.v for k, c in self.d.items()}, (' +%d symbolic' % len(self.sym)) if self.sym else '')


def as_map(ctx, v):
    v = ctx.deref(v)
    if isinstance(v, Map):
        return v
    if hasattr(v, 'as_map'):
        return v
    raise Unmodelled('expected map, got %r' % (type(v).__name__,))


_MAPS = r'(HashMap|BTreeMap|std::collections::HashMap|std::collections::BTreeMap|std::collections::hash_map::HashMap)'
_SETS = r'(HashSet|BTreeSet|std::collections::HashSet|std::collections::BTreeSet)'


@model(r'^' + _MAPS + r'::new$|^' + _SETS + r'::new$|^<(HashMap|BTreeMap|HashSet|BTreeSet)<.*> as Default>::default$'
       r'|^' + _MAPS + r'::with_capacity$|^' + _SETS + r'::with_capacity$')
def m_map_new(ctx, args, callee):
    for k in ('HashMap', 'BTreeMap', 'HashSet', 'BTreeSet'):
        if k in callee:
            return Map(k)


@model(r'^' + _MAPS + r'::insert$')
def m_map_insert(ctx, args, callee):
    m = as_map(ctx, args[0])
    if hasattr(m, 'm_insert'):
        return m.m_insert(ctx, args[1], args[2])
    return m.insert(ctx, args[1], args[2])


@model(r'^' + _SETS + r'::insert$')
def m_set_insert(ctx, args, callee):
    m = as_map(ctx, args[0])
    if hasattr(m, 'm_set_insert'):
        return m.m_set_insert(ctx, args[1])
    r = m.insert(ctx, args[1], UNIT)
    return BoolVal(r.d == 0)


@model(r'^<(HashSet|BTreeSet|HashMap|BTreeMap)<.*> as Extend<.*>>::extend$')
def m_map_extend(ctx, args, callee):
    m = as_map(ctx, args[0])
    it = to_iter(ctx, args[1])
    while True:
        x = it.next(ctx)
        if x is None:
            return UNIT
        if m.kind.endswith('Set'):
            m.insert(ctx, x, UNIT)
        else:
            m.insert(ctx, x.f[0], x.f[1])


@model(r'^' + _MAPS + r'::get$|^' + _MAPS + r'::get_mut$')
def m_map_get(ctx, args, callee):
    m = as_map(ctx, args[0])
    if hasattr(m, 'm_get'):
        return m.m_get(ctx, args[1])
    c = m.get(ctx, args[1])
    return none() if c is None else some(Ref(c))


@model(r'^' + _MAPS + r'::contains_key$|^' + _SETS + r'::contains$')
def m_map_contains(ctx, args, callee):
    m = as_map(ctx, args[0])
    if hasattr(m, 'm_contains'):
        return m.m_contains(ctx, args[1])
    return BoolVal(m.get(ctx, args[1]) is not None)


@model(r'^' + _MAPS + r'::remove$')
def m_map_remove(ctx, args, callee):
    m = as_map(ctx, args[0])
    if hasattr(m, 'm_remove'):
        return m.m_remove(ctx, args[1])
    kk = key_of(ctx, args[1])
    c = m.d.pop(kk, None)
    if c is None:
        return none()
    m.keys.pop(kk, None)
    return some(c.v)


@model(r'^' + _SETS + r'::remove$')
def m_set_remove(ctx, args, callee):
    m = as_map(ctx, args[0])
    kk = key_of(ctx, args[1])
    c = m.d.pop(kk, None)
    m.keys.pop(kk, None)
    return BoolVal(c is not None)


@model(r'^' + _MAPS + r'::len$|^' + _SETS + r'::len$')
def m_map_len(ctx, args, callee):
    return as_map(ctx, args[0]).length(ctx)


@model(r'^' + _MAPS + r'::is_empty$|^' + _SETS + r'::is_empty$')
def m_map_is_empty(ctx, args, callee):
    m = as_map(ctx, args[0])
    if hasattr(m, 'm_is_empty'):
        return m.m_is_empty(ctx)
    return BoolVal(len(m.d) == 0)


@model(r'^' + _MAPS + r'::clear$|^' + _SETS + r'::clear$')
def m_map_clear(ctx, args, callee):
    m = as_map(ctx, args[0])
    if hasattr(m, 'm_clear'):
        return m.m_clear(ctx)
    m.d.clear(); m.keys.clear()
    return UNIT


@model(r'^<' + _MAPS + r'<.*> as (std::ops::)?Index<.*>>::index$')
def m_map_index(ctx, args, callee):
    m = as_map(ctx, args[0])
    c = m.get(ctx, args[1])
    ctx.obligation(BoolVal(c is not None), 'key not found in map (Index)')
    return Ref(c)


@model(r'^' + _MAPS + r'::iter$|^' + _SETS + r'::iter$|^' + _MAPS + r'::iter_mut$')
def m_map_iter(ctx, args, callee):
    m = as_map(ctx, args[0])
    if hasattr(m, 'm_iter'):
        return m.m_iter(ctx)
    return m.iter_refs(ctx)


@model(r'^' + _MAPS + r'::values$|^' + _MAPS + r'::values_mut$|^' + _MAPS + r'::into_values$')
def m_map_values(ctx, args, callee):
    m = as_map(ctx, args[0])
    if hasattr(m, 'm_values'):
        return m.m_values(ctx)
    if 'into_values' in callee:
        return ListIter([m.d[k].v for k in m.ordered_keys(ctx)])
    return ListIter([Ref(m.d[k]) for k in m.ordered_keys(ctx)])


@model(r'^' + _MAPS + r'::keys$|^' + _MAPS + r'::into_keys$')
def m_map_keys(ctx, args, callee):
    m = as_map(ctx, args[0])
    if 'into_keys' in callee:
        return ListIter([m.keys[k] for k in m.ordered_keys(ctx)])
    return ListIter([Ref(Cell(m.keys[k])) for k in m.ordered_keys(ctx)])


class EntryV:
    def __init__(self, m, k):
        self.m, self.k = m, k


@model(r'^' + _MAPS + r'::entry$')
def m_map_entry(ctx, args, callee):
    m = as_map(ctx, args[0])
    if hasattr(m, 'm_entry'):
        return m.m_entry(ctx, args[1])
    return EntryV(m, args[1])


@model(r'^(std::collections::)?(btree_map|hash_map)::Entry::or_default$|^(std::collections::)?(btree_map|hash_map)::Entry::or_insert$'
       r'|^(std::collections::)?(btree_map|hash_map)::Entry::or_insert_with$')
def m_entry_or(ctx, args, callee):
    e = args[0]
    if hasattr(e, 'or_default'):
        return e.or_default(ctx, callee, args)
    c = e.m.get(ctx, e.k)
    if c is None:
        if callee.endswith('or_default'):
            m = re.search(r'Entry::<.*?, ?(.*)>::or_default', callee, re.S)
            ty = m.group(1).strip() if m else 'Vec<'
            # value type is the last generic argument
            v = default_value(ctx, ty.split(', ')[-1] if ', ' in ty and not ty.startswith(('Vec', 'std::vec')) else ty)
        elif callee.endswith('or_insert'):
            v = args[1]
        else:
            v = ctx.call_closure(args[1], [])
        e.m.insert(ctx, e.k, v)
        c = e.m.get(ctx, e.k)
    return Ref(c)


# =========================================================================== misc plumbing
@model(r'^<.* as Deref>::deref$|^<.* as DerefMut>::deref_mut$|^<.* as AsRef<.*>>::as_ref$|^<.* as Borrow<.*>>::borrow$'
       r'|^<.* as BorrowMut<.*>>::borrow_mut$|^<.* as AsMut<.*>>::as_mut$', 'generic_deref')
def m_generic_deref(ctx, args, callee):
    v = ctx.deref(args[0])
    if 'LazyLock<' in callee and isinstance(v, tuple) and v and v[0] == 'static':
        from .models_ext import m_lazy_regex
        return m_lazy_regex(ctx, args, callee)
    if isinstance(v, Str):
        return v
    if isinstance(v, (Seq, Map)):
        return args[0]
    if isinstance(v, BoxV):
        return Ref(v.cell)
    if isinstance(v, RcV):
        return Ref(v.cell)
    if hasattr(v, 'deref_model'):
        return v.deref_model(ctx, callee)
    raise Unmodelled('deref of %r via %s' % (type(v).__name__, callee))


@model(r'^<.* as From<.*>>::from$|^<.* as Into<.*>>::into$', 'generic_from')
def m_generic_from(ctx, args, callee):
    m = re.match(r'^<(.*) as From<(.*)>>::from$', callee.strip(), re.S)
    if m:
        to, frm = m.group(1).strip(), m.group(2).strip()
        v = args[0]
        if to in INT_W and frm in INT_W and is_bv(v):
            return ctx.cast(v, to, 'IntToInt', frm)
        if to == 'f64' and frm in INT_W and is_bv(v):
            return ctx.cast(v, 'f64', 'IntToFloat', frm)
        if to.startswith('Box<'):
            return BoxV(v)
        if to.startswith(('std::string::String', 'String')):
            return as_str(ctx, v)
        if to == frm:
            return v
    m = re.match(r'^<(.*) as Into<(.*)>>::into$', callee.strip(), re.S)
    if m:
        frm, to = m.group(1).strip(), m.group(2).strip()
        v = args[0]
        if to in INT_W and frm in INT_W and is_bv(v):
            return ctx.cast(v, to, 'IntToInt', frm)
        if to.startswith(('std::string::String', 'String')):
            return as_str(ctx, v)
        if to == frm:
            return v
    raise Unmodelled('From/Into ' + callee)


@model(r'^must_use$|^std::hint::must_use$|^core::hint::must_use$|^std::convert::identity$|^std::hint::black_box$')
def m_identity(ctx, args, callee):
    return args[0]


@model(r'^std::mem::drop$|^drop$|^core::mem::drop$|^std::mem::forget$')
def m_drop(ctx, args, callee):
    return UNIT


@model(r'^std::mem::swap$|^core::mem::swap$')
def m_swap(ctx, args, callee):
    a = ctx.deref(args[0]); b = ctx.deref(args[1])
    ctx.store(args[0], b); ctx.store(args[1], a)
    return UNIT


@model(r'^std::mem::replace$|^core::mem::replace$')
def m_replace_mem(ctx, args, callee):
    a = ctx.deref(args[0])
    ctx.store(args[0], args[1])
    return a


@model(r'^std::mem::take$|^core::mem::take$')
def m_take_mem(ctx, args, callee):
    a = ctx.deref(args[0])
    if isinstance(a, Str):
        ctx.store(args[0], Str(''))
    elif isinstance(a, Seq):
        ctx.store(args[0], Seq([]))
    elif isinstance(a, EnumV) and a.ty == 'Option':
        ctx.store(args[0], none())
    else:
        raise Unmodelled('mem::take of %r' % (type(a).__name__,))
    return a


@model(r'^(std::ops::)?RangeInclusive::new$')
def m_range_incl_new(ctx, args, callee):
    return Agg([args[0], args[1]], 'RangeInclusive')


@model(r'^(std::ops::)?(Range|RangeInclusive)::contains$')
def m_range_contains(ctx, args, callee):
    r = ctx.deref(args[0]); x = ctx.deref(args[1])
    m = re.search(r'(Range(?:Inclusive)?)::<(\w+)>', callee)
    ty = m.group(2) if m else 'usize'
    sg = ty in SIGNED
    lo, hi = r.f[0], r.f[1]
    ge = (x >= lo) if sg else UGE(x, lo)
    if r.ty == 'RangeInclusive' or (m and m.group(1) == 'RangeInclusive'):
        return And(ge, (x <= hi) if sg else ULE(x, hi))
    return And(ge, (x < hi) if sg else ULT(x, hi))


# --- floats
@model(r'^((std|core)::)?f64::<impl f64>::powi$|^f64::powi$')
def m_powi(ctx, args, callee):
    x = args[0]; n = sconc(args[1])
    if n is None or n < 0 or n > 4:
        # a symbolic / large exponent: an uninterpreted function of (base, exponent)
        f = _FUF.setdefault(('powi', 'i32'), z3.Function('f64_powi', z3.Float64(), z3.BitVecSort(32), z3.Float64()))
        return f(x, args[1])
    r = z3.FPVal(1.0, z3.Float64())
    if n >= 1:
        r = x
        for _ in range(n - 1):
            r = z3.fpMul(z3.RNE(), r, x)
    return r


@model(r'^((std|core)::)?f64::<impl f64>::sqrt$|^f64::sqrt$')
def m_sqrt(ctx, args, callee):
    return z3.fpSqrt(z3.RNE(), args[0])


@model(r'^((std|core)::)?f64::<impl f64>::abs$|^f64::abs$')
def m_fabs(ctx, args, callee):
    return z3.fpAbs(args[0])


_FUF = {}


def float_uf(name, arity):
    key = (name, arity)
    if key not in _FUF:
        _FUF[key] = z3.Function('f64_' + name, *([z3.Float64()] * (arity + 1)))
    return _FUF[key]


@model(r'^((std|core)::)?f64::<impl f64>::(powf|ln|exp|log|log10|log2)$', 'f64 library function (uninterpreted)')
def m_float_lib(ctx, args, callee):
    name = callee.rsplit('::', 1)[1]
    return float_uf(name, len(args))(*args)


@model(r'^((std|core)::)?f64::<impl f64>::(min|max)$', 'f64::min/max')
def m_float_minmax(ctx, args, callee):
    a, b = args
    if callee.endswith('min'):
        return If(z3.fpLT(a, b), a, If(z3.fpIsNaN(a), b, If(z3.fpIsNaN(b), a, If(z3.fpLT(b, a), b, a))))
    return If(z3.fpGT(a, b), a, If(z3.fpIsNaN(a), b, If(z3.fpIsNaN(b), a, If(z3.fpGT(b, a), b, a))))


@model(r'^(core::)?str::<impl str>::split_whitespace$')
def m_split_whitespace(ctx, args, callee):
    s_ = as_str(ctx, args[0])
    if s_.s is None or isinstance(s_, SpecialStr):
        raise Unmodelled('split_whitespace of symbolic string')
    return ListIter([Str(w) for w in s_.s.split()])


@model(r'^(core::)?char::methods::<impl char>::to_(upper|lower)case$|^char::to_(upper|lower)case$')
def m_char_case(ctx, args, callee):
    """char::to_uppercase / to_lowercase: an iterator over the (one to three) characters of the case mapping"""
    c = conc(args[0])
    if c is None:
        raise Unmodelled('case mapping of a symbolic char')
    t = chr(c).upper() if 'upper' in callee else chr(c).lower()
    return ListIter([BitVecVal(ord(x), 32) for x in t])


@model(r'^(core::)?str::<impl str>::eq_ignore_ascii_case$|^std::string::String::eq_ignore_ascii_case$')
def m_eq_ignore_ascii_case(ctx, args, callee):
    a = as_str(ctx, args[0]); b = as_str(ctx, args[1])
    if isinstance(a, SpecialStr) or isinstance(b, SpecialStr) or a.term is not None or b.term is not None:
        raise Unmodelled('eq_ignore_ascii_case on a special / z3 string')
    fold = lambda t: ''.join(c.lower() if c.isascii() else c for c in t)
    return lift_bool(ctx, lambda x, y: fold(x) == fold(y), a, b)


@model(r'^(core::)?str::<impl str>::char_indices$')
def m_char_indices(ctx, args, callee):
    s_ = as_str(ctx, args[0])
    if isinstance(s_, SpecialStr) or s_.s is None:
        raise Unmodelled('char_indices of symbolic string')
    out = []; off = 0
    for c in s_.s:
        out.append(Agg([BitVecVal(off, 64), BitVecVal(ord(c), 32)])); off += len(c.encode('utf-8'))
    it = ListIter(out)
    return it


# --- chars
@model(r'^(core::)?str::<impl str>::chars$')
def m_chars(ctx, args, callee):
    s_ = as_str(ctx, args[0])
    if isinstance(s_, SpecialStr):
        return s_.sop(ctx, 'chars', args, callee)
    if s_.s is None and s_.is_table:
        return TableChars(s_)
    if s_.s is None:
        raise Unmodelled('chars() of symbolic string')
    it = ListIter([BitVecVal(ord(c), 32) for c in s_.s])
    it.src = s_.s
    return it


@model(r'^(core::)?str::Chars::as_str$|^Chars::as_str$|^<Chars<.*>>::as_str$')
def m_chars_as_str(ctx, args, callee):
    it = _it(ctx, args[0])
    return Str(''.join(chr(conc(c)) for c in it.remaining()))


# --- integers
@model(r'^<(u8|u16|u32|u64|usize|i8|i16|i32|i64|isize) as (Ord|PartialOrd)>::(cmp|partial_cmp)$|^<&?(u8|u16|u32|u64|usize|i8|i16|i32|i64|isize) as (Ord|PartialOrd)>::(cmp|partial_cmp)$')
def m_int_cmp(ctx, args, callee):
    a = ctx.deref(args[0]); b = ctx.deref(args[1])
    ty = re.search(r'<&?(\w+) as', callee).group(1)
    r = ctx.binop('Cmp', a, b, ty)
    return some(r) if 'partial_cmp' in callee else r


@model(r'^<(u8|u16|u32|u64|usize|i8|i16|i32|i64|isize) as Ord>::(min|max)$|^std::cmp::(min|max)$|^core::cmp::(min|max)$')
def m_int_minmax(ctx, args, callee):
    a, b = args[0], args[1]
    if not (is_bv(a) and is_bv(b)):
        raise Unmodelled('min/max on %r' % (type(a).__name__,))
    m = re.search(r'<(\w+) as Ord>|::<(\w+)>', callee)
    ty = (m.group(1) or m.group(2)) if m else 'usize'
    sg = ty in SIGNED
    if callee.endswith('min'):
        return If((a <= b) if sg else ULE(a, b), a, b)
    return If((b >= a) if sg else UGE(b, a), b, a)   # max returns the second if equal


@model(r'^(core::num::)?<impl (i8|i16|i32|i64|isize)>::abs$')
def m_int_abs(ctx, args, callee):
    a = args[0]
    w = a.size()
    ctx.obligation(a != BitVecVal(-(1 << (w - 1)), w), 'attempt to negate with overflow (abs)')
    return If(a < 0, -a, a)


@model(r'^(core::num::)?<impl \w+>::(wrapping_add|wrapping_sub|wrapping_mul)$')
def m_wrapping(ctx, args, callee):
    a, b = args
    if 'add' in callee: return a + b
    if 'sub' in callee: return a - b
    return a * b


@model(r'^(core::num::)?<impl \w+>::(saturating_sub|saturating_add|saturating_abs)$')
def m_saturating(ctx, args, callee):
    ty = re.search(r'<impl (\w+)>', callee).group(1)
    w = INT_W[ty]; sg = ty in SIGNED
    a = args[0]
    lo = BitVecVal(-(1 << (w - 1)) if sg else 0, w); hi = BitVecVal(((1 << (w - 1)) - 1) if sg else ((1 << w) - 1), w)
    if callee.endswith('saturating_abs'):
        return If(a == lo, hi, If(a < 0, -a, a))
    b = args[1]
    if callee.endswith('saturating_sub'):
        if not sg:
            return If(ULT(a, b), BitVecVal(0, w), a - b)
        r = a - b
        ovf_pos = And(a >= 0, b < 0, r < 0)        # positive overflow
        ovf_neg = And(a < 0, b >= 0, r >= 0)
        return If(ovf_pos, hi, If(ovf_neg, lo, r))
    r = a + b
    if not sg:
        return If(ULT(r, a), hi, r)
    ovf_pos = And(a >= 0, b >= 0, r < 0)
    ovf_neg = And(a < 0, b < 0, r >= 0)
    return If(ovf_pos, hi, If(ovf_neg, lo, r))


@model(r'^<&?bool as Not>::not$')
def m_bool_not(ctx, args, callee):
    return Not(ctx.deref(args[0]))


@model(r'^(core::num::)?<impl \w+>::(checked_sub|checked_add)$')
def m_checked_arith(ctx, args, callee):
    a, b = args
    ty = re.search(r'<impl (\w+)>', callee).group(1)
    r = ctx.checked('Sub' if 'sub' in callee else 'Add', a, b, ty)
    return mk_bool_enum(Not(r.f[1]), r.f[0])


@model(r'^<&?(u8|u16|u32|u64|usize|i8|i16|i32|i64|isize) as (Add|Sub|Mul)<&?(u8|u16|u32|u64|usize|i8|i16|i32|i64|isize)>>::(add|sub|mul)$', 'int_arith_by_ref')
def m_int_arith_ref(ctx, args, callee):
    """integer + - * through references (debug-profile semantics: overflow panics)"""
    a = ctx.deref(args[0]); b = ctx.deref(args[1])
    ty = re.search(r'<&?(\w+) as', callee).group(1)
    op = {'add': 'Add', 'sub': 'Sub', 'mul': 'Mul'}[callee.rsplit('::', 1)[1]]
    r = ctx.checked(op, a, b, ty)
    ctx.obligation(Not(r.f[1]), 'attempt to %s with overflow' % op.lower())
    return r.f[0]


@model(r'^<Ordering as PartialEq>::(eq|ne)$|^<std::cmp::Ordering as PartialEq>::(eq|ne)$|^<(std::io::)?ErrorKind as PartialEq>::(eq|ne)$')
def m_ordering_eq(ctx, args, callee):
    a = ctx.deref(args[0]); b = ctx.deref(args[1])
    da = BitVecVal(a.d, 64) if isinstance(a.d, int) else a.d
    db = BitVecVal(b.d, 64) if isinstance(b.d, int) else b.d
    return (da != db) if callee.endswith('ne') else (da == db)


@model(r'^(std::cmp::)?Ordering::reverse$')
def m_ordering_reverse(ctx, args, callee):
    a = args[0]
    if isinstance(a.d, int):
        return EnumV(-a.d, {}, 'Ordering')
    return EnumV(simplify(-a.d), {}, 'Ordering')


@model(r'^(std::cmp::)?Ordering::then$')
def m_ordering_then(ctx, args, callee):
    a, b = args
    da = BitVecVal(a.d, 64) if isinstance(a.d, int) else a.d
    db = BitVecVal(b.d, 64) if isinstance(b.d, int) else b.d
    return EnumV(simplify(If(da == 0, db, da)), {}, 'Ordering')


@model(r'^(std::cmp::)?Ordering::then_with$')
def m_ordering_then_with(ctx, args, callee):
    a = args[0]
    da = BitVecVal(a.d, 64) if isinstance(a.d, int) else a.d
    if ctx.decide(da == 0):
        return ctx.call_closure(args[1], [])
    return a


@model(r'^(std::cmp::)?Ordering::(is_lt|is_le|is_gt|is_ge|is_eq|is_ne)$')
def m_ordering_is(ctx, args, callee):
    a = args[0]
    d = BitVecVal(a.d, 64) if isinstance(a.d, int) else a.d
    k = callee.rsplit('::', 1)[1]
    return {'is_lt': d == BitVecVal(-1, 64), 'is_le': d != 1, 'is_gt': d == 1, 'is_ge': d != BitVecVal(-1, 64),
            'is_eq': d == 0, 'is_ne': d != 0}[k]


@model(r'^<bool as (Ord|PartialOrd)>::')
def m_bool_cmp(ctx, args, callee):
    raise Unmodelled('bool cmp')


# --- process / printing: no observable effect on the properties unless a driver overrides them
@model(r'^(std::process::|process::)?exit$')
def m_exit(ctx, args, callee):
    raise Exit(conc(args[0]))


@model(r'^(std|core)::panicking::panic$|^(std|core)::panicking::panic_fmt$|^(std|core)::panicking::panic_display$'
       r'|^(std|core)::panicking::begin_panic$|^(core|std)::panicking::unreachable_display$|^(core|std)::panicking::assert_failed$'
       r'|^(core|std)::option::expect_failed$|^(core|std)::result::unwrap_failed$|^(core|std)::option::unwrap_failed$')
def m_panic(ctx, args, callee):
    raise Panic('explicit panic: ' + callee)
