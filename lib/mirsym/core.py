"""Symbolic executor for the crate's MIR (path-wise, replay-based forking, z3 as the deciding step).

Values
  z3 BitVec / Bool / FP terms        integers (two's complement, declared width), bool, f64
  Agg(fields)                        tuples, structs, arrays
  EnumV(discr, payload, ty)          enums; discr is an int or a z3 BitVec(64)
  Ref(cell, path)                    references / raw pointers / Box (BoxV) into Cells
  model objects (models_std.py)      Str, Seq (Vec/slice/VecDeque), Map, iterators, opaque services
"""
import re, time
import z3
from z3 import (BitVecVal, BitVecSort, BoolVal, BoolSort, Not, And, Or, If, ULT, ULE, UGT, UGE, UDiv, URem,
                SRem, LShR, Extract, SignExt, ZeroExt, is_bv_value, is_true, is_false, simplify, Float64,
                FPVal, RNE, RTZ, fpToFP, fpToFPUnsigned, fpToSBV, fpToUBV, fpIsNaN, fpGEQ, fpLT, fpEQ,
                fpLEQ, fpGT, fpAdd, fpSub, fpMul, fpDiv, fpRem, fpNeg, is_fp, is_bool, is_bv)
from . import mirparse as mp
from .mirparse import INT_W, SIGNED


class Agg:
    __slots__ = ('f', 'ty')

    def __init__(self, fields, ty=None):
        self.f = list(fields); self.ty = ty

    def __repr__(self):
        return 'Agg%s(%r)' % ('<%s>' % self.ty if self.ty else '', self.f)


class EnumV:
    __slots__ = ('d', 'p', 'ty')

    def __init__(self, discr, payload=None, ty=None):
        self.d, self.p, self.ty = discr, (payload or {}), ty

    def __repr__(self):
        return 'Enum<%s>(%r,%r)' % (self.ty, self.d, self.p)


class Cell:
    __slots__ = ('v',)

    def __init__(self, v=None):
        self.v = v


class LocalCell:
    __slots__ = ('frame', 'loc')

    def __init__(self, frame, loc):
        self.frame, self.loc = frame, loc

    @property
    def v(self):
        return self.frame[self.loc]

    @v.setter
    def v(self, x):
        self.frame[self.loc] = x


class Ref:
    __slots__ = ('cell', 'path')

    def __init__(self, cell, path=()):
        self.cell, self.path = cell, tuple(path)

    def __repr__(self):
        return 'Ref(%r)' % (self.path,)


class BoxV:
    """Box<T>: owns a cell"""
    __slots__ = ('cell',)

    def __init__(self, v):
        self.cell = v if isinstance(v, (Cell, LocalCell)) else Cell(v)

    def __repr__(self):
        return 'Box(%r)' % (self.cell.v,)


class Unit:
    def __repr__(self):
        return '()'


UNIT = Unit()


class FnItem:
    def __init__(self, text):
        self.text = text

    def __repr__(self):
        return 'FnItem(%s)' % self.text


class Closure:
    def __init__(self, loc, caps):
        self.loc, self.caps = loc, caps   # caps: Agg of captured values (in order)

    def __repr__(self):
        return 'Closure@%s' % self.loc


class Uninit:
    def __repr__(self):
        return '<uninit>'


UNINIT = Uninit()


class Panic(Exception):
    pass


class PathEnd(Exception):
    pass


class Unmodelled(Exception):
    pass


class Exit(Exception):
    """process::exit(status) reached"""
    def __init__(self, status):
        self.status = status


def bv(v, w):
    return BitVecVal(v, w)


def is_conc(v):
    return is_bv_value(v) or is_true(v) or is_false(v)


def conc(v):
    """python value of a concrete z3 term, else None"""
    if isinstance(v, bool) or isinstance(v, int):
        return v
    if is_bv_value(v):
        return v.as_long()
    if is_true(v):
        return True
    if is_false(v):
        return False
    if isinstance(v, z3.ExprRef):
        s = simplify(v)
        if is_bv_value(s):
            return s.as_long()
        if is_true(s):
            return True
        if is_false(s):
            return False
    return None


def sconc(v):
    """signed python value of a concrete bit-vector"""
    if is_bv_value(v):
        return v.as_signed_long()
    s = simplify(v)
    return s.as_signed_long() if is_bv_value(s) else None


def to_bool(c):
    if isinstance(c, bool):
        return BoolVal(c)
    return c


def clone_struct(v):
    """copy the aggregate skeleton (so that a later field write does not alias); model objects,
    references and solver terms are shared"""
    if isinstance(v, Agg):
        return Agg([clone_struct(x) for x in v.f], v.ty)
    if isinstance(v, EnumV):
        return EnumV(v.d, {k: [clone_struct(x) for x in p] for k, p in v.p.items()}, v.ty)
    return v


class Program:
    """the parsed dump + source type tables + callee resolution"""

    def __init__(self, mir_path, src_root):
        from .srcinfo import SrcInfo
        t = time.time()
        self.fns, self.allocs, self.text = mp.load(mir_path)
        self.src = SrcInfo(src_root)
        self.src_root = src_root
        self.by_inherent = {}   # (Type, method) -> [Fn]
        self.by_trait = {}      # (Trait, Type, method) -> [Fn]
        self.free = {}          # last segment -> [Fn]
        self.closures = {}      # location text -> Fn
        self.promoted = {}      # normalised name -> Fn
        self.statics = {}
        self._index()
        self.load_s = time.time() - t
        self.used_fns = {}

    def _index(self):
        for name, fl in self.fns.items():
            for f in fl:
                if f.kind == 'const':
                    key = re.sub(r'<impl at [^>]*>', '*', name)
                    self.promoted[key] = f
                    continue
                m = re.search(r'\{closure#\d+\}$', name)
                if m:
                    if f.args:
                        cm = re.search(r'\{closure@([^}]*)\}', f.args[0][1])
                        if cm:
                            self.closures[cm.group(1)] = f
                    continue
                im = re.search(r'<impl at ([^:>]+):(\d+):(\d+): (\d+):(\d+)>::(\w+)$', name)
                if im:
                    file, l, c, l2, c2, meth = im.groups()
                    info = self.src.impl_at(file, int(l), int(c), int(c2))
                    if info:
                        tr, ty = info
                        if tr is None:
                            self.by_inherent.setdefault((ty, meth), []).append(f)
                        else:
                            self.by_trait.setdefault((tr, ty, meth), []).append(f)
                    continue
                if '<impl at' in name:
                    continue
                self.free.setdefault(name.split('::')[-1], []).append(f)

    def simple_consts(self):
        """one-line items `const NAME: T = const VALUE;` of the dump, by last path segment"""
        if getattr(self, '_simple_consts', None) is None:
            d = {}
            for m in re.finditer(r'^const ([\w:]+): [^=\n]+ = const ([^\n]+);$', self.text, re.M):
                d.setdefault(m.group(1).rsplit('::', 1)[-1], []).append(m.group(2))
            self._simple_consts = d
        return self._simple_consts

    def resolve(self, callee):
        """callee text at a call site -> Fn defined in the dump, or None"""
        c = mp.strip_generics(callee).strip()
        m = re.match(r'^<(.*) as (.*)>::(\w+)$', c, re.S)
        if m:
            ty, tr, meth = m.groups()
            from .srcinfo import _last_seg, _trait_args
            ty = _last_seg(ty); tr = _last_seg(tr) + _trait_args(tr)
            fl = self.by_trait.get((tr, ty, meth))
            if fl:
                return fl[0]
            if tr == 'ToString' and meth == 'to_string':
                return None
            return None
        segs = c.split('::')
        if len(segs) >= 2:
            fl = self.by_inherent.get((segs[-2], segs[-1]))
            if fl and len(fl) == 1:
                return fl[0]
            if fl:
                return fl[0]
        fl = self.free.get(segs[-1])
        if fl:
            if len(fl) == 1:
                # a free function named like the call's last segment; demand module agreement if given
                if len(segs) == 1 or fl[0].name.endswith(c) or fl[0].name.split('::')[-2:] == segs[-2:]:
                    return fl[0]
                if segs[0] in ('std', 'core', 'alloc') or segs[-2][:1].isupper():
                    return None
                return fl[0]
            for f in fl:
                if f.name.endswith(c):
                    return f
            if len(segs) == 1:
                return fl[0]
        return None

    def find(self, type_name, method, trait=None):
        if trait:
            fl = self.by_trait.get((trait, type_name, method))
        else:
            fl = self.by_inherent.get((type_name, method))
        if not fl:
            if type_name is None:
                fl = self.free.get(method)
        if not fl:
            raise KeyError('function not found in MIR dump: %s::%s' % (type_name, method))
        return fl[0]

    def find_free(self, name):
        fl = self.free.get(name.split('::')[-1])
        if not fl:
            raise KeyError('free function not found in MIR dump: ' + name)
        for f in fl:
            if f.name.endswith(name):
                return f
        return fl[0]


def _peel_refs(f, k):
    def h(ctx, args, callee):
        out = []
        for a in args:
            for _ in range(k):
                if isinstance(a, Ref):
                    inner = ctx.project(a.cell.v, a.path)
                    if isinstance(inner, Ref):
                        a = inner
                    else:
                        break
            out.append(a)
        return ctx.call_fn(f, out)
    return h


class Exec:
    def __init__(self, prog, models, overrides=None, unwind=8, maxsteps=200000, solver_timeout_ms=20000):
        self.prog = prog
        self.models = models          # list of (compiled regex, handler, name)
        self.overrides = overrides or []
        self.unwind, self.maxsteps = unwind, maxsteps
        self.solver_timeout_ms = solver_timeout_ms
        self._dispatch = {}
        self.stats = {'paths': 0, 'solver_checks': 0, 'solver_s': 0.0, 'steps': 0, 'models_used': {},
                      'fns_executed': {}}
        self.unwind_for = {}     # fn-name regex -> bound

    def handler_for(self, callee):
        h = self._dispatch.get(callee)
        if h is not None:
            return h
        norm = mp.strip_generics(callee).strip()
        norm = re.sub(r' as (?:std|core|alloc)::(?:[a-z_0-9]+::)*', ' as ', norm)
        res = None
        for pat, fnc, name in self.overrides:
            if pat.search(norm):
                res = ('model', fnc, name); break
        if res is None:
            f = self.prog.resolve(callee)
            if f is not None:
                res = ('fn', f, f.name)
                m = re.match(r'^<((?:&(?:mut )?)+)', norm)
                if m:
                    # blanket impls on references (`impl PartialEq<&B> for &A`, Display for &T ...): peel the extra
                    # reference levels and call the impl of the referent
                    k = m.group(1).count('&')
                    res = ('model', _peel_refs(f, k), f.name + ' (through %d reference level(s))' % k)
        if res is None:
            for pat, fnc, name in self.models:
                if pat.search(norm):
                    res = ('model', fnc, name); break
        if res is None:
            res = ('none', None, norm)
        self._dispatch[callee] = res
        return res

    def explore(self, run, on_path, max_paths=100000, time_budget=None):
        """run(ctx) -> outcome value; on_path(ctx, outcome) is called for every path.
        outcome kinds: ('ret', value) ('panic', msg) ('end', reason) ('unmodelled', what) ('exit', status)"""
        work = [[]]
        t0 = time.time()
        n = 0
        while work:
            if n >= max_paths or (time_budget and time.time() - t0 > time_budget):
                return n, False
            dec = work.pop()
            ctx = Ctx(self, dec)
            try:
                res = run(ctx)
                outcome = ('ret', res)
            except Panic as e:
                outcome = ('panic', str(e))
            except PathEnd as e:
                outcome = ('end', str(e))
            except Unmodelled as e:
                outcome = ('unmodelled', str(e))
            except Exit as e:
                outcome = ('exit', e.status)
            work.extend(ctx.alts)
            self.stats['steps'] += ctx.steps
            if outcome == ('end', 'infeasible'):
                continue
            n += 1
            self.stats['paths'] += 1
            on_path(ctx, outcome)
        return n, True


class Ctx:
    def __init__(self, ex, decisions):
        self.ex = ex
        self.prog = ex.prog
        self.dec = list(decisions); self.pos = 0; self.alts = []
        self.pc = []
        self.solver = z3.Solver()
        self.solver.set('timeout', ex.solver_timeout_ms)
        self.nfresh = 0; self.steps = 0
        self.ghost = {}
        self.depth = 0
        self.trace = []
        self.unknown = False

    # ------------------------------------------------------------------ solver plumbing
    def fresh(self, name, sort):
        self.nfresh += 1
        return z3.Const('%s!%d' % (name, self.nfresh), sort)

    def fresh_bv(self, name, w):
        return self.fresh(name, BitVecSort(w))

    def fresh_bool(self, name):
        return self.fresh(name, BoolSort())

    def assume(self, c):
        c = to_bool(c)
        if is_true(c):
            return
        self.pc.append(c); self.solver.add(c)

    def check(self, *extra):
        t = time.time()
        self.solver.push()
        for c in extra:
            self.solver.add(to_bool(c))
        r = self.solver.check()
        self.solver.pop()
        self.ex.stats['solver_checks'] += 1
        self.ex.stats['solver_s'] += time.time() - t
        if r == z3.unknown:
            self.unknown = True
        return r

    def feasible(self, c):
        r = self.check(c)
        return r != z3.unsat

    def model(self, *extra):
        self.solver.push()
        for c in extra:
            self.solver.add(to_bool(c))
        r = self.solver.check()
        m = self.solver.model() if r == z3.sat else None
        self.solver.pop()
        return m

    def branch(self, options):
        """options: [(label, cond)]; returns the chosen label, queues the feasible alternatives"""
        opts = []
        for l, c in options:
            s = simplify(to_bool(c))
            if is_false(s):
                continue
            if is_true(s):
                # mutually exclusive options: a tautology decides (earlier ones are then infeasible or
                # were listed first on purpose)
                if not opts:
                    return l
            opts.append((l, s))
        return self._branch(opts)

    def _branch(self, opts):
        opts = [(l, c) for l, c in opts if not is_false(c)]
        if not opts:
            raise PathEnd('infeasible')
        if self.pos < len(self.dec):
            lab = self.dec[self.pos]; self.pos += 1
            for l, c in opts:
                if l == lab:
                    self.assume(c); return l
            raise PathEnd('replay divergence %r not in %r' % (lab, [l for l, _ in opts]))
        feas = [(l, c) for l, c in opts if self.feasible(c)]
        if not feas:
            raise PathEnd('infeasible')
        base = self.dec[:self.pos]
        if len(feas) == 1 and len(opts) >= 1:
            # only one way to go: still record, so that replays stay aligned
            l, c = feas[0]
            self.dec.append(l); self.pos += 1; self.assume(c)
            return l
        for l, c in feas[1:]:
            self.alts.append(base + [l])
        l, c = feas[0]
        self.dec.append(l); self.pos += 1; self.assume(c)
        return l

    def obligation(self, ok, msg):
        """panic obligation: fork into ok / panic"""
        ok = to_bool(ok)
        s = simplify(ok)
        if is_true(s):
            return
        if is_false(s):
            raise Panic(msg)
        lab = self.branch([('ok', s), ('panic', Not(s))])
        if lab == 'panic':
            raise Panic(msg)

    def decide(self, cond, tag='d'):
        """fork on a Boolean; returns python bool"""
        c = to_bool(cond)
        s = simplify(c)
        if is_true(s):
            return True
        if is_false(s):
            return False
        return self.branch([('T', s), ('F', Not(s))]) == 'T'

    def concretize(self, v, candidates):
        """fork over concrete candidate values of a bit-vector"""
        c = conc(v)
        if c is not None:
            return c
        lab = self.branch([(k, v == BitVecVal(k, v.size())) for k in candidates])
        return lab

    # ------------------------------------------------------------------ values
    def variant_index(self, ev, name):
        src = self.prog.src
        if ev.ty:
            i = src.variant_index(ev.ty, name)
            if i is not None:
                return i
        for std in ('Option', 'Result', 'Cow', 'ControlFlow'):
            i = src.variant_index(std, name)
            if i is not None and (not ev.ty):
                return i
        cands = src.find_variant(name)
        if len(cands) == 1:
            return src.variant_index(cands[0], name)
        raise Unmodelled('variant %s of %r' % (name, ev.ty))

    def project1(self, v, pr, frame):
        k = pr[0]
        if k == 'deref':
            if isinstance(v, Ref):
                return self.project(v.cell.v, v.path, frame)
            if isinstance(v, BoxV):
                return v.cell.v
            raise Unmodelled('deref of %r' % (type(v).__name__,))
        if k == 'field':
            if isinstance(v, Agg):
                return v.f[pr[1]]
            if isinstance(v, BoxV) and pr[1] == 0:
                return v      # Box.0 (Unique) .0 (NonNull) ... handled by passing the box through
            if hasattr(v, 'mir_field'):
                return v.mir_field(self, pr[1])
            raise Unmodelled('field %d of %r' % (pr[1], type(v).__name__))
        if k == 'downcast':
            if isinstance(v, EnumV):
                i = self.variant_index(v, pr[1]) if isinstance(pr[1], str) else pr[1]
                if i not in v.p:
                    v.p[i] = []
                return _Payload(v, i)
            raise Unmodelled('downcast of %r' % (type(v).__name__,))
        if k == 'index':
            idx = frame[pr[1]] if frame is not None and isinstance(pr[1], str) else pr[1]
            return self.index_read(v, idx)
        if k == 'cindex':
            if hasattr(v, 'items'):
                n = pr[1]
                return v.items[-n if pr[2] else n].v
            if isinstance(v, Agg):
                return v.f[-pr[1] if pr[2] else pr[1]]
        if k == 'idx':
            return v.items[pr[1]].v
        raise Unmodelled('projection %r on %r' % (pr, type(v).__name__))

    def project(self, v, proj, frame=None):
        for pr in proj:
            v = self.project1(v, pr, frame)
            if isinstance(v, _Payload) and False:
                pass
        return v

    def index_read(self, seq, idx):
        if isinstance(seq, Agg):
            i = conc(idx)
            if i is None:
                i = self.concretize(idx, range(len(seq.f)))
            self.obligation(BoolVal(i < len(seq.f)), 'index out of bounds')
            return seq.f[i]
        if hasattr(seq, 'index_read'):
            return seq.index_read(self, idx)
        raise Unmodelled('index into %r' % (type(seq).__name__,))

    def read(self, frame, place):
        loc, proj = place
        try:
            v = frame[loc]
        except KeyError:
            raise Unmodelled('read of unset local %s in %s' % (loc, frame['__fn'].name))
        for pr in proj:
            v = self.project1(v, pr, frame)
        if isinstance(v, _Payload):
            v = Agg(v.ev.p[v.i])
        return v

    def write(self, frame, place, val):
        loc, proj = place
        if not proj:
            frame[loc] = val
            return
        self._write_into(lambda: frame[loc], lambda x: frame.__setitem__(loc, x), list(proj), val, frame)

    def _write_into(self, get, setv, proj, val, frame):
        if not proj:
            setv(val); return
        pr = proj[0]; rest = proj[1:]
        cur = get()
        k = pr[0]
        if k == 'deref':
            if isinstance(cur, BoxV):
                return self._write_into(lambda: cur.cell.v, lambda x: setattr(cur.cell, 'v', x), rest, val, frame)
            if not isinstance(cur, Ref):
                raise Unmodelled('write through %r' % (type(cur).__name__,))
            cell = cur.cell
            return self._write_into(lambda: cell.v, lambda x: setattr(cell, 'v', x), list(cur.path) + rest, val, frame)
        if k == 'field':
            if isinstance(cur, Agg):
                n = pr[1]
                while len(cur.f) <= n:
                    cur.f.append(UNINIT)
                return self._write_into(lambda: cur.f[n], lambda x: cur.f.__setitem__(n, x), rest, val, frame)
            if cur is UNINIT or cur is None:
                a = Agg([]); setv(a)
                return self._write_into(get, setv, proj, val, frame)
            raise Unmodelled('field write on %r' % (type(cur).__name__,))
        if k == 'downcast':
            if isinstance(cur, EnumV):
                i = self.variant_index(cur, pr[1]) if isinstance(pr[1], str) else pr[1]
                pl = cur.p.setdefault(i, [])
                if not rest:
                    raise Unmodelled('write of whole payload')
                fpr = rest[0]; rest2 = rest[1:]
                n = fpr[1]
                while len(pl) <= n:
                    pl.append(UNINIT)
                return self._write_into(lambda: pl[n], lambda x: pl.__setitem__(n, x), rest2, val, frame)
            if cur is UNINIT or cur is None:
                ev = EnumV(None, {}, None); setv(ev)
                return self._write_into(get, setv, proj, val, frame)
            raise Unmodelled('downcast write on %r' % (type(cur).__name__,))
        if k in ('index', 'idx', 'cindex'):
            if k == 'index':
                idx = frame[pr[1]] if isinstance(pr[1], str) else pr[1]
                i = conc(idx)
            elif k == 'cindex':
                i = -pr[1] if pr[2] else pr[1]
            else:
                i = pr[1]
            if isinstance(cur, Agg):
                if i is None:
                    i = self.concretize(idx, range(len(cur.f)))
                return self._write_into(lambda: cur.f[i], lambda x: cur.f.__setitem__(i, x), rest, val, frame)
            if hasattr(cur, 'items'):
                if i is None:
                    i = self.concretize(idx, range(len(cur.items)))
                cell = cur.items[i]
                return self._write_into(lambda: cell.v, lambda x: setattr(cell, 'v', x), rest, val, frame)
        raise Unmodelled('write projection %r on %r' % (pr, type(cur).__name__))

    def mkref(self, frame, place):
        loc, proj = place
        last = -1
        for i, p in enumerate(proj):
            if p[0] == 'deref':
                last = i
        if last < 0:
            cell = frame.get('cell:' + loc)
            if cell is None:
                cell = LocalCell(frame, loc); frame['cell:' + loc] = cell
            return Ref(cell, self._norm_path(proj, frame, frame.get(loc)))
        base = self.read(frame, (loc, proj[:last]))
        if isinstance(base, BoxV):
            return Ref(base.cell, self._norm_path(proj[last + 1:], frame, base.cell.v))
        if not isinstance(base, Ref):
            from .models_std import Str as _Str
            if isinstance(base, _Str) and last == len(proj) - 1:
                return base          # `&*s` of a &str constant: text values stand for their own reference
            raise Unmodelled('reborrow through %r' % (type(base).__name__,))
        tgt = None
        try:
            tgt = self.project(base.cell.v, base.path)
        except Exception:
            tgt = None
        rest = self._norm_path(proj[last + 1:], frame, tgt)
        return Ref(base.cell, tuple(base.path) + tuple(rest))

    def _norm_path(self, proj, frame, base=None):
        out = []
        for p in proj:
            if p[0] == 'index':
                iv = frame[p[1]]
                i = conc(iv)
                if i is None:
                    # MIR checks bounds before it indexes: fork over the in-bounds positions
                    n = 16
                    if base is not None:
                        try:
                            cont = self.project(base, tuple(out))
                            n = len(cont.items) if hasattr(cont, 'items') else (len(cont.f) if isinstance(cont, Agg) else 16)
                        except Exception:
                            n = 16
                    i = self.concretize(iv, range(n))
                out.append(('idx', i))
            elif p[0] == 'field':
                out.append(('field', p[1]))
            else:
                out.append(p)
        return tuple(out)

    def deref(self, v):
        """read through a reference (or return the value itself)"""
        while isinstance(v, (Ref, BoxV)):
            if isinstance(v, BoxV):
                v = v.cell.v
            else:
                v = self.project(v.cell.v, v.path)
                if isinstance(v, _Payload):
                    v = Agg(v.ev.p[v.i])
        return v

    def store(self, ref, val):
        """write through a reference"""
        if isinstance(ref, BoxV):
            ref.cell.v = val; return
        cell = ref.cell
        self._write_into(lambda: cell.v, lambda x: setattr(cell, 'v', x), list(ref.path), val, None)

    # ------------------------------------------------------------------ constants / operands
    def const(self, c, frame=None):
        k = c[0]
        if k == 'int':
            return BitVecVal(c[1], INT_W[c[2]])
        if k == 'bool':
            return BoolVal(c[1])
        if k == 'unit':
            return UNIT
        if k == 'str':
            from .models_std import Str
            return Str(c[1])
        if k == 'bytes':
            from .models_std import Bytes
            return Bytes(c[1])
        if k == 'char':
            return BitVecVal(ord(c[1]), 32)
        if k == 'float':
            return FPVal(c[1], Float64())
        if k == 'zst':
            t = c[1]
            m = re.match(r'^\{closure@([^}]*)\}$', t)
            if m:
                return Closure(m.group(1), Agg([]))
            m = re.match(r'^fn\(.*\{(.*)\}$', t, re.S)
            if m:
                return FnItem(m.group(1))
            return UNIT
        if k == 'fnitem':
            return FnItem(c[1])
        if k == 'alloc':
            return self.alloc_const(c[1], c[2])
        if k == 'named':
            return self.named_const(c[1], frame)
        raise Unmodelled('const %r' % (c,))

    def alloc_const(self, alloc, ty):
        from .models_std import Str, Bytes
        ent = self.prog.allocs.get(alloc)
        if ent is None:
            raise Unmodelled('alloc ' + alloc)
        size, body, static_name = ent
        if static_name:
            # a `static` item: an opaque named object (models decide what dereferencing it yields)
            return Ref(Cell(('static', static_name)))
        # hex dump lines: "    0x00 │ 68 65 6c 6c 6f │ hello"
        data = bytearray()
        for line in body.split('\n'):
            m = re.match(r'^\s*(?:0x[0-9a-f]+ │ )?((?:[0-9a-f_]{2} ?|╾[^╼]*╼ ?|__ ?)+)│', line)
            if m:
                for tok in m.group(1).split():
                    if re.fullmatch(r'[0-9a-f]{2}', tok):
                        data.append(int(tok, 16))
                    else:
                        raise Unmodelled('alloc with pointers ' + alloc)
        if ty.strip() in ('&str',):
            return Str(bytes(data).decode('utf-8', 'replace'))
        return Ref(Cell(Bytes(bytes(data))))

    def named_const(self, text, frame=None):
        t = text.strip()
        m = re.search(r'::(promoted\[\d+\])$', t)
        if m and frame is not None:
            # a promoted constant belongs to the body that uses it
            fl = self.prog.fns.get(frame['__fn'].name + '::' + m.group(1))
            if fl:
                return self.call_fn(fl[0], [])
        m = re.match(r'^(.*::promoted\[\d+\])$', t)
        if m:
            key = re.sub(r'<impl at [^>]*>', '*', mp.strip_generics(m.group(1)))
            f = self.prog.promoted.get(key)
            if f is None:
                # promoted names at use sites omit generics; try suffix match
                for k, v in self.prog.promoted.items():
                    if k.endswith(key) or key.endswith(k):
                        f = v; break
            if f is None:
                raise Unmodelled('promoted ' + t)
            return self.call_fn(f, [])
        m = re.fullmatch(r'(?:std::|core::)?(?:num::<impl )?(i8|i16|i32|i64|isize|u8|u16|u32|u64|usize)>?::(MIN|MAX)', t)
        if m:
            w = INT_W[m.group(1)]; sg = m.group(1) in SIGNED
            v = (-(1 << (w - 1)) if sg else 0) if m.group(2) == 'MIN' else ((1 << (w - 1)) - 1 if sg else (1 << w) - 1)
            return BitVecVal(v, w)
        key = mp.strip_generics(t)
        for k, f in self.prog.promoted.items():
            if k == key or k.endswith('::' + key) or key.endswith('::' + k):
                if 'promoted[' not in k:
                    return self.call_fn(f, [])
        h = self.ex.handler_for('const ' + t)
        if h[0] == 'model':
            return h[1](self, [], t)
        last = key.rsplit('::', 1)[-1]
        if self.prog.src.structs.get(last) == []:
            return Agg([], last)         # the value of a unit struct
        sc = self.prog.simple_consts()
        if last in sc and len(sc[last]) == 1:
            return self.const(mp.parse_const(sc[last][0]), frame)
        raise Unmodelled('named const ' + t)

    def operand(self, frame, op):
        k = op[0]
        if k == 'const':
            return self.const(op[1], frame)
        v = self.read(frame, op[1])
        if isinstance(v, (Agg, EnumV)):
            return clone_struct(v)
        return v

    # ------------------------------------------------------------------ rvalues
    def rvalue(self, frame, rv):
        k = rv[0]
        if k == 'use':
            return self.operand(frame, rv[1])
        if k == 'ref':
            return self.mkref(frame, rv[1])
        if k == 'binop':
            a = self.operand(frame, rv[2]); b = self.operand(frame, rv[3])
            return self.binop(rv[1], a, b, rv[4])
        if k == 'checked':
            a = self.operand(frame, rv[2]); b = self.operand(frame, rv[3])
            return self.checked(rv[1], a, b, rv[4])
        if k == 'unop':
            a = self.operand(frame, rv[2])
            if rv[1] == 'Not':
                return Not(a) if is_bool(a) else ~a
            if rv[1] == 'Neg':
                return fpNeg(a) if is_fp(a) else -a
            if rv[1] == 'PtrMetadata':
                tgt = self.deref(a)
                if hasattr(tgt, 'length'):
                    return tgt.length(self)
                raise Unmodelled('PtrMetadata of %r' % (type(tgt).__name__,))
        if k == 'discr':
            v = self.read(frame, rv[1])
            if not isinstance(v, EnumV):
                if hasattr(v, 'as_enum'):
                    v = v.as_enum(self)
                else:
                    raise Unmodelled('discriminant of %r' % (type(v).__name__,))
            d = v.d
            return BitVecVal(d, 64) if isinstance(d, int) else d
        if k == 'cast':
            return self.cast(self.operand(frame, rv[1]), rv[2], rv[3], rv[4])
        if k == 'tuple':
            return Agg([self.operand(frame, x) for x in rv[1]])
        if k == 'array':
            return Agg([self.operand(frame, x) for x in rv[1]], 'array')
        if k == 'repeat':
            v = self.operand(frame, rv[1])
            m = re.match(r'^(?:const )?(\d+)(?:_usize)?$', rv[2])
            if not m:
                raise Unmodelled('repeat count ' + rv[2])
            return Agg([clone_struct(v) for _ in range(int(m.group(1)))], 'array')
        if k == 'adt_unit':
            return self.adt(rv[1], None, frame)
        if k == 'adt_tuple':
            return self.adt(rv[1], [self.operand(frame, x) for x in rv[2]], frame)
        if k == 'adt_struct':
            return self.adt(rv[1], [self.operand(frame, x) for _, x in rv[2]], frame, [n for n, _ in rv[2]])
        if k == 'closure':
            return Closure(rv[1], Agg([self.operand(frame, x) for _, x in rv[2]]))
        if k == 'len':
            v = self.read(frame, rv[1])
            return v.length(self)
        raise Unmodelled('rvalue %r' % (k,))

    def adt(self, path, fields, frame, names=None):
        p = mp.strip_generics(path).strip()
        p = re.sub(r"<'\w+>", '', p)
        segs = p.split('::')
        src = self.prog.src
        last = segs[-1]
        if len(segs) >= 2:
            ty = segs[-2]
            if ty == 'ErrorKind':
                import zlib
                return EnumV(zlib.crc32(last.encode()) & 0xffff, {}, 'ErrorKind')
            if ty == 'Ordering' and last in ('Less', 'Equal', 'Greater'):
                return EnumV({'Less': -1, 'Equal': 0, 'Greater': 1}[last], {}, 'Ordering')
            i = src.variant_index(ty, last)
            if i is not None:
                return EnumV(i, {i: list(fields or [])}, ty)
        # struct (named or tuple)
        if last in src.structs or fields is not None:
            h = self.ex.handler_for('adt ' + p)
            if h[0] == 'model':
                return h[1](self, fields or [], p)
            return Agg(list(fields or []), last)
        # unit struct
        return Agg([], last)

    def binop(self, op, a, b, ty):
        if hasattr(a, 'binop'):
            return a.binop(self, op, b, ty)
        if hasattr(b, 'rbinop'):
            return b.rbinop(self, op, a, ty)
        if is_fp(a) or is_fp(b):
            rm = RNE()
            t = {'Eq': lambda: fpEQ(a, b), 'Ne': lambda: Not(fpEQ(a, b)), 'Lt': lambda: fpLT(a, b),
                 'Le': lambda: fpLEQ(a, b), 'Gt': lambda: fpGT(a, b), 'Ge': lambda: fpGEQ(a, b),
                 'Add': lambda: fpAdd(rm, a, b), 'Sub': lambda: fpSub(rm, a, b), 'Mul': lambda: fpMul(rm, a, b),
                 'Div': lambda: fpDiv(rm, a, b), 'Rem': lambda: self.fp_rem(a, b)}
            return t[op]()
        if is_bool(a):
            t = {'Eq': lambda: a == b, 'Ne': lambda: a != b, 'Lt': lambda: And(Not(a), b), 'Le': lambda: Or(Not(a), b),
                 'Gt': lambda: And(a, Not(b)), 'Ge': lambda: Or(a, Not(b)), 'BitAnd': lambda: And(a, b),
                 'BitOr': lambda: Or(a, b), 'BitXor': lambda: z3.Xor(a, b)}
            return t[op]()
        if isinstance(a, EnumV) and isinstance(b, EnumV):
            da = BitVecVal(a.d, 64) if isinstance(a.d, int) else a.d
            db = BitVecVal(b.d, 64) if isinstance(b.d, int) else b.d
            return self.binop(op, da, db, 'isize')
        if not (is_bv(a) and is_bv(b)):
            raise Unmodelled('binop %s on %r, %r' % (op, type(a).__name__, type(b).__name__))
        signed = (ty in SIGNED)
        if op in ('Shl', 'Shr', 'ShlUnchecked', 'ShrUnchecked') and b.size() != a.size():
            b = ZeroExt(a.size() - b.size(), b) if b.size() < a.size() else Extract(a.size() - 1, 0, b)
        if op == 'Eq': return a == b
        if op == 'Ne': return a != b
        if op == 'Lt': return (a < b) if signed else ULT(a, b)
        if op == 'Le': return (a <= b) if signed else ULE(a, b)
        if op == 'Gt': return (a > b) if signed else UGT(a, b)
        if op == 'Ge': return (a >= b) if signed else UGE(a, b)
        if op in ('Add', 'AddUnchecked'): return a + b
        if op in ('Sub', 'SubUnchecked'): return a - b
        if op in ('Mul', 'MulUnchecked'): return a * b
        if op == 'Div': return (a / b) if signed else UDiv(a, b)
        if op == 'Rem': return SRem(a, b) if signed else URem(a, b)
        if op == 'BitAnd': return a & b
        if op == 'BitOr': return a | b
        if op == 'BitXor': return a ^ b
        if op in ('Shl', 'ShlUnchecked'): return a << b
        if op in ('Shr', 'ShrUnchecked'): return (a >> b) if signed else LShR(a, b)
        if op == 'Cmp':
            lt = (a < b) if signed else ULT(a, b)
            return EnumV(If(lt, BitVecVal(-1, 64), If(a == b, BitVecVal(0, 64), BitVecVal(1, 64))), {}, 'Ordering')
        raise Unmodelled('binop ' + op)

    def fp_rem(self, a, b):
        # Rust's % on f64 is fmod (truncated), z3's fpRem is IEEE remainder (round-to-nearest): model fmod
        q = z3.fpRoundToIntegral(RTZ(), fpDiv(RTZ(), a, b))
        return z3.fpFMA(RNE(), fpNeg(q), b, a)

    def checked(self, op, a, b, ty):
        if hasattr(a, 'checked'):
            return a.checked(self, op, b, ty)
        signed = ty in SIGNED
        if op == 'Add':
            r = a + b
            ok = And(z3.BVAddNoOverflow(a, b, signed), z3.BVAddNoUnderflow(a, b)) if signed else z3.BVAddNoOverflow(a, b, False)
        elif op == 'Sub':
            r = a - b
            ok = And(z3.BVSubNoOverflow(a, b), z3.BVSubNoUnderflow(a, b, True)) if signed else z3.BVSubNoUnderflow(a, b, False)
        else:
            r = a * b
            ok = And(z3.BVMulNoOverflow(a, b, signed), z3.BVMulNoUnderflow(a, b)) if signed else z3.BVMulNoOverflow(a, b, False)
        return Agg([r, Not(ok)])

    def cast(self, v, to, kind, from_ty):
        to = to.strip()
        if hasattr(v, 'cast'):
            return v.cast(self, to, kind, from_ty)
        if kind == 'IntToInt':
            if isinstance(v, EnumV):
                v = BitVecVal(v.d, 64) if isinstance(v.d, int) else v.d
                from_ty = 'isize'
            if is_bool(v):
                v = If(v, BitVecVal(1, 8), BitVecVal(0, 8)); from_ty = 'u8'
            w = INT_W.get(to)
            if w is None:
                raise Unmodelled('cast to ' + to)
            cw = v.size()
            if w == cw: return v
            if w < cw: return Extract(w - 1, 0, v)
            return SignExt(w - cw, v) if from_ty in SIGNED else ZeroExt(w - cw, v)
        if kind == 'IntToFloat':
            if to != 'f64':
                raise Unmodelled('cast to ' + to)
            return fpToFP(RNE(), v, Float64()) if from_ty in SIGNED else fpToFPUnsigned(RNE(), v, Float64())
        if kind == 'FloatToInt':
            w = INT_W[to]; sg = to in SIGNED
            lo = FPVal(float(-(1 << (w - 1)) if sg else 0), Float64())
            hi = FPVal(float((1 << (w - 1)) if sg else (1 << w)), Float64())
            convd = fpToSBV(RTZ(), v, BitVecSort(w)) if sg else fpToUBV(RTZ(), v, BitVecSort(w))
            mx = BitVecVal((1 << (w - 1)) - 1 if sg else (1 << w) - 1, w)
            mn = BitVecVal(-(1 << (w - 1)) if sg else 0, w)
            return If(fpIsNaN(v), BitVecVal(0, w), If(fpGEQ(v, hi), mx, If(fpLT(v, lo), mn, convd)))
        if kind in ('PointerCoercion', 'PtrToPtr', 'Transmute', 'Subtype', 'PointerExposeProvenance',
                    'PointerWithExposedProvenance', 'FnPtrToPtr'):
            return v
        if kind == 'FloatToFloat':
            return v
        raise Unmodelled('cast kind ' + kind)

    # ------------------------------------------------------------------ functions
    def unwind_bound(self, fn):
        for pat, n in self.ex.unwind_for.items():
            if re.search(pat, fn.name):
                return n
        return self.ex.unwind

    def call_fn(self, fn, args):
        st = self.ex.stats['fns_executed']
        st[fn.name] = st.get(fn.name, 0) + 1
        frame = {'__fn': fn}
        if len(args) != len(fn.args):
            # rust-call ABI for closures: (closure, (args...)) vs (closure, a, b)
            if len(fn.args) == len(args) + 0:
                pass
        for (a, t), v in zip(fn.args, args):
            frame[a] = v
        for loc, ty in fn.locals.items():
            # a capture-free closure is zero-sized: MIR never assigns its local, it only borrows it
            if isinstance(ty, str) and ty.startswith('{closure@'):
                cm = re.match(r'^\{closure@([^}]*)\}$', ty.strip())
                if cm and loc not in frame:
                    frame[loc] = Closure(cm.group(1), Agg([]))
        blocks = fn.blocks()
        bb = 'bb0'; visits = {}
        bound = self.unwind_bound(fn)
        self.depth += 1
        if self.depth > 60:
            self.depth -= 1
            raise PathEnd('UNWIND recursion ' + fn.name)
        try:
            while True:
                c = visits.get(bb, 0) + 1
                visits[bb] = c
                if c > bound:
                    raise PathEnd('UNWIND %s %s' % (fn.name, bb))
                nxt = None
                for st_ in blocks[bb]:
                    self.steps += 1
                    if self.steps > self.ex.maxsteps:
                        raise PathEnd('STEPS')
                    k = st_[0]
                    if k == 'assign':
                        self.write(frame, st_[1], self.rvalue(frame, st_[2]))
                    elif k == 'call':
                        args_v = [self.operand(frame, a) for a in st_[3]]
                        res = self.call(st_[2], args_v, frame)
                        if st_[4] is None:
                            raise PathEnd('diverging call returned: ' + st_[2])
                        self.write(frame, st_[1], res)
                        nxt = st_[4]; break
                    elif k == 'switch':
                        v = self.operand(frame, st_[1])
                        nxt = self.switch(v, st_[2]); break
                    elif k == 'goto':
                        nxt = st_[1]; break
                    elif k == 'return':
                        return frame.get('_0', UNIT)
                    elif k == 'drop':
                        nxt = st_[2]; break
                    elif k == 'assert':
                        cnd = self.operand(frame, st_[1])
                        ok = cnd if st_[2] else Not(cnd)
                        self.obligation(ok, 'assert: ' + st_[3] + ' @ ' + fn.name)
                        nxt = st_[4]; break
                    elif k == 'nop':
                        pass
                    elif k == 'unreachable':
                        raise PathEnd('unreachable')
                    elif k == 'resume':
                        raise Panic('resume')
                    elif k == 'setdiscr':
                        v = self.read(frame, st_[1])
                        v.d = st_[2]
                    else:
                        raise Unmodelled('stmt kind ' + k)
                if nxt is None:
                    raise Unmodelled('fallthrough in %s %s' % (fn.name, bb))
                bb = nxt
        except Panic as e:
            if not getattr(e, 'located', False):
                e.located = True
                e.site = (fn.name.split('>::')[-1], bb)
                e.args = ('%s [in %s %s]' % (e.args[0] if e.args else '', fn.name.split('>::')[-1], bb),)
            raise
        except Unmodelled as e:
            if not getattr(e, 'located', False):
                e.located = True
                e.args = ('%s [in %s %s]' % (e.args[0] if e.args else '', fn.name.split('>::')[-1], bb),)
            raise
        finally:
            self.depth -= 1

    def switch(self, v, targets):
        if isinstance(v, EnumV):
            v = BitVecVal(v.d, 64) if isinstance(v.d, int) else v.d
        if is_bool(v):
            c = conc(v)
            if c is not None:
                for kk, b in targets:
                    if kk is not None and (kk != 0) == c:
                        return b
                for kk, b in targets:
                    if kk is None:
                        return b
            opts = []; others = []
            for kk, b in targets:
                if kk is None: continue
                cnd = v if kk != 0 else Not(v)
                opts.append((b, cnd)); others.append(cnd)
            for kk, b in targets:
                if kk is None:
                    opts.append((b, Not(Or(others)) if others else BoolVal(True)))
            return self.branch(_merge_same_target(opts))
        if not is_bv(v):
            raise Unmodelled('switch on %r' % (type(v).__name__,))
        w = v.size()
        c = conc(v)
        if c is not None:
            for kk, b in targets:
                if kk is not None and (kk % (1 << w)) == c:
                    return b
            for kk, b in targets:
                if kk is None:
                    return b
            raise PathEnd('unreachable switch')
        opts = []; others = []
        for kk, b in targets:
            if kk is None: continue
            cnd = v == BitVecVal(kk, w)
            opts.append((b, cnd)); others.append(cnd)
        for kk, b in targets:
            if kk is None:
                opts.append((b, Not(Or(others)) if others else BoolVal(True)))
        return self.branch(_merge_same_target(opts))

    def call(self, callee, args, frame=None):
        h = self.ex.handler_for(callee)
        if h[0] == 'fn':
            return self.call_fn(h[1], args)
        if h[0] == 'model':
            mu = self.ex.stats['models_used']
            mu[h[2]] = mu.get(h[2], 0) + 1
            return h[1](self, args, callee)
        raise Unmodelled('call ' + h[2])

    def call_closure(self, clo, args):
        """invoke a closure / fn item value with positional args"""
        if isinstance(clo, Ref):
            clo = self.deref(clo)
        if isinstance(clo, FnItem):
            return self.call(clo.text, list(args))
        if isinstance(clo, Closure):
            f = self.prog.closures.get(clo.loc)
            if f is None:
                raise Unmodelled('closure body ' + clo.loc)
            first_ty = f.args[0][1].strip() if f.args else ''
            env = clo.caps
            if first_ty.startswith('&'):
                env = Ref(Cell(clo.caps))
            # closure MIR bodies take the arguments un-tupled after the environment
            return self.call_fn(f, [env] + list(args))
        if hasattr(clo, 'invoke'):
            return clo.invoke(self, args)
        raise Unmodelled('call of %r' % (type(clo).__name__,))


def _merge_same_target(opts):
    """`A | B => bb` lowers to two switch values with one target: the path label is the target, so the conditions are joined"""
    out = []; idx = {}
    for b, c in opts:
        if b in idx:
            out[idx[b]] = (b, Or(out[idx[b]][1], c))
        else:
            idx[b] = len(out); out.append((b, c))
    return out


class _Payload:
    """transient view of an enum variant's fields (so that `(x as V).n` projects into the payload)"""
    __slots__ = ('ev', 'i')

    def __init__(self, ev, i):
        self.ev, self.i = ev, i

    @property
    def f(self):
        return self.ev.p[self.i]


# make project1's 'field' on a payload view work
_orig_project1 = Ctx.project1


def _project1(self, v, pr, frame):
    if isinstance(v, _Payload):
        if pr[0] == 'field':
            return v.ev.p[v.i][pr[1]]
        v = Agg(v.ev.p[v.i])
    return _orig_project1(self, v, pr, frame)


Ctx.project1 = _project1


def some(v, ty='Option'):
    return EnumV(1, {1: [v]}, ty)


def none(ty='Option'):
    return EnumV(0, {0: []}, ty)


def ok(v):
    return EnumV(0, {0: [v]}, 'Result')


def err(v):
    return EnumV(1, {1: [v]}, 'Result')


def mk_bool_enum(cond_some, payload, ty='Option'):
    """Option whose presence is a solver Boolean"""
    c = conc(cond_some)
    if c is True:
        return some(payload, ty)
    if c is False:
        return none(ty)
    return EnumV(If(cond_some, BitVecVal(1, 64), BitVecVal(0, 64)), {1: [payload], 0: []}, ty)
