"""Shared protocol code: scratch copies of /repo's working tree, the MIR dump (regenerated from the
current source; cached by content hash), native builds for replay, evidence, known findings."""
import os, sys, json, hashlib, subprocess, shutil, time, fcntl, tempfile, re

VERIF = os.path.dirname(os.path.dirname(os.path.abspath(__file__)))
REPO = os.environ.get('VERIF_REPO', '/repo')
CACHE = os.path.join(VERIF, '.cache')
SCRATCH_ROOT = os.environ.get('VERIF_SCRATCH', '/var/tmp/verif-scratch')
ENV = dict(os.environ, CARGO_NET_OFFLINE='true', CARGO_TERM_COLOR='never')


def log(*a):
    print(*a, file=sys.stderr, flush=True)


def repo_files():
    out = []
    for top in ('src', 'Cargo.toml', 'Cargo.lock', 'resources', 'docs/usage.md'):
        p = os.path.join(REPO, top)
        if os.path.isfile(p):
            out.append(p)
        elif os.path.isdir(p):
            for dp, dn, fn in os.walk(p):
                dn.sort()
                for f in sorted(fn):
                    out.append(os.path.join(dp, f))
    return out


_hash = None


def repo_hash():
    """content hash of everything a build of /repo's working tree depends on"""
    global _hash
    if _hash is None:
        h = hashlib.sha256()
        for p in repo_files():
            h.update(os.path.relpath(p, REPO).encode() + b'\0')
            with open(p, 'rb') as f:
                h.update(f.read())
            h.update(b'\0')
        _hash = h.hexdigest()[:20]
    return _hash


class Lock:
    def __init__(self, name):
        os.makedirs(CACHE, exist_ok=True)
        self.path = os.path.join(CACHE, name + '.lock')

    def __enter__(self):
        self.f = open(self.path, 'w')
        fcntl.flock(self.f, fcntl.LOCK_EX)
        return self

    def __exit__(self, *a):
        fcntl.flock(self.f, fcntl.LOCK_UN)
        self.f.close()


def sync_tree(dst):
    """copy /repo's working tree (no target/, no .git) to dst, deleting stale files"""
    os.makedirs(dst, exist_ok=True)
    # by content, WITHOUT preserving modification times: a file whose content changes must look newer than the last build, or
    # cargo's mtime-based freshness check keeps the previous tree's object code (a source copied back with its older time stamp)
    subprocess.run(['rsync', '-rlpgoD', '--checksum', '--delete', '--exclude', 'target', '--exclude', '.git', '--exclude', '/verif_*',
                    REPO + '/', dst + '/'], check=True)


def _prune(dirpath, keep):
    try:
        ents = sorted(os.listdir(dirpath), key=lambda e: os.path.getmtime(os.path.join(dirpath, e)))
    except FileNotFoundError:
        return
    for e in ents[:-keep] if len(ents) > keep else []:
        p = os.path.join(dirpath, e)
        shutil.rmtree(p, ignore_errors=True) if os.path.isdir(p) else os.unlink(p)


def get_mir():
    """-> (mir dump path, source snapshot dir) for /repo's current working tree.
    `cargo +nightly rustc -- -Zunpretty=mir` on a copy of the tree; one dump per content hash."""
    h = repo_hash()
    d = os.path.join(CACHE, 'mir', h)
    mir = os.path.join(d, 'fselect.mir')
    src = os.path.join(d, 'tree')
    if os.path.exists(os.path.join(d, 'ok')):
        return mir, src, 0.0
    with Lock('mir'):
        if os.path.exists(os.path.join(d, 'ok')):
            return mir, src, 0.0
        t = time.time()
        os.makedirs(d, exist_ok=True)
        work = os.path.join(SCRATCH_ROOT, 'mir-src')
        sync_tree(work)
        # make sure cargo re-runs rustc even if only mtimes differ
        os.utime(os.path.join(work, 'src', 'main.rs'))
        env = dict(ENV, CARGO_TARGET_DIR=os.path.join(CACHE, 'target-mir'))
        with open(mir + '.tmp', 'w') as out:
            p = subprocess.run(['cargo', '+nightly', 'rustc', '--offline', '--bin', 'fselect', '--', '-Zunpretty=mir',
                                '-C', 'debug-assertions=off', '-C', 'overflow-checks=on'],
                               cwd=work, env=env, stdout=out, stderr=subprocess.PIPE, text=True)
        if p.returncode != 0 or os.path.getsize(mir + '.tmp') < 1000:
            log(p.stderr[-4000:])
            raise BuildError('MIR dump failed (does the tree compile?)')
        os.replace(mir + '.tmp', mir)
        if os.path.exists(src):
            shutil.rmtree(src)
        shutil.copytree(work, src, ignore=shutil.ignore_patterns('target', 'resources'))
        open(os.path.join(d, 'ok'), 'w').write(str(time.time()))
        _prune(os.path.join(CACHE, 'mir'), 6)
        return mir, src, time.time() - t


class BuildError(Exception):
    pass


def native_binary(release=False):
    """build fselect from /repo's current working tree (dev profile by default) -> path of the executable"""
    h = repo_hash()
    prof = 'release' if release else 'debug'
    d = os.path.join(CACHE, 'bin', h)
    exe = os.path.join(d, 'fselect-' + prof)
    if os.path.exists(exe):
        return exe
    with Lock('native'):
        if os.path.exists(exe):
            return exe
        os.makedirs(d, exist_ok=True)
        work = os.path.join(SCRATCH_ROOT, 'native-src')
        sync_tree(work)
        os.utime(os.path.join(work, 'src', 'main.rs'))      # a cache miss always recompiles the crate (never trust cargo's mtime freshness across trees)
        env = dict(ENV, CARGO_TARGET_DIR=os.path.join(CACHE, 'target-native'))
        cmd = ['cargo', 'build', '--offline', '--bin', 'fselect'] + (['--release'] if release else [])
        if release:
            env['CARGO_PROFILE_RELEASE_LTO'] = 'off'
        p = subprocess.run(cmd, cwd=work, env=env, stdout=subprocess.PIPE, stderr=subprocess.STDOUT, text=True)
        if p.returncode != 0:
            log(p.stdout[-4000:])
            raise BuildError('native build failed')
        shutil.copy2(os.path.join(CACHE, 'target-native', prof, 'fselect'), exe + '.tmp')
        os.replace(exe + '.tmp', exe)
        _prune(os.path.join(CACHE, 'bin'), 6)
    return exe


def native_test_binary(tag, appends, subs=None):
    """build the crate's test harness with extra `#[cfg(test)]` modules appended to source files of a scratch
    copy. appends: {relative source file: rust text}. subs: {relative source file: [(old text, new text)]} — textual
    substitutions on the scratch copy, used ONLY to pin an environment input (the clock) to the value a counterexample names.
    -> path of the test executable (cached per tree+text)"""
    h = hashlib.sha256((repo_hash() + json.dumps(appends, sort_keys=True) + json.dumps(subs or {}, sort_keys=True)).encode()).hexdigest()[:20]
    d = os.path.join(CACHE, 'testbin')
    exe = os.path.join(d, '%s-%s' % (tag, h))
    if os.path.exists(exe):
        return exe
    with Lock('native'):
        if os.path.exists(exe):
            return exe
        os.makedirs(d, exist_ok=True)
        work = os.path.join(SCRATCH_ROOT, 'native-src')
        sync_tree(work)
        for rel, pairs in (subs or {}).items():
            src = open(os.path.join(work, rel)).read()
            for a, b in pairs:
                if a not in src:
                    sync_tree(work)
                    raise BuildError('substitution anchor %r not found in %s' % (a, rel))
                src = src.replace(a, b)
            open(os.path.join(work, rel), 'w').write(src)
        for rel, text in appends.items():
            with open(os.path.join(work, rel), 'a') as f:
                f.write('\n' + text + '\n')
        os.utime(os.path.join(work, 'src', 'main.rs'))
        env = dict(ENV, CARGO_TARGET_DIR=os.path.join(CACHE, 'target-native'))
        p = subprocess.run(['cargo', 'test', '--offline', '--no-run', '--message-format=json', '--bin', 'fselect'],
                           cwd=work, env=env, stdout=subprocess.PIPE, stderr=subprocess.PIPE, text=True)
        # restore the pristine tree for the next user of the directory
        sync_tree(work)
        if p.returncode != 0:
            log(p.stderr[-6000:])
            raise BuildError('native test build failed for ' + tag)
        path = None
        for line in p.stdout.splitlines():
            try:
                j = json.loads(line)
            except ValueError:
                continue
            if j.get('reason') == 'compiler-artifact' and j.get('executable') and j.get('profile', {}).get('test'):
                path = j['executable']
        if not path:
            raise BuildError('test executable not found')
        shutil.copy2(path, exe + '.tmp')
        os.replace(exe + '.tmp', exe)
        _prune(d, 40)
    return exe


def run_native_test(exe, test_name, env=None, timeout=120):
    e = dict(os.environ)
    e.update(env or {})
    p = subprocess.run([exe, '--exact', test_name, '--nocapture', '--test-threads', '1'], env=e,
                       stdout=subprocess.PIPE, stderr=subprocess.PIPE, text=True, timeout=timeout)
    return p.returncode, p.stdout, p.stderr


# ------------------------------------------------------------------------------------ CLI replay
def build_tree(root, spec):
    """spec: {relpath: {'kind': 'file'|'dir'|'symlink'|'fifo', 'size': n, 'content': str, 'mode': int,
    'target': str, 'mtime': epoch}}"""
    for rel in sorted(spec, key=lambda r: r.count('/')):
        ent = spec[rel]
        p = os.path.join(root, rel)
        os.makedirs(os.path.dirname(p), exist_ok=True)
        k = ent.get('kind', 'file')
        if k == 'dir':
            os.makedirs(p, exist_ok=True)
        elif k == 'symlink':
            os.symlink(ent['target'], p)
        elif k == 'fifo':
            os.mkfifo(p)
        else:
            with open(p, 'wb') as f:
                if 'content' in ent:
                    c = ent['content']
                    f.write(c.encode() if isinstance(c, str) else bytes(c))
                elif ent.get('size'):
                    f.truncate(ent['size'])
        if 'mode' in ent and k != 'symlink':
            os.chmod(p, ent['mode'])
        if 'mtime_ns' in ent and k != 'symlink':
            os.utime(p, ns=(ent['mtime_ns'], ent['mtime_ns']))
        elif 'mtime' in ent and k != 'symlink':
            os.utime(p, (ent['mtime'], ent['mtime']))


def run_cli(exe, argv, tree=None, cwd_rel='.', timeout=10, stdin=None, env=None):
    """run the real binary on a freshly built tree; -> dict(status, stdout, stderr, timed_out)"""
    d = tempfile.mkdtemp(prefix='verif-cli-', dir=SCRATCH_ROOT if os.path.isdir(SCRATCH_ROOT) else None)
    try:
        if tree:
            build_tree(d, tree)
        e = dict(os.environ, HOME=d, XDG_CONFIG_HOME=os.path.join(d, '.cfg'), TZ='UTC', NO_COLOR='1')
        e.update(env or {})
        try:
            p = subprocess.run([exe] + list(argv), cwd=os.path.join(d, cwd_rel), env=e, stdin=subprocess.DEVNULL,
                               stdout=subprocess.PIPE, stderr=subprocess.PIPE, timeout=timeout)
            return {'status': p.returncode, 'stdout': p.stdout.decode('utf-8', 'replace'),
                    'stderr': p.stderr.decode('utf-8', 'replace'), 'timed_out': False, 'root': d}
        except subprocess.TimeoutExpired as te:
            return {'status': None, 'stdout': (te.stdout or b'').decode('utf-8', 'replace'),
                    'stderr': (te.stderr or b'').decode('utf-8', 'replace'), 'timed_out': True, 'root': d}
    finally:
        subprocess.run(['chmod', '-R', 'u+rwx', d], stderr=subprocess.DEVNULL)
        shutil.rmtree(d, ignore_errors=True)


# ------------------------------------------------------------------------------------ findings / evidence
def load_known_findings():
    p = os.path.join(VERIF, 'known_findings.json')
    if not os.path.exists(p):
        return {'findings': [], 'fixed': []}
    return json.load(open(p))


def write_evidence(pid, ev):
    # development runs against a scratch copy (VERIF_REPO) can keep their evidence out of the committed directory
    edir = os.environ.get('VERIF_EVIDENCE_DIR') or os.path.join(VERIF, 'evidence')
    os.makedirs(edir, exist_ok=True)
    p = os.path.join(edir, pid + '.json')
    with open(p + '.tmp', 'w') as f:
        json.dump(ev, f, indent=1, default=str)
    os.replace(p + '.tmp', p)


def write_replay(pid, obj):
    os.makedirs(os.path.join(VERIF, 'replays'), exist_ok=True)
    h = hashlib.sha1(json.dumps(obj, sort_keys=True, default=str).encode()).hexdigest()[:10]
    p = os.path.join(VERIF, 'replays', '%s-%s.json' % (pid, h))
    with open(p, 'w') as f:
        json.dump(obj, f, indent=1, default=str)
    return p


def native_unit(tag, rel_file, module_text, test_path, input_text, timeout=120, subs=None):
    """append a #[cfg(test)] module to one source file of a scratch copy, run one test of it with VERIF_INPUT set;
    -> (exit status, list of lines printed after the VERIF_OUT marker)"""
    exe = native_test_binary(tag, {rel_file: module_text}, subs)
    rc, out, err = run_native_test(exe, test_path, env={'VERIF_INPUT': input_text}, timeout=timeout)
    lines = [l.split('VERIF_OUT ', 1)[1] for l in out.splitlines() if 'VERIF_OUT ' in l]
    return rc, lines, out + err
