"""C13 — date literals denote intervals; comparisons partition time consistently.

  table      the DateTime arm of the real Searcher::conforms (shared with C02): =, !=, <, >, <=, >= against [a, b] for all
             64-bit t, a <= b; exactly one of <, =, > holds
  literal    the real util::datetime::parse_datetime from bb0 with DATE_REGEX.captures modelled: which optional groups are
             present and all six numeric fields are symbolic; chrono by contract (with_hour/minute/second -> None outside their
             range, with_ymd_and_hms -> Single or None). Result: start = (h|0, m|0, s|0), finish = (h|23, m|59, s|59) of the day
             named; no panic for any field value
  relative   today / yesterday / +N / -N under a symbolic clock: the whole local day
"""
import z3
from z3 import BitVecVal, BoolVal, Not, And, Or, If, ULT, ULE, UGE
from mirsym.core import Agg, EnumV, Cell, Ref, UNIT, some, none, ok, err, conc, Unmodelled
from mirsym.models_std import Str, as_str, SpecialStr
from mirsym.models_fmt import NumStr
from mirsym.models_ext import DateTimeV, RegexV
from drivers import evalcore as E
import common, time, re


class DateC(DateTimeV):
    """chrono NaiveDate / NaiveDateTime / DateTime<Local> with explicit components: day (days since epoch), h, m, s"""
    __slots__ = ('day', 'h', 'm', 's')

    def __init__(self, day, h, m, s):
        self.day, self.h, self.m, self.s = day, h, m, s
        DateTimeV.__init__(self, day * 86400 + z3.ZeroExt(32, h) * 3600 + z3.ZeroExt(32, m) * 60 + z3.ZeroExt(32, s))

    def clone_model(self, ctx):
        return self


class DateLit(SpecialStr):
    """a text that DATE_REGEX matches: groups 1,3,5 (+ optional 6,7,8) with symbolic numeric values"""
    __slots__ = ('fields', 'present')

    def __init__(self, fields, present):
        Str.__init__(self)
        self.fields, self.present = fields, present

    def sop(self, ctx, name, args, callee, *extra):
        if name == 'len':
            return BitVecVal(10, 64)
        if name == 'starts_with':
            return BoolVal(False)
        raise Unmodelled('%s on a date literal' % name)

    def eq_hook(self, ctx, other):
        if isinstance(other, DateLit):
            return BoolVal(other is self)
        return BoolVal(False)       # a text matching DATE_REGEX is none of the keywords it is compared with

    def __repr__(self):
        return 'DateLit'


def u32(x):
    return BitVecVal(x, 32)


def models():
    out = []

    def reg(pat, name):
        def deco(f):
            out.append((pat, f, name)); return f
        return deco

    @reg(r'^<LazyLock<regex::Regex> as Deref>::deref$|^<LazyLock<Regex> as Deref>::deref$', 'regex:static(deref)')
    def lazy(ctx, args, callee):
        return Ref(Cell(RegexV(Str('<static regex>'))))

    @reg(r'^regex::Regex::captures$|^Regex::captures$', 'regex:captures(DATE_REGEX)')
    def captures(ctx, args, callee):
        s = ctx.deref(args[1])
        if isinstance(s, DateLit):
            return some(('captures', s))
        if isinstance(s, Str) and s.s is not None:
            import re
            if re.search(r'(\d{4})(-|:)(\d{1,2})(-|:)(\d{1,2}) ?(\d{1,2})?:?(\d{1,2})?:?(\d{1,2})?', s.s):
                raise Unmodelled('captures of a concrete date text')
            return none()
        raise Unmodelled('captures of %r' % (s,))

    @reg(r'^<regex::Captures<\'_> as (std::ops::)?Index<usize>>::index$', 'regex:Captures[i]')
    def cap_index(ctx, args, callee):
        c = ctx.deref(args[0]); i = conc(args[1])
        return NumStr(c[1].fields[i], False)

    @reg(r'^regex::Captures::get$', 'regex:Captures::get')
    def cap_get(ctx, args, callee):
        c = ctx.deref(args[0]); i = conc(args[1])
        if ctx.decide(c[1].present[i]):
            return some(('match', c[1].fields[i]))
        return none()

    @reg(r'^regex::Match::as_str$', 'regex:Match::as_str')
    def match_as_str(ctx, args, callee):
        m = ctx.deref(args[0])
        return NumStr(m[1], False)

    @reg(r'^<chrono::Local as TimeZone>::with_ymd_and_hms$', 'chrono:with_ymd_and_hms(Single | None)')
    def ymd(ctx, args, callee):
        y, mo, d, h, mi, s = args[1:7]
        valid = ctx.ghost.setdefault('valid_ymd', ctx.fresh_bool('valid_ymd'))
        ctx.ghost['ymd_args'] = (y, mo, d, h, mi, s)
        if 'day_of_ymd' not in ctx.ghost:
            ctx.ghost['day_of_ymd'] = ctx.fresh_bv('day_of_ymd', 64)
            ctx.assume(And(ctx.ghost['day_of_ymd'] >= -1000000, ctx.ghost['day_of_ymd'] <= 4000000))   # years 0..9999
        day = ctx.ghost['day_of_ymd']
        if ctx.decide(valid):
            # chrono: LocalResult { Single(T), Ambiguous(T, T), None }
            return EnumV(0, {0: [DateC(day, h, mi, s)]}, 'LocalResult')
        return EnumV(2, {2: []}, 'LocalResult')

    @reg(r'^chrono::DateTime::naive_local$|^chrono::DateTime::date_naive$', 'chrono:naive_local/date_naive')
    def naive(ctx, args, callee):
        d = ctx.deref(args[0])
        if 'date_naive' in callee:
            return DateC(d.day, u32(0), u32(0), u32(0))
        return d

    @reg(r'^<NaiveDateTime as Timelike>::with_(hour|minute|second)$', 'chrono:with_hour/minute/second')
    def with_x(ctx, args, callee):
        d = ctx.deref(args[0]); v = args[1]
        lim = 24 if callee.endswith('hour') else 60
        if not ctx.decide(ULT(v, u32(lim))):
            return none()
        if callee.endswith('hour'):
            return some(DateC(d.day, v, d.m, d.s))
        if callee.endswith('minute'):
            return some(DateC(d.day, d.h, v, d.s))
        return some(DateC(d.day, d.h, d.m, v))

    @reg(r'^<NaiveDateTime as Timelike>::(hour|minute|second)$', 'chrono:hour/minute/second')
    def get_x(ctx, args, callee):
        d = ctx.deref(args[0])
        return d.h if callee.endswith('hour') else (d.m if callee.endswith('minute') else d.s)

    @reg(r'^chrono::Local::now$', 'chrono:Local::now(symbolic clock)')
    def now(ctx, args, callee):
        if 'now' not in ctx.ghost:
            day = ctx.fresh_bv('today', 64); h = ctx.fresh_bv('now_h', 32); m = ctx.fresh_bv('now_m', 32); s = ctx.fresh_bv('now_s', 32)
            ctx.assume(And(ULT(h, u32(24)), ULT(m, u32(60)), ULT(s, u32(60)), day >= 0, day < 100000))
            ctx.ghost['now'] = DateC(day, h, m, s)
        return ctx.ghost['now']

    @reg(r'^NaiveDate::and_hms_opt$', 'chrono:and_hms_opt')
    def and_hms(ctx, args, callee):
        d = ctx.deref(args[0]); h, m, s = args[1:4]
        if ctx.decide(And(ULT(h, u32(24)), ULT(m, u32(60)), ULT(s, u32(60)))):
            return some(DateC(d.day, h, m, s))
        return none()

    @reg(r'^TimeDelta::try_days$|^TimeDelta::days$', 'chrono:TimeDelta::days (try_days: None beyond +-i64::MAX milliseconds; days: panics there)')
    def days(ctx, args, callee):
        v = args[0]
        lim = BitVecVal(((1 << 63) - 1) // 86400000, 64)
        fits = And(v <= lim, v >= -lim)
        if 'try_days' in callee:
            return some(('days', v)) if ctx.decide(fits) else none()
        ctx.obligation(fits, 'TimeDelta::days out of bounds')
        return ('days', v)

    @reg(r'^NaiveDate::checked_(add|sub)_signed$', 'chrono:NaiveDate::checked_add_signed (None outside the years chrono can represent)')
    def checked_add(ctx, args, callee):
        d = ctx.deref(args[0]); n = args[1][1]
        r = d.day + n if 'add' in callee else d.day - n
        span = BitVecVal(262000 * 365, 64)
        okc = And(n <= span, n >= -span, r <= span, r >= -span)
        if ctx.decide(okc):
            return some(DateC(r, d.h, d.m, d.s))
        return none()

    @reg(r'^<NaiveDate as (Sub|Add)<TimeDelta>>::(sub|add)$', 'chrono:NaiveDate +/- days (documented: panics when the date leaves the calendar)')
    def date_arith(ctx, args, callee):
        d = ctx.deref(args[0]); n = args[1][1]
        r = d.day - n if callee.endswith('sub') else d.day + n
        span = BitVecVal(262000 * 365, 64)
        ctx.obligation(And(n <= span, n >= -span, r <= span, r >= -span), '`NaiveDate + TimeDelta` overflowed')
        return DateC(r, d.h, d.m, d.s)

    @reg(r'^parse_date_string$|^chrono_english::parse_date_string$', 'chrono-english:parse_date_string (Ok(some instant of its own choosing) | Err; contract: does not panic)')
    def pds(ctx, args, callee):
        if ctx.decide(ctx.fresh_bool('chrono_english_ok')):
            d = ctx.fresh_bv('ce_day', 64)
            ctx.assume(And(d >= 0, d < 100000))
            return ok(DateC(d, ctx.fresh_bv('ce_h', 32) & 15, ctx.fresh_bv('ce_m', 32) & 31, ctx.fresh_bv('ce_s', 32) & 31))
        return err(Str('bad date'))

    return out


def cli_replay_literal(lit, expect_crash=True):
    def rep():
        exe = common.native_binary()
        tree = {'f': {'size': 1, 'mtime': 1577880000}}
        r = common.run_cli(exe, ['name', 'from', '.', 'where', 'modified', '=', "'%s'" % lit], tree, timeout=5)
        bad = r['timed_out'] or r['status'] not in (0, 1, 2)
        return bad, "where modified = '%s' -> status %s %s" % (lit, r['status'], r['stderr'].strip()[:160])
    return rep


def fam_literal(sess):
    prog = sess.prog
    fam = 'literal'
    ex = sess.executor(models(), unwind=6)
    pd = prog.find_free('parse_datetime')
    box = {'ok': 0, 'err': 0}
    viol = {}

    def run(ctx):
        names = {1: 'year', 3: 'month', 5: 'day', 6: 'hour', 7: 'minute', 8: 'second'}
        fields = {i: ctx.fresh_bv(n, 32) for i, n in names.items()}
        ctx.assume(ULT(fields[1], u32(10000)))
        for i in (3, 5, 6, 7, 8):
            ctx.assume(ULT(fields[i], u32(100)))          # \d{1,2}
        present = {6: ctx.fresh_bool('has_hour'), 7: ctx.fresh_bool('has_minute'), 8: ctx.fresh_bool('has_second')}
        # the regex fills optional groups left to right
        ctx.assume(z3.Implies(present[7], present[6])); ctx.assume(z3.Implies(present[8], present[7]))
        lit = DateLit(fields, present)
        res = ctx.call_fn(pd, [lit])
        return fields, present, res

    def on_path(ctx, out):
        name = 'literal'
        if out[0] == 'panic':
            import re
            m = ctx.model()
            # which component is out of range on this path?
            vals = {}
            site = re.search(r'\[in (\S+) (bb\d+)\]', out[1])
            role = 'literal/panic/' + ('with_hms' if 'Option::unwrap' in out[1] else 'parse')
            if not viol.get(role):
                viol[role] = True
                # render a literal from the model
                fl = ctx.ghost.get('ymd_args')
                lit = '2020-01-01 25' if role.endswith('with_hms') else '2020-01-01'
                sess.violated(name, role, 'parse_datetime panics: ' + out[1][:160], {}, cli_replay_literal_battery(), fam)
            return
        if out[0] != 'ret':
            box['bad'] = True; sess.inconclusive(name, str(out), fam); return
        fields, present, res = out[1]
        d = res.d if isinstance(res.d, int) else conc(res.d)
        if d != 0:
            box['err'] += 1
            return
        box['ok'] += 1
        pair = res.p[0][0]
        start, finish = pair.f[0], pair.f[1]
        day = ctx.ghost.get('day_of_ymd')
        ph, pm, ps = present[6], present[7], present[8]
        want_s = DateC(day, If(ph, fields[6], u32(0)), If(pm, fields[7], u32(0)), If(ps, fields[8], u32(0)))
        want_f = DateC(day, If(ph, fields[6], u32(23)), If(pm, fields[7], u32(59)), If(ps, fields[8], u32(59)))
        ya = ctx.ghost.get('ymd_args')
        conds = [start.ts == want_s.ts, finish.ts == want_f.ts, start.ts <= finish.ts]
        if ya is not None:
            conds += [ya[0] == fields[1], ya[1] == fields[3], ya[2] == fields[5]]
        r = ctx.check(Not(And(conds)))
        if r == z3.unsat:
            return
        role = 'literal/interval'
        if viol.get(role):
            return
        viol[role] = True
        m = ctx.model(Not(And(conds)))
        fv = {k: m.eval(v, model_completion=True).as_long() for k, v in fields.items()}
        pv = {k: z3.is_true(m.eval(v, model_completion=True)) for k, v in present.items()}
        sess.violated(name, role, 'fields %r present %r: start/finish are not the interval the literal names' % (fv, pv), {'fields': fv, 'present': pv},
                      cli_replay_interval(), fam)

    ex.explore(run, on_path)
    if not viol and not box.get('bad'):
        sess.discharged('literal: all field values / precisions: Ok => [start, finish] = the day / hour / minute / second named (%d paths), otherwise Err (%d paths); no panic'
                        % (box['ok'], box['err']), family=fam, queries=box['ok'] + box['err'])


def cli_replay_literal_battery():
    def rep():
        exe = common.native_binary()
        tree = {'f': {'size': 1, 'mtime': 1577880000}}
        for lit in ('2020-01-01 25', '2020-01-01 10:61', '2020-01-01 10:10:61', '2020-13-01', '2020-01-32', '2020-01-01 99:99:99'):
            r = common.run_cli(exe, ['name', 'from', '.', 'where', 'modified', '=', "'%s'" % lit], tree, timeout=5)
            if r['timed_out'] or r['status'] not in (0, 1, 2):
                return True, "where modified = '%s' -> status %s %s" % (lit, r['status'], r['stderr'].strip()[:160])
        return False, 'no crash on the out-of-range literals tried'
    return rep


def cli_replay_interval():
    """files at a-1, a, b, b+1 of day / hour / minute / second literals must be in / out accordingly"""
    def rep():
        exe = common.native_binary()
        base = 1577880000        # 2020-01-01 12:00:00 UTC
        day0 = base - base % 86400
        cases = [("2020-01-01", day0, day0 + 86399), ("2020-01-01 12", day0 + 12 * 3600, day0 + 12 * 3600 + 3599),
                 ("2020-01-01 12:30", day0 + 12 * 3600 + 1800, day0 + 12 * 3600 + 1859), ("2020-01-01 12:30:15", day0 + 45015, day0 + 45015)]
        for lit, a, b in cases:
            tree = {'t%d' % i: {'size': 1, 'mtime': t} for i, t in enumerate((a - 1, a, b, b + 1))}
            r = common.run_cli(exe, ['name', 'from', '.', 'where', 'modified', '=', "'%s'" % lit], tree)
            got = sorted(r['stdout'].split('\n')[:-1])
            if got != ['t1', 't2'] or r['status'] != 0:
                return True, "where modified = '%s' over mtimes a-1, a, b, b+1 -> %r (expected ['t1', 't2']) status %s" % (lit, got, r['status'])
        return False, 'the four precisions select exactly [a, b]'
    return rep


def cli_replay_offset(lit, off):
    """files stamped at noon of the day the literal denotes and of the day after it: `modified = '<lit>'` selects the first only"""
    def rep():
        import datetime
        exe = common.native_binary()
        noon = datetime.datetime.now(datetime.timezone.utc).replace(hour=12, minute=0, second=0, microsecond=0)
        t0 = int((noon + datetime.timedelta(days=off)).timestamp()); t1 = t0 + 86400
        r = common.run_cli(exe, ["name from . where modified = '%s'" % lit], {'that-day': {'size': 1, 'mtime': t0}, 'day-after': {'size': 1, 'mtime': t1}}, env={'TZ': 'UTC'})
        rows = sorted(r['stdout'].split('\n')[:-1])
        return rows != ['that-day'] or r['status'] != 0, "where modified = '%s' over files dated %+d and %+d days from today -> %r (status %s %s), expected ['that-day']" % (
            lit, off, off + 1, rows, r['status'], r['stderr'][:80])
    return rep


def fam_relative(sess):
    prog = sess.prog
    fam = 'relative'
    ex = sess.executor(models(), unwind=6)
    pd = prog.find_free('parse_datetime')
    for lit, off in (('today', 0), ('yesterday', -1), ('+3', 3), ('-2', -2), ('+0', 0), ('-1000', -1000), ('+365', 365), ('-12345', -12345)):
        box = {}

        def run(ctx, lit=lit):
            return ctx.call_fn(pd, [Str(lit)])

        def on_path(ctx, out, lit=lit, off=off):
            name = 'relative %s' % lit
            if out[0] != 'ret':
                if out[0] == 'panic':
                    if not box.get('viol'):
                        box['viol'] = True
                        sess.violated(name, 'relative/panic', out[1][:160], {}, cli_replay_literal(lit), fam)
                else:
                    box['bad'] = True; sess.inconclusive(name, str(out), fam)
                return
            res = out[1]
            d = res.d if isinstance(res.d, int) else conc(res.d)
            now = ctx.ghost.get('now')
            if d != 0 or now is None:
                if not box.get('viol'):
                    box['viol'] = True
                    sess.violated(name, 'relative/rejected', '%r is not accepted' % lit, {}, cli_replay_offset(lit, off), fam)
                return
            pair = res.p[0][0]
            s_, f_ = pair.f[0], pair.f[1]
            day = now.day + off
            r = ctx.check(Not(And(s_.ts == day * 86400, f_.ts == day * 86400 + 86399)))
            if r == z3.unsat:
                box['ok'] = True; return
            if not box.get('viol'):
                box['viol'] = True
                sess.violated(name, 'relative/' + lit, '%r does not denote the whole local day at offset %d' % (lit, off), {}, cli_replay_offset(lit, off), fam)
        ex.explore(run, on_path)
        if not box.get('viol') and not box.get('bad'):
            sess.discharged('relative %s = the whole local day at offset %d from the (symbolic) clock' % (lit, off), family=fam)


def fam_lexer_date(sess):
    """lexer::looks_like_date (decides whether `-` inside 2023-12-31 is part of a literal): true for every year 1970..2999 and
    month 01..12 (or no month), with DATE_ALIKE_REGEX.captures modelled like DATE_REGEX"""
    prog = sess.prog
    fam = 'lexer_date'
    ex = sess.executor(models(), unwind=6)
    lld = prog.find_free('looks_like_date')
    box = {}

    def run(ctx):
        year = ctx.fresh_bv('year', 32); month = ctx.fresh_bv('month', 32)
        ctx.assume(ULT(year, u32(10000))); ctx.assume(ULT(month, u32(100)))
        has_month = ctx.fresh_bool('has_month')
        lit = DateLit({1: year, 2: month}, {2: has_month})
        return year, month, has_month, ctx.call_fn(lld, [lit])

    def on_path(ctx, out):
        if out[0] != 'ret':
            box['bad'] = True; sess.inconclusive(fam, str(out), fam); return
        year, month, has_month, r = out[1]
        box['paths'] = box.get('paths', 0) + 1
        want = And(UGE(year, u32(1970)), ULT(year, u32(3000)), Or(Not(has_month), And(UGE(month, u32(1)), ULE(month, u32(12)))))
        res = ctx.check(r != want)
        if res == z3.unsat:
            return
        if box.get('viol'):
            return
        box['viol'] = True
        m = ctx.model(r != want)
        y = m.eval(year, model_completion=True).as_long(); mo = m.eval(month, model_completion=True).as_long()
        lit = '%04d-%02d-15' % (y, mo)

        def rep(lit=lit, y=y, mo=mo):
            import calendar
            exe = common.native_binary()
            try:
                t = calendar.timegm((y, mo, 15, 12, 0, 0))
            except Exception:
                return False, 'not a calendar date'
            r_ = common.run_cli(exe, ['name', 'from', '.', 'where', 'modified', '=', lit], {'f': {'size': 1, 'mtime': t}})
            rows = r_['stdout'].split('\n')[:-1]
            return rows != ['f'], 'where modified = %s (unquoted) over a file of that day -> %r status %s %s' % (lit, rows, r_['status'], r_['stderr'][:100])
        sess.violated(fam, 'lexer_date', 'looks_like_date(%s) is %s' % (lit, m.eval(r, model_completion=True)), {'literal': lit}, rep, fam)
    ex.explore(run, on_path)
    if not box.get('viol') and not box.get('bad'):
        sess.discharged('lexer_date: looks_like_date is true exactly for years 1970..2999 with month 01..12 or without month', family=fam, queries=box.get('paths', 1))


CAPS_MOD = r'''
#[cfg(test)]
mod verif_c13_caps {
    use super::*;
    // VERIF_INPUT: date literal texts separated by '|': print, for each, the text of the capture groups 1..8 ('~' = absent) and the whole match
    #[test]
    fn run() {
        let input = std::env::var("VERIF_INPUT").unwrap();
        for lit in input.split('|') {
            match DATE_REGEX.captures(lit) {
                Some(cap) => {
                    let groups: Vec<String> = (0..9).map(|i| cap.get(i).map(|m| m.as_str().to_string()).unwrap_or("~".to_string())).collect();
                    println!("VERIF_OUT {}", groups.join("\u{1}"));
                }
                None => println!("VERIF_OUT NOMATCH"),
            }
        }
    }
}
'''


def fam_captures_model(sess):
    """validation of the contract model the `literal` family rests on: the tree's real DATE_REGEX (through the real regex crate, in a
    native test appended to a scratch copy) captures, for every documented literal shape, exactly the year / month / day and the time
    fields that were written — day, hour, minute and second precision, both separators, one- and two-digit fields"""
    fam = 'captures_model'
    shapes = []
    for sep in '-:':
        for mo, d in (('12', '11'), ('3', '7'), ('12', '7')):
            date = '2023' + sep + mo + sep + d
            for t in ((), ('14',), ('4',), ('14', '05'), ('4', '5'), ('14', '05', '09'), ('4', '5', '9'), ('23', '59', '59')):
                lit = date + ((' ' + ':'.join(t)) if t else '')
                shapes.append((lit, ['2023', mo, d] + list(t)))
    sess.bounds[fam] = {'literal shapes': len(shapes)}
    rc, lines, raw = common.native_unit('c13caps', 'src/util/datetime.rs', CAPS_MOD, 'util::datetime::verif_c13_caps::run', '|'.join(l for l, _ in shapes))
    if rc != 0 or len(lines) != len(shapes):
        sess.inconclusive(fam, 'native captures probe failed (exit %s, %d lines): %s' % (rc, len(lines), raw[-300:]), fam); return
    bad = []
    for (lit, want), line in zip(shapes, lines):
        if line == 'NOMATCH':
            bad.append((lit, 'no match')); continue
        g = line.split('\x01')
        got = [g[1], g[3], g[5]] + [x for x in g[6:9] if x != '~']
        if g[0] != lit or got != want or any(g[6 + i] == '~' and any(x != '~' for x in g[7 + i:9]) for i in range(2)):
            bad.append((lit, 'whole match %r, fields %r' % (g[0], got)))
    if bad:
        lit, what = bad[0]

        def rep(lit=lit):
            import os, time, calendar
            exe = common.native_binary()
            # a file in the middle of the interval the literal denotes, and one 2 hours later
            m = re.match(r'(\d{4}).(\d{1,2}).(\d{1,2})(?: (\d{1,2}))?(?::(\d{1,2}))?(?::(\d{1,2}))?', lit)
            y, mo, d = int(m.group(1)), int(m.group(2)), int(m.group(3))
            h = int(m.group(4)) if m.group(4) else 12
            base = calendar.timegm((y, mo, d, h, int(m.group(5) or 0), int(m.group(6) or 0), 0, 0, 0))
            other = calendar.timegm((y, mo, d, (h + 5) % 24, 0, 0, 0, 0, 0))
            tree = {'inside': {'size': 1, 'mtime': base}, 'sameday': {'size': 1, 'mtime': other}}
            r = common.run_cli(exe, ["name from . where modified = '%s'" % lit], tree, env={'TZ': 'UTC'})
            rows = sorted(r['stdout'].split('\n')[:-1])
            want = ['inside'] if m.group(4) else ['inside', 'sameday']
            return rows != want or r['status'] != 0, "where modified = '%s' -> %r, expected %r (status %s)" % (lit, rows, want, r['status'])
        sess.violated('captures of %r' % lit, 'captures_model/' + ('hour' if lit.count(':') == (0 if '-' in lit[:8] else 2) and ' ' in lit else 'shape'),
                      'DATE_REGEX captures %s; %d of %d shapes deviate (%r)' % (what, len(bad), len(shapes), [b[0] for b in bad[:4]]), {'literal': lit}, rep, fam)
    else:
        sess.validated += len(shapes)
        sess.discharged('captures_model: the real DATE_REGEX captures the written fields for %d literal shapes' % len(shapes), family=fam, queries=len(shapes))


# ------------------------------------------------------------------------------------------------ end to end
def concrete_chrono():
    """chrono on CONCRETE calendar fields (the query text is concrete, the entry times are concrete per node): the proleptic
    Gregorian calendar of Python's datetime stands in for chrono's; UTC is the local zone (model and replay)"""
    import datetime as _dt
    base = [m_ for m_ in models() if not m_[2].startswith('regex:') and 'with_ymd_and_hms' not in m_[2]]

    def ymd(ctx, args, callee):
        y, mo, d, h, mi, s_ = [conc(a) for a in args[1:7]]
        if y >= 2 ** 31:
            y -= 2 ** 32
        try:
            day = _dt.date(y, mo, d).toordinal() - _dt.date(1970, 1, 1).toordinal()
            if not (h < 24 and mi < 60 and s_ < 60):
                raise ValueError
        except (ValueError, OverflowError):
            return EnumV(2, {2: []}, 'LocalResult')
        return EnumV(0, {0: [DateC(BitVecVal(day, 64), u32(h), u32(mi), u32(s_))]}, 'LocalResult')

    def fmt(ctx, args, callee):
        d = ctx.deref(args[0]); f = as_str(ctx, args[1]).s
        ts = z3.simplify(d.ts)
        if f is None or not z3.is_bv_value(ts):
            raise Unmodelled('NaiveDateTime::format of a symbolic instant')
        t = ts.as_signed_long()
        return Str((_dt.datetime(1970, 1, 1) + _dt.timedelta(seconds=t)).strftime(f))
    return [(r'^<chrono::Local as TimeZone>::with_ymd_and_hms$', ymd, 'chrono:with_ymd_and_hms on concrete fields (proleptic Gregorian calendar, local zone = UTC)'),
            (r'^NaiveDateTime::format$|^chrono::NaiveDateTime::format$', fmt, 'chrono:NaiveDateTime::format on a concrete instant (strftime)')] + base


def _interval(lit):
    import calendar
    m = re.match(r'^(\d{4})[-:](\d{1,2})[-:](\d{1,2})(?: (\d{1,2}))?(?::(\d{1,2}))?(?::(\d{1,2}))?$', lit)
    y, mo, d = int(m.group(1)), int(m.group(2)), int(m.group(3))
    lo = [int(g) if g is not None else 0 for g in m.groups()[3:]]
    hi = [int(g) if g is not None else top for g, top in zip(m.groups()[3:], (23, 59, 59))]
    return calendar.timegm((y, mo, d, *lo)), calendar.timegm((y, mo, d, *hi))


def _holds(op, t, lit):
    a, b = _interval(lit)
    return {'=': a <= t <= b, '!=': not a <= t <= b, '<': t < a, '>': t > b, '<=': t <= b, '>=': t >= a}[op]


def e2e_queries():
    from drivers import e2e
    N, MT = e2e.NAMES, e2e.MTIMES
    T = [e2e.epoch(x) for x in MT]
    name = lambda i: N[i]

    def where(conds, cols=None, join='and'):
        def ref(v, k):
            out = []
            for i in v:
                r = [_holds(op, T[i], lit) for op, lit in conds]
                if all(r) if join == 'and' else any(r):
                    out.append([N[i]] if cols is None else [c(i) for c in cols])
            return out
        return ref
    return [("name from R0 where modified = 2021-12-31", where([('=', '2021-12-31')]), False),
            # every entry's time as printed (a year boundary: 2022-01-01 is a Saturday of ISO week 52 of 2021)
            ("name, modified from R0", lambda v, k: [[N[i], MT[i]] for i in v], False),
            ("name, modified from R0 where modified >= '2021-12-31 23' and modified <= '2021-12-31 23:59'",
             where([('>=', '2021-12-31 23'), ('<=', '2021-12-31 23:59')], [name, lambda i: MT[i]]), False),
            ("name from R0 where modified != '2021:12:31'", where([('!=', '2021-12-31')]), False),
            ("name from R0 where modified < 2021-12-31 or modified > 2021-12-31", where([('<', '2021-12-31'), ('>', '2021-12-31')], join='or'), False),
            ("name from R0 where modified lte '2021-12-30' or modified gte '2022-1-1 0:0'", where([('<=', '2021-12-30'), ('>=', '2022-01-01 0:0')], join='or'), False),
            ("name, modified from R0 where modified = '2021-12-31 23:59:59' or modified = '2022-01-01 00'",
             where([('=', '2021-12-31 23:59:59'), ('=', '2022-01-01 00')], [name, lambda i: MT[i]], join='or'), False),
            ("modified, name from R0 order by modified desc, name", lambda v, k: [[MT[i], N[i]] for i in sorted(v, key=lambda i: (-T[i], N[i].encode()))], True),
            ("name from R0 where modified > '2021-12-31 22' and modified < 2022-01-01", where([('>', '2021-12-31 22'), ('<', '2022-01-01')]), False),
            ("name from R0 where modified != '2021-12-31 23:59:59' and modified <= '2021-12-31 23:59:59'", where([('!=', '2021-12-31 23:59:59'), ('<=', '2021-12-31 23:59:59')]), False)]


def fam_e2e(sess):
    """real main::exec_search on query TEXTS with date literals at day / hour / minute / second precision, quoted and unquoted, both
    separators: the lexer's date-vs-minus decision, the parser, parse_datetime, the DateTime arm of conforms and the formatting of the
    `modified` column meet here; entry times sit on both edges of the intervals"""
    from drivers import e2e
    qs = e2e_queries()
    if sess.tier == 'quick':
        qs = qs[:5]
    e2e.family(sess, 'e2e', qs, extra=concrete_chrono())


def main(sess):
    sess.engines = ['mirsym (MIR symbolic execution) + z3']
    sess.assumptions += [
        'DATE_REGEX.captures is modelled: the literal matches, groups 1/3/5 present, groups 6/7/8 present left to right, every numeric group a symbolic number of its digit width; '
        'that the tree\'s regex captures what the grammar says is validated natively per literal shape (family captures_model: the real regex crate on 48 shapes)',
        'chrono by contract: with_hour/minute/second -> None outside 0..23 / 0..59, Local.with_ymd_and_hms -> Single(day at 00:00:00) or None (validity of the calendar date is '
        'an uninterpreted predicate), Local::now a symbolic instant; local-time conversion and formatting of `modified`, chrono-english and looks_like_date in the lexer are outside',
    ]
    only = getattr(sess, 'only', None)
    if not only or 'table' in only:
        from drivers import c02
        c02.fam_tables(sess, types=('DateTime',))
    if not only or 'literal' in only:
        fam_literal(sess)
    if not only or 'captures_model' in only:
        fam_captures_model(sess)
    if not only or 'relative' in only:
        fam_relative(sess)
    if not only or 'lexer_date' in only:
        fam_lexer_date(sess)
    if not only or 'e2e' in only:
        fam_e2e(sess)
