"""Shared pieces for drivers that run the real parser (`Parser::parse*`) from its MIR on *symbolic lexem
vectors*: each position is a solver variable t_i indexing a finite alphabet of concrete lexems (TableSym)."""
import z3
from z3 import BitVecVal, BoolVal, If, ULT, Or
from mirsym.core import Agg, EnumV, Cell, Ref, BoxV, UNINIT, some, none, conc, Unmodelled, clone_struct
from mirsym.models_std import Str, Seq, deep_clone
from drivers import evalcore as E

# lexem spellings: (variant, text or None)
KW = {',': ('Comma', None), 'from': ('From', None), 'where': ('Where', None), '(': ('Open', None), ')': ('Close', None),
      '{': ('CurlyOpen', None), '}': ('CurlyClose', None), 'and': ('And', None), 'or': ('Or', None), 'not': ('Not', None),
      'order': ('Order', None), 'by': ('By', None), 'desc': ('DescendingOrder', None), 'limit': ('Limit', None),
      'into': ('Into', None)}
OPERATOR_WORDS = {'=', '==', 'eq', '!=', '<>', 'ne', '===', 'eeq', '!==', 'ene', '>', 'gt', '>=', 'gte', 'ge', '<', 'lt', '<=',
                  'lte', 'le', '=~', '~=', 'regexp', 'rx', '!=~', '!~=', 'notrx', 'like', 'notlike', 'between', '=!'}
ARITH = {'+', '-', '*', '/', '%'}


def lex1(tok):
    """token spelling -> (Lexem variant, payload text).  'q:xyz' = quoted string, 'op:xyz' = Operator"""
    if tok in KW:
        return KW[tok]
    if tok.startswith('q:'):
        return ('String', tok[2:])
    if tok.startswith('op:'):
        return ('Operator', tok[3:])
    if tok.startswith('ar:'):
        return ('ArithmeticOperator', tok[3:])
    if tok in ARITH:
        return ('ArithmeticOperator', tok)
    if tok.lower() in OPERATOR_WORDS:
        return ('Operator', tok)
    return ('RawString', tok)


def mk_lexem(prog, tok):
    var, text = lex1(tok)
    i = prog.src.variant_index('Lexem', var)
    if i is None:
        raise KeyError('Lexem::' + var)
    return EnumV(i, {i: ([Str(text)] if text is not None else [])}, 'Lexem')


def sym_lexem(ctx, prog, alphabet, name='t'):
    """one symbolic lexem over `alphabet` (list of token spellings) -> (EnumV, index variable)"""
    if len(alphabet) == 1:
        return mk_lexem(prog, alphabet[0]), None
    t = ctx.fresh_bv(name, 8)
    ctx.assume(ULT(t, BitVecVal(len(alphabet), 8)))
    lx = [lex1(a) for a in alphabet]
    discs = [prog.src.variant_index('Lexem', v) for v, _ in lx]
    d = BitVecVal(discs[-1], 64)
    for k in range(len(alphabet) - 2, -1, -1):
        d = If(t == k, BitVecVal(discs[k], 64), d)
    d = z3.simplify(d)
    payload = {}
    tab = {k: (txt if txt is not None else '') for k, (v, txt) in enumerate(lx)}
    for k, (v, txt) in enumerate(lx):
        if txt is not None and discs[k] not in payload:
            payload[discs[k]] = [Str(var=t, tab=dict(tab))]
    for dd in set(discs):
        payload.setdefault(dd, [])
    return EnumV(d, payload, 'Lexem'), t


def mk_parser(prog, lexems, roots_parsed=True, where_parsed=False, index=0):
    return E.mk_struct(prog, 'Parser', {}, lexems=Seq(lexems), index=BitVecVal(index, 64),
                       roots_parsed=BoolVal(roots_parsed), where_parsed=BoolVal(where_parsed))


def parser_index(ctx, prog, parser):
    return parser.f[E.struct_fields(prog, 'Parser').index('index')]


# ------------------------------------------------------------------------------------------------
# pure table lifting: crate functions of one string argument (Field::from_str, Function::from_str, Op::from, ...)
# applied to a TableSym are evaluated once per distinct table entry by running their real MIR on the concrete
# text (memoised per executor) and the path forks over the distinct results.
def pure_lift(fn_getter, label):
    def handler(ctx, args, callee):
        s = ctx.deref(args[0])
        f = fn_getter(ctx.prog)
        rest = list(args[1:])
        if not isinstance(s, Str) or s.tab is None:
            return ctx.call_fn(f, list(args))
        memo = ctx.ex.__dict__.setdefault('_pure_memo', {})
        groups = {}
        results = {}
        for k, txt in s.tab.items():
            key = (f.name, txt, tuple(repr(r) for r in rest))
            if key not in memo:
                a0 = Str(txt) if not isinstance(args[0], Ref) else Ref(Cell(Str(txt)))
                memo[key] = ctx.call_fn(f, [a0] + [clone_struct(r) for r in rest])
            r = memo[key]
            rk = repr(r)
            groups.setdefault(rk, []).append(k)
            results[rk] = r
        opts = [(rk, Or([s.var == k for k in ks])) for rk, ks in groups.items()]
        lab = ctx.branch(opts)
        return deep_clone(ctx, results[lab])
    return handler


def table_overrides():
    return [
        (r'^<Field as FromStr>::from_str$|Field::from_str$', pure_lift(lambda p: p.find('Field', 'from_str', 'FromStr'), 'Field::from_str'), 'lift:Field::from_str'),
        (r'^<Function as FromStr>::from_str$|Function::from_str$', pure_lift(lambda p: p.find('Function', 'from_str', 'FromStr'), 'Function::from_str'), 'lift:Function::from_str'),
        (r'(^|::)Op::from$', pure_lift(lambda p: p.find('Op', 'from'), 'Op::from'), 'lift:Op::from'),
        (r'(^|::)Op::from_with_not$', pure_lift(lambda p: p.find('Op', 'from_with_not'), 'Op::from_with_not'), 'lift:Op::from_with_not'),
        (r'(^|::)ArithmeticOp::from$', pure_lift(lambda p: p.find('ArithmeticOp', 'from'), 'ArithmeticOp::from'), 'lift:ArithmeticOp::from'),
        (r'(^|::)OutputFormat::from$', pure_lift(lambda p: p.find('OutputFormat', 'from'), 'OutputFormat::from'), 'lift:OutputFormat::from'),
        (r'Parser::is_root_option_keyword$', pure_lift(lambda p: p.find('Parser', 'is_root_option_keyword'), 'is_root_option_keyword'), 'lift:is_root_option_keyword'),
    ]


def lexer_stub_overrides():
    """Parser::parse builds a Lexer over the query words; the drivers inject the lexem vector directly, so the lexer
    is replaced by one that is immediately exhausted (the lexer itself is C11's subject)"""
    def lexer_new(ctx, args, callee):
        return Agg([], 'Lexer')

    def lexer_next(ctx, args, callee):
        return none()
    return [(r'(^|::)Lexer::new$', lexer_new, 'stub:Lexer::new(empty)'),
            (r'(^|::)Lexer::next_lexem$', lexer_next, 'stub:Lexer::next_lexem(None)')]


def expr_to_text(ctx, prog, e, model=None):
    """render a (concrete-shaped) Expr value for messages"""
    F = E.struct_fields(prog, 'Expr')
    g = lambda n: e.f[F.index(n)]

    def optv(ev):
        d = ev.d if isinstance(ev.d, int) else conc(ev.d)
        return None if d == 0 else ev.p[1][0]
    lop, op, aop = optv(g('logical_op')), optv(g('op')), optv(g('arithmetic_op'))
    l, r = optv(g('left')), optv(g('right'))

    def sub(b):
        return expr_to_text(ctx, prog, b.cell.v if isinstance(b, BoxV) else ctx.deref(b), model)

    def ename(ev, ty):
        d = ev.d if isinstance(ev.d, int) else conc(ev.d)
        return prog.src.variant_name(ty, d) if d is not None else '?'
    if lop is not None:
        return '(%s %s %s)' % (sub(l), ename(lop, 'LogicalOp').lower(), sub(r))
    if op is not None:
        return '%s %s %s' % (sub(l), ename(op, 'Op'), sub(r))
    if aop is not None:
        return '(%s %s %s)' % (sub(l), ename(aop, 'ArithmeticOp'), sub(r))
    fld, fun, val = optv(g('field')), optv(g('function')), optv(g('val'))
    mn = '-' if conc(g('minus')) else ''
    if fld is not None:
        return mn + ename(fld, 'Field')
    if fun is not None:
        return mn + ename(fun, 'Function') + '(' + (sub(l) if l is not None else '') + ')'
    if val is not None:
        return mn + repr(val.s if val.s is not None else val)
    return '<empty>'
