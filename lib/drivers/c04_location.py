"""C04 family `location` — name / ext / path / dir / abspath / absdir are consistent decompositions of the entry's own location.

The real get_field_value arms run from MIR on a directory entry `/w/d/<name>` whose lstat record is symbolic (so the entry may be a
symbolic link), in a world where the directory `/w/d` is itself reached through a link: canonicalize("/w/d") = "/real/d".
`std::fs::canonicalize` by its contract resolves EVERY link of the path it is given, the last component included: for a link entry it
gives the location of the target (or an error when the link dangles). Obligations, for every name of the table and every file type:

    name = last component          path = the path as walked              dir = path without its last component
    absdir = canonical form of dir abspath = absdir + "/" + name          (the entry's own location: never a link target's, never empty)
"""
import z3
from z3 import BitVecVal, BoolVal, Not, And, Or, If
from mirsym.core import Agg, EnumV, Cell, Ref, UNIT, some, none, ok, err, conc, Unmodelled
from mirsym.models_std import Str, Seq, as_str
from drivers import evalcore as E
from drivers.c04_wiring import MetaV, EntryM, IFMT, models as wiring_models
from drivers.walker import IoError
import common

NAMES = ['file.txt', '.hidden', 'archive.tar.gz', 'noext', 'UPPER.TXT', 'sp ace.x']
WALKED_DIR, REAL_DIR, TARGET = '/w/d', '/real/d', '/elsewhere/t/target.bin'


class PathT:
    """a path by its text"""
    def __init__(self, text):
        self.text = text

    def clone_model(self, ctx):
        return PathT(self.text)

    def display(self, ctx, kind):
        return Str(self.text)


def _text(ctx, v):
    v = ctx.deref(v) if isinstance(v, Ref) else v
    if isinstance(v, PathT):
        return v.text
    if isinstance(v, Str) and v.s is not None:
        return v.s
    raise Unmodelled('path text of %r' % (v,))


def models():
    out = []

    def reg(pat, name):
        def deco(f):
            out.append((pat, f, name)); return f
        return deco

    @reg(r'^(std::fs::)?DirEntry::path$', 'fs:DirEntry::path (the path as walked)')
    def entry_path(ctx, args, callee):
        return PathT(WALKED_DIR + '/' + ctx.deref(args[0]).name)

    @reg(r'^(std::fs::)?DirEntry::file_name$', 'fs:DirEntry::file_name')
    def entry_file_name(ctx, args, callee):
        return Str(ctx.deref(args[0]).name)

    @reg(r'^(std::fs::)?canonicalize$', 'fs:canonicalize resolves every link of the path, the last component included; Err for a dangling link')
    def canonicalize(ctx, args, callee):
        t = _text(ctx, args[0])
        e = ctx.ghost['entry']
        own = WALKED_DIR + '/' + e.name
        if t == WALKED_DIR or t == WALKED_DIR + '/':
            return ok(PathT(REAL_DIR))
        if t == REAL_DIR:
            return ok(PathT(REAL_DIR))
        if t in (own, REAL_DIR + '/' + e.name):
            if ctx.decide((e.meta.mode & IFMT) == 0o120000):
                ctx.ghost['resolved_link'] = True
                if ctx.decide(ctx.ghost['dangling']):
                    return err(IoError('No such file or directory (os error 2)'))
                return ok(PathT(TARGET))
            return ok(PathT(REAL_DIR + '/' + e.name))
        raise Unmodelled('canonicalize(%r)' % t)

    @reg(r'^(std::path::)?Path(Buf)?::to_string_lossy$|^(std::ffi::)?OsStr(ing)?::to_string_lossy$', 'Path::to_string_lossy (UTF-8 names)')
    def lossy(ctx, args, callee):
        return EnumV(0, {0: [Str(_text(ctx, args[0]))]}, 'Cow')

    @reg(r'^<(std::path::)?PathBuf as From<(std::string::)?String>>::from$|^<(std::path::)?PathBuf as From<&str>>::from$|^(std::path::)?Path::new$|^(std::path::)?Path(Buf)?::to_path_buf$'
         r'|^<(std::path::)?PathBuf as Deref>::deref$|^<(std::path::)?PathBuf as AsRef<(std::path::)?Path>>::as_ref$|^(std::path::)?PathBuf::as_path$|^<(std::path::)?PathBuf as Clone>::clone$',
         'PathBuf::from / Path::new / to_path_buf / deref (the same text)')
    def path_ident(ctx, args, callee):
        v = ctx.deref(args[0]) if isinstance(args[0], Ref) else args[0]
        if callee.endswith('deref') or callee.endswith('as_ref') or callee.endswith('as_path') or callee.endswith('Path::new'):
            return Ref(Cell(PathT(_text(ctx, v))))
        return PathT(_text(ctx, v))

    @reg(r'^(std::path::)?Path(Buf)?::parent$', 'Path::parent (the path without its last component; None for the root)')
    def parent(ctx, args, callee):
        t = _text(ctx, args[0]).rstrip('/')
        if '/' not in t or t == '':
            return none()
        p = t.rsplit('/', 1)[0]
        return some(Ref(Cell(PathT(p if p else '/'))))

    @reg(r'^(std::path::)?Path(Buf)?::file_name$', 'Path::file_name (the last component)')
    def file_name(ctx, args, callee):
        t = _text(ctx, args[0]).rstrip('/')
        last = t.rsplit('/', 1)[-1]
        if last in ('', '..'):
            return none()
        return some(Ref(Cell(Str(last))))

    @reg(r'^(std::path::)?Path(Buf)?::extension$', 'Path::extension (std: after the last dot of the file name; None without a dot or for a dot-file without a second dot)')
    def extension(ctx, args, callee):
        t = _text(ctx, args[0]).rstrip('/')
        last = t.rsplit('/', 1)[-1]
        if last in ('', '..') or '.' not in last[1:]:
            return none()
        return some(Ref(Cell(Str(last.rsplit('.', 1)[1]))))

    @reg(r'^(std::ffi::)?OsStr::to_str$', 'OsStr::to_str (UTF-8 names)')
    def to_str(ctx, args, callee):
        return some(Ref(Cell(Str(_text(ctx, args[0])))))

    @reg(r'^(std::path::)?Path(Buf)?::join$', 'Path::join')
    def join(ctx, args, callee):
        a = _text(ctx, args[0]); b = _text(ctx, args[1])
        return PathT(b if b.startswith('/') else a.rstrip('/') + '/' + b)

    @reg(r'^(std::path::)?PathBuf::push$', 'PathBuf::push')
    def push(ctx, args, callee):
        cell = args[0].cell
        a = _text(ctx, args[0]); b = _text(ctx, args[1])
        ctx.write_ref(args[0], PathT(b if b.startswith('/') else a.rstrip('/') + '/' + b)) if hasattr(ctx, 'write_ref') else setattr(cell, 'v', PathT(a.rstrip('/') + '/' + b))
        return UNIT

    @reg(r'^<(std::io::)?Error as (std::string::)?ToString>::to_string$|^<(std::io::)?Error as Display>::fmt$', 'io::Error text')
    def err_text(ctx, args, callee):
        return Str(ctx.deref(args[0]).what)
    return out


COLS = [('Name', 'name'), ('Extension', 'ext'), ('Path', 'path'), ('Directory', 'dir'), ('AbsDir', 'absdir'), ('AbsPath', 'abspath')]


def expected(col, name):
    if col == 'Name':
        return name
    if col == 'Extension':
        # documented: the text after the last dot of the name; none for a name without a dot or a dot-file without a second dot
        stem = name[1:] if name.startswith('.') else name
        return stem.rsplit('.', 1)[1] if '.' in stem else ''
    if col == 'Path':
        return WALKED_DIR + '/' + name
    if col == 'Directory':
        return WALKED_DIR
    if col == 'AbsDir':
        return REAL_DIR
    return REAL_DIR + '/' + name


def cli_replay(col, sql, kind):
    """a real tree: real/d holds the entry, w/d is a link to real/d; the entry is a file, a link to a file elsewhere, or a dangling link"""
    def rep():
        import os, tempfile, shutil, subprocess
        exe = common.native_binary()
        d = os.path.realpath(tempfile.mkdtemp(prefix='verif-c04l-', dir=common.SCRATCH_ROOT))
        try:
            os.makedirs(os.path.join(d, 'real', 'd')); os.makedirs(os.path.join(d, 'w')); os.makedirs(os.path.join(d, 'elsewhere'))
            os.symlink(os.path.join(d, 'real', 'd'), os.path.join(d, 'w', 'd'))
            open(os.path.join(d, 'elsewhere', 'target.bin'), 'w').write('x')
            bad = []
            for name in NAMES:
                p = os.path.join(d, 'real', 'd', name)
                if kind == 'file':
                    open(p, 'w').write('x')
                elif kind == 'link':
                    os.symlink(os.path.join(d, 'elsewhere', 'target.bin'), p)
                else:
                    os.symlink(os.path.join(d, 'nowhere'), p)
            walked = os.path.join(d, 'w', 'd')
            r = subprocess.run([exe, 'name, %s from %s' % (sql, walked)], env={'PATH': os.environ['PATH'], 'HOME': d, 'TZ': 'UTC'}, stdout=subprocess.PIPE, stderr=subprocess.PIPE, timeout=10)
            rows = dict(l.split('\t', 1) for l in r.stdout.decode().split('\n')[:-1] if '\t' in l)
            for name in NAMES:
                want = expected(col, name).replace(WALKED_DIR, walked).replace(REAL_DIR, os.path.join(d, 'real', 'd'))
                if rows.get(name) != want:
                    bad.append((name, rows.get(name), want))
            if bad:
                n, got, want = bad[0]
                return True, '%s of the %s %r walked as %s/ (a link to real/d): %r, the entry\'s own location gives %r (%d of %d names deviate)' % (
                    sql, {'file': 'file', 'link': 'symbolic link', 'dangling': 'dangling link'}[kind], n, 'w/d', got.replace(d, '') if got else got, want.replace(d, ''), len(bad), len(NAMES))
            return False, '%s agrees with the entry\'s own location for %d names (%s)' % (sql, len(NAMES), kind)
        finally:
            shutil.rmtree(d, ignore_errors=True)
    return rep


def fam_location(sess):
    prog = sess.prog
    fam = 'location'
    from drivers.parsecore import pure_lift
    ex = sess.executor(models() + wiring_models(), unwind=24)
    gfv = prog.find('Searcher', 'get_field_value')
    fms_new = prog.find('FileMetadataState', 'new')
    sess.bounds[fam] = {'columns': [c[1] for c in COLS], 'names': NAMES, 'entry': 'lstat record symbolic (seven file types; a link resolves elsewhere or dangles)',
                        'directory': 'walked as /w/d, canonical form /real/d'}
    F = E.struct_fields(prog, 'Variant')
    for col, sql in COLS:
        box = {'paths': 0, 'roles': set()}
        for name in NAMES:
            def run(ctx, col=col, name=name):
                meta = MetaV(ctx)
                entry = EntryM(meta, name=name)
                ctx.ghost['entry'] = entry
                ctx.ghost['dangling'] = ctx.fresh_bool('link_dangles')
                s = E.mk_searcher(prog, fms=ctx.call_fn(fms_new, []), current_follow_symlinks=ctx.fresh_bool('root_follows_symlinks'))
                return ctx.call_fn(gfv, [Ref(Cell(s)), Ref(Cell(entry)), Ref(Cell(none())), Ref(Cell(E.field_enum(prog, col)))])

            def on_path(ctx, out, col=col, name=name, sql=sql):
                nm = '%s %s' % (fam, sql)
                box['paths'] += 1
                if out[0] != 'ret':
                    if not box.get('bad'):
                        box['bad'] = True; sess.inconclusive(nm, str(out)[:300], fam)
                    return
                sv = out[1].f[F.index('string_value')]
                got = sv.s if isinstance(sv, Str) else None
                want = expected(col, name)
                if got == want:
                    return
                e = ctx.ghost['entry']
                link = ctx.check(Not((e.meta.mode & IFMT) == 0o120000)) == z3.unsat
                dang = link and ctx.check(Not(ctx.ghost['dangling'])) == z3.unsat
                sc = 'dangling' if dang else 'link' if link else 'file'
                if sc in box['roles']:
                    return
                box['roles'].add(sc)
                sess.violated('%s (%s)' % (nm, {'file': 'any entry', 'link': 'symbolic link', 'dangling': 'dangling link'}[sc]),
                              'location/%s/%s' % (col, {'file': 'value', 'link': 'link-target', 'dangling': 'dangling-link'}[sc]),
                              '%s of %s/%s is %r; the entry\'s own location gives %r' % (sql, WALKED_DIR, name, got, want), {'column': col, 'name': name}, cli_replay(col, sql, sc), fam)
            ex.explore(run, on_path)
        if not box['roles'] and not box.get('bad'):
            sess.discharged('%s %s: the entry\'s own location for %d names and every file type' % (fam, sql, len(NAMES)), family=fam, queries=box['paths'])
