"""C03 — AND / OR / NOT / brackets obey Boolean algebra.

Families (all: real MIR of Op::negate / Parser::negate_expr_op / Searcher::conforms executed symbolically,
z3 decides each obligation over all operand values of machine width):
  negate_table      negate(op) is the textbook complement operator, for every op
  complement/<T>    for every operand type T and well-typed op: conforms(op)(L,R) == not conforms(neg(op))(L,R)
  negate_expr_tree  Parser::negate_expr_op on Expr trees (depth <= 2/3): eval(negated) == not eval(original)
  formula           token sequences -> real parse_expr -> real conforms == textbook valuation (see c03_formula)
"""
import itertools, time
import z3
from z3 import BitVecVal, BoolVal, Not, And, Or, ULT
from mirsym.core import Agg, EnumV, Cell, Ref, BoxV, some, none, conc
from mirsym.models_std import Str
from mirsym.models_ext import DateTimeV
from drivers import evalcore as E
import common

TEXTBOOK_NEG = {'Eq': 'Ne', 'Ne': 'Eq', 'Eeq': 'Ene', 'Ene': 'Eeq', 'Gt': 'Lte', 'Lte': 'Gt', 'Lt': 'Gte', 'Gte': 'Lt',
                'Rx': 'NotRx', 'NotRx': 'Rx', 'Like': 'NotLike', 'NotLike': 'Like', 'Between': 'NotBetween',
                'NotBetween': 'Between'}
LEAF_FIELDS = [('Size', 'Uid'), ('Gid', 'Inode'), ('Blocks', 'Hardlinks'), ('Device', 'Accessed')]
PATTERN_OPS = ['Rx', 'NotRx', 'Like', 'NotLike']        # on a number: the pattern is applied to the value's text
TYPE_OPS = {'Int': E.CMP_OPS + PATTERN_OPS, 'Float': E.CMP_OPS, 'Bool': E.CMP_OPS, 'DateTime': E.CMP_OPS,
            'String': ['Eq', 'Ne', 'Eeq', 'Ene', 'Rx', 'NotRx', 'Like', 'NotLike', 'Gt', 'Gte', 'Lt', 'Lte']}


def operands(ctx, prog, ty, tag):
    """symbolic operand pair of the given VariantType, registered under leaf tags L<tag>/R<tag>"""
    g = ctx.ghost.setdefault('fields', {})
    sym = {}
    lf, rf = LEAF_FIELDS[tag]
    if ty == 'Int':
        L = ctx.fresh_bv('L', 64); R = ctx.fresh_bv('R', 64)
        g[lf] = E.mk_variant(prog, 'Int', int_value=some(L))
        g[rf] = E.mk_variant(prog, 'Int', int_value=some(R))
        sym = {'L': L, 'R': R}
    elif ty == 'Float':
        L = ctx.fresh('L', z3.Float64()); R = ctx.fresh('R', z3.Float64())
        ctx.assume(Not(z3.fpIsNaN(L))); ctx.assume(Not(z3.fpIsNaN(R)))
        g[lf] = E.mk_variant(prog, 'Float', float_value=some(L))
        g[rf] = E.mk_variant(prog, 'Float', float_value=some(R))
        sym = {'L': L, 'R': R}
    elif ty == 'Bool':
        L = ctx.fresh_bool('L'); R = ctx.fresh_bool('R')
        g[lf] = E.mk_variant(prog, 'Bool', bool_value=some(L))
        g[rf] = E.mk_variant(prog, 'Bool', bool_value=some(R))
        sym = {'L': L, 'R': R}
    elif ty == 'DateTime':
        t = ctx.fresh_bv('t', 64); a = ctx.fresh_bv('a', 64); b = ctx.fresh_bv('b', 64)
        ctx.assume(a <= b)
        ns = ctx.fresh_bv('nanos', 32); ctx.assume(z3.ULT(ns, BitVecVal(1000000000, 32)))
        g[lf] = E.mk_variant(prog, 'DateTime', dt_from=some(DateTimeV(t, ns)), dt_to=some(DateTimeV(t, ns)))
        g[rf] = E.mk_variant(prog, 'DateTime', dt_from=some(DateTimeV(a)), dt_to=some(DateTimeV(b)))
        sym = {'t': t, 'a': a, 'b': b, 'ns': ns}
    elif ty == 'String':
        # subject: symbolic text; pattern: a concrete representative per is_glob class
        subj = Str(term=ctx.fresh('subj', z3.StringSort()))
        pat = ctx.ghost['pattern']
        g[lf] = E.mk_variant(prog, 'String', string_value=subj)
        g[rf] = E.mk_variant(prog, 'String', string_value=Str(pat))
        sym = {'subj': subj.term}
    return sym


def model_vals(m, sym):
    out = {}
    for k, v in sym.items():
        x = m.eval(v, model_completion=True)
        if z3.is_bv_value(x):
            out[k] = x.as_signed_long()
        elif z3.is_true(x) or z3.is_false(x):
            out[k] = z3.is_true(x)
        elif z3.is_fp(x):
            try:
                out[k] = float(eval(str(z3.simplify(z3.fpToReal(x))).replace('?', ''))) if not (z3.fpIsNaN(x) or z3.fpIsInf(x)) else str(x)
            except Exception:
                out[k] = str(x)
        elif z3.is_string_value(x):
            out[k] = x.as_string()
        else:
            out[k] = str(x)
    return out


# ------------------------------------------------------------------------------------------------ replay
def cli_partition_replay(atom, tree, name_is_subject=False):
    """reproduced iff `where A` and `where not A` do not partition the entries of the tree"""
    def rep():
        exe = common.native_binary()
        ra = common.run_cli(exe, ['name', 'from', '.', 'where'] + atom.split(' '), tree)
        rn = common.run_cli(exe, ['name', 'from', '.', 'where', 'not'] + atom.split(' '), tree)
        allr = common.run_cli(exe, ['name', 'from', '.'], tree)
        A = sorted(ra['stdout'].split('\n')[:-1]); N = sorted(rn['stdout'].split('\n')[:-1])
        U = sorted(allr['stdout'].split('\n')[:-1])
        okp = sorted(A + N) == U
        det = 'where %s -> %r ; where not %s -> %r ; all -> %r (status %s/%s)' % (atom, A, atom, N, U, ra['status'], rn['status'])
        return (not okp), det
    return rep


def witness_to_cli(ty, op, vals):
    """-> (atom text, tree) or None when the witness is not expressible on a real file system"""
    optxt = E.OP_TEXT[op]
    if ty == 'Int':
        L, R = vals['L'], vals['R']
        if 0 <= L <= 1 << 20 and 0 <= R <= 1 << 20:
            return 'size %s %d' % (optxt, R), {'f': {'size': L}}
    if ty == 'Float':
        L, R = vals['L'], vals['R']
        if isinstance(L, float) and isinstance(R, float) and L == int(L) and R == int(R) and 0 <= L <= 1 << 20 and 0 <= R <= 1 << 20:
            return 'size*1 %s %d' % (optxt, int(R)), {'f': {'size': int(L)}}
    if ty == 'Bool':
        return 'is_dir %s %s' % (optxt, 'true' if vals['R'] else 'false'), {'f': ({'kind': 'dir'} if vals['L'] else {'size': 1})}
    if ty == 'String':
        pat = vals.get('pattern')
        if pat is not None and "'" not in pat:
            names = {n: {'size': 1} for n in set(['f1', 'abc', 'x', 'F1', 'fa*'] + ([pat] if pat and '/' not in pat else []))}
            return "name %s '%s'" % (optxt, pat), names
    if ty == 'DateTime':
        t, a, b = vals['t'], vals['a'], vals['b']
        if a % 86400 == 0 and b == a + 86399 and 946684800 <= a <= 1893456000 and 946684800 <= t <= 1893456000:
            day = time.strftime('%Y-%m-%d', time.gmtime(a))
            ent = {'size': 1, 'mtime': t}
            if vals.get('ns'):
                ent['mtime_ns'] = t * 1000000000 + vals['ns']      # the sub-second part of the witness
            return 'modified %s %s' % (optxt, day), {'f': ent}
    return None


def small_witness(ctx, ty, sym, extra):
    """prefer a witness that can be realised on disk (small sizes, a whole-day literal)"""
    cons = []
    if ty in ('Int',):
        cons = [sym['L'] >= 0, sym['L'] <= 4096, sym['R'] >= 0, sym['R'] <= 4096]
    elif ty == 'Float':
        def small_int(x):
            return And(z3.fpGEQ(x, z3.FPVal(0.0, z3.Float64())), z3.fpLEQ(x, z3.FPVal(4096.0, z3.Float64())),
                       x == z3.fpRoundToIntegral(z3.RNE(), x))
        cons = [small_int(sym['L']), small_int(sym['R'])]
    elif ty == 'DateTime':
        a, b, t = sym['a'], sym['b'], sym['t']
        cons = [z3.SRem(a, 86400) == 0, b == a + 86399, a >= 1577836800, a <= 1735689600, t >= a - 5, t <= b + 5]
    m = ctx.model(*(list(extra) + cons))
    if m is None:
        m = ctx.model(*extra)
    return m


# ------------------------------------------------------------------------------------------------ families
def fam_negate_table(sess):
    prog = sess.prog
    ex = sess.executor()
    neg = prog.find('Op', 'negate')
    results = {}

    def run(ctx):
        d = ctx.fresh_bv('op', 64)
        ctx.assume(ULT(d, len(E.OPS)))
        k = ctx.concretize(d, range(len(prog.src.variants('Op'))))
        r = ctx.call_fn(neg, [EnumV(k, {}, 'Op')])
        return k, r

    def on_path(ctx, out):
        if out[0] != 'ret':
            sess.inconclusive('negate_table', str(out), 'negate_table'); return
        k, r = out[1]
        results[prog.src.variant_name('Op', k)] = prog.src.variant_name('Op', conc(r.d))

    ex.explore(run, on_path)
    for op in prog.src.variants('Op'):
        want = TEXTBOOK_NEG.get(op)
        got = results.get(op)
        if want is None:
            sess.inconclusive('negate_table/' + op, 'operator unknown to the reference table', 'negate_table'); continue
        if got == want:
            sess.discharged('negate(%s) = %s' % (op, want), family='negate_table')
        else:
            # the table entry is wrong; the observable consequence is decided by the complement family on the
            # *real* negate: find (type, L, R) where op and negate(op) agree
            sess.pending_negate.append((op, got, want))
    sess.sample({'family': 'negate_table', 'table': results})


def fam_complement(sess, ty, real_negate_ops=()):
    """for each well-typed op: table(op)(L,R) xor table(neg(op))(L,R) for all L,R, where neg is the textbook complement
    (table closure) — and, for the operators whose negate() entry deviates, with the real negate(op): that one yields
    the replayable witness of the negate defect"""
    prog = sess.prog
    ex = sess.executor(E.EVAL_OVERRIDES)
    fam = 'complement/' + ty
    patterns = ['f*'] if ty == 'String' else [None]
    if ty == 'String' and sess.tier == 'thorough':
        patterns = ['f*', 'abc', 'a?c', '']
    jobs = []
    for op in TYPE_OPS[ty]:
        for pat in patterns:
            jobs.append((op, TEXTBOOK_NEG[op], pat, 'closure'))
    for (op, got, want) in real_negate_ops:
        if op in TYPE_OPS[ty] and got is not None:
            for pat in patterns[:1]:
                jobs.append((op, got, pat, 'real-negate'))
    for op, nop, pat, kind in jobs:
        box = {}

        def run(ctx, op=op, nop=nop, pat=pat):
            ctx.ghost['pattern'] = pat
            sym = operands(ctx, prog, ty, 0)
            r1 = E.run_conforms(ctx, prog, E.leaf_cmp(prog, E.op_enum(prog, op), *LEAF_FIELDS[0]))
            r2 = E.run_conforms(ctx, prog, E.leaf_cmp(prog, E.op_enum(prog, nop), *LEAF_FIELDS[0]))
            return sym, r1, r2

        def on_path(ctx, out, op=op, nop=nop, pat=pat, kind=kind):
            name = '%s: %s vs %s%s' % (fam, op, nop, (' pattern %r' % pat) if pat is not None else '')
            if out[0] == 'exit' and (ty == 'String' or op in PATTERN_OPS):
                # error_exit on an uncompilable pattern: both polarities exit alike
                box.setdefault('exits', 0); box['exits'] += 1
                return
            if out[0] != 'ret':
                sess.inconclusive(name, str(out), fam); box['bad'] = True; return
            sym, r1, r2 = out[1]
            res = ctx.check(r1 == r2)
            box['paths'] = box.get('paths', 0) + 1
            if res == z3.unsat:
                return
            if res != z3.sat:
                sess.inconclusive(name, 'solver: unknown', fam); box['bad'] = True; return
            m = small_witness(ctx, ty, sym, [r1 == r2])
            vals = model_vals(m, sym)
            if pat is not None:
                vals['pattern'] = pat
            role = ('negate/%s' % op) if kind == 'real-negate' else ('table/%s/%s' % (ty, op))
            cli = witness_to_cli(ty, op, vals) if kind == 'real-negate' else None
            rep = cli_partition_replay(*cli) if cli else None
            if kind == 'closure':
                # table closure defect: the replay goes through `not`, which uses the real negate; only meaningful if
                # negate maps op to nop — otherwise report through the C02 table check; still try
                cli = witness_to_cli(ty, op, vals)
                rep = cli_partition_replay(*cli) if cli else None
            sess.violated(name, role, 'both polarities agree on %r' % (vals,), {'type': ty, 'op': op, 'neg': nop, 'values': vals,
                          'cli': cli}, rep, fam)
            box['viol'] = True

        ex.explore(run, on_path)
        if not box.get('viol') and not box.get('bad'):
            sess.discharged('%s: %s vs %s%s' % (fam, op, nop, (' pattern %r' % pat) if pat is not None else ''),
                            family=fam, queries=box.get('paths', 1))


def gen_shapes(depth):
    """Expr tree shapes: 'L' leaf or (lop, left, right)"""
    if depth == 0:
        return ['L']
    sub = gen_shapes(depth - 1)
    out = ['L']
    for lop in ('And', 'Or'):
        for a in sub:
            for b in sub:
                out.append((lop, a, b))
    return out


def fam_negate_expr_tree(sess):
    """real Parser::negate_expr_op on trees whose leaves carry Eq/Ne/Eeq/Ene (operators whose negate() entry is
    checked by negate_table) over symbolic Int operands: eval(negate_expr_op(e)) must equal not eval(e)"""
    prog = sess.prog
    ex = sess.executor(E.EVAL_OVERRIDES)
    fam = 'negate_expr_tree'
    nexpr = prog.find('Parser', 'negate_expr_op')
    depth = 1 if sess.tier == 'quick' else 2
    shapes = [s for s in gen_shapes(depth) if s != 'L']
    if sess.tier != 'quick':
        # depth 2 has 2*(1+2)^2... keep all (50); leaf operators symbolic
        pass
    sess.bounds['negate_expr_tree'] = {'depth': depth, 'shapes': len(shapes), 'leaf_ops': 'Eq/Ne/Eeq/Ene symbolic',
                                       'operands': 'Int, 64-bit symbolic'}
    eqops = [prog.src.variant_index('Op', o) for o in ('Eq', 'Ne', 'Eeq', 'Ene')]
    for shape in shapes:
        box = {}

        def build(ctx, s, counter, syms):
            if s == 'L':
                tag = counter[0]; counter[0] += 1
                sym = operands(ctx, prog, 'Int', tag)
                d = ctx.fresh_bv('op', 64)
                ctx.assume(Or([d == k for k in eqops]))
                syms.append((tag, d, sym))
                return E.leaf_cmp(prog, E.op_enum(prog, d), *LEAF_FIELDS[tag])
            lop, a, b = s
            return E.node_logical(prog, E.lop_enum(prog, lop), build(ctx, a, counter, syms), build(ctx, b, counter, syms))

        def run(ctx, shape=shape):
            syms = []
            e = build(ctx, shape, [0], syms)
            from mirsym.models_std import deep_clone
            e2 = ctx.call_fn(nexpr, [Ref(Cell(deep_clone(ctx, e)))])
            r1 = E.run_conforms(ctx, prog, e)
            r2 = E.run_conforms(ctx, prog, e2)
            return syms, r1, r2

        def render(shape, syms, m, it):
            if shape == 'L':
                tag, d, sym = next(it)
                op = prog.src.variant_name('Op', m.eval(d, model_completion=True).as_long())
                return 'size %s %d' % (E.OP_TEXT[op], m.eval(sym['R'], model_completion=True).as_signed_long()), \
                    m.eval(sym['L'], model_completion=True).as_signed_long()
            lop, a, b = shape
            ta, la = render(a, syms, m, it); tb, lb = render(b, syms, m, it)
            return '( %s %s %s )' % (ta, lop.lower(), tb), la

        def on_path(ctx, out, shape=shape):
            name = '%s: %r' % (fam, shape)
            if out[0] != 'ret':
                sess.inconclusive(name, str(out), fam); box['bad'] = True; return
            syms, r1, r2 = out[1]
            box['paths'] = box.get('paths', 0) + 1
            if box.get('viol'):
                return
            res = ctx.check(r1 == r2)
            if res == z3.unsat:
                return
            if res != z3.sat:
                sess.inconclusive(name, 'solver: unknown', fam); box['bad'] = True; return
            # all leaves read the same file: ask for a witness with one common small size
            Ls = [s[2]['L'] for s in syms]
            cons = [r1 == r2] + [l == Ls[0] for l in Ls[1:]] + [Ls[0] >= 0, Ls[0] <= 4096] + \
                   [And(s[2]['R'] >= 0, s[2]['R'] <= 4096) for s in syms]
            m = ctx.model(*cons)
            cli = None
            if m is not None:
                txt, size = render(shape, syms, m, iter(syms))
                cli = (txt, {'f': {'size': size}})
            else:
                m = ctx.model(r1 == r2)
                txt, size = render(shape, syms, m, iter(syms))
            top = shape[0]
            sess.violated(name, 'negate_expr_op/keeps-%s' % top, 'not %s evaluates like %s' % (txt, txt),
                          {'shape': repr(shape), 'formula': txt, 'cli': cli},
                          cli_partition_replay(*cli) if cli else None, fam)
            box['viol'] = True

        ex.explore(run, on_path)
        if not box.get('viol') and not box.get('bad'):
            sess.discharged('%s: %r' % (fam, shape), family=fam, queries=box.get('paths', 1))


def main(sess):
    sess.engines = ['mirsym (MIR symbolic execution) + z3 %s' % z3.get_version_string()]
    sess.assumptions += [
        'summary: Searcher::get_field_value returns an arbitrary Variant of the column type (its arms are C04); get_column_expr_value, Expr::fmt, Variant::* run from their real MIR',
        'Float operands are not NaN; DateTime literal interval a <= b',
        'regex::Regex::{new,is_match} are uninterpreted (same pattern, same subject => same verdict)',
        'operators are restricted to the well-typed ones per operand type (comparison ops for Int/Float/Bool/DateTime, '
        'equality and pattern ops for String); Between/NotBetween are desugared by the parser and never reach the tables',
    ]
    sess.pending_negate = []
    only = getattr(sess, 'only', None)

    def want(f):
        return not only or f in only
    if want('negate_table'):
        fam_negate_table(sess)
    for ty in ('Int', 'Float', 'Bool', 'DateTime', 'String'):
        if want('complement'):
            fam_complement(sess, ty, sess.pending_negate)
    # a negate() entry that deviates from the textbook table but produced no observable disagreement is still wrong
    seen = {o.role for o in sess.obs if o.status == 'violated'}
    for (op, got, want_) in sess.pending_negate:
        if ('negate/' + op) not in seen and want('complement'):
            sess.inconclusive('negate(%s) = %s, expected %s' % (op, got, want_), 'no replayable witness found', 'negate_table')
    if want('negate_expr_tree'):
        fam_negate_expr_tree(sess)
    if want('not_between'):
        from drivers import c02
        c02.fam_between(sess, negs=(True,))
    try:
        from drivers import c03_formula
        if want('formula'):
            c03_formula.run(sess)
    except ImportError:
        pass
    if want('e2e'):
        from drivers import e2e
        e2e.family_for(sess, 'C03')
