"""C12 — glob, LIKE, exact and regex matching agree with their textbook definitions.

  translate/glob, translate/like  (Engine C) for every pattern of a bounded pattern grammar the regex text produced by the
        *real* convert_glob_to_pattern / convert_like_to_pattern (native driver over the tree's glob.rs) is parsed into a z3
        regular language and compared with the textbook language of the pattern over ALL subjects (no length bound) of the
        property's alphabet: z3 decides  exists s: s in L(impl) xor s in L(ref).
  evaluator  (Engine B) the String arm of the real Searcher::conforms with the regex cache in an arbitrary state left by one
        earlier evaluation: every operator takes the documented decision (glob / LIKE / regex search / literal) and each
        negative operator is the complement of its positive twin.
"""
import itertools
import z3
from z3 import BoolVal, Not, And, Or
from mirsym.core import conc, some, none, Ref, Cell
from mirsym.models_std import Str
from drivers import evalcore as E
import relang as R
import common

PLAIN = ['a', 'B', '7', ' ']
META = ['.', '+', '(', ')', '[', ']', '{', '}', '|', '^', '$', '-', ',', "'", '#', '~', '\\']
SUBJ_SIGMA = "abAB17 .+()[]{}|^$-,'#~*?%_\\"


def ref_lang(p, wild_many, wild_one, sigma):
    parts = []
    for c in p:
        if c == wild_many:
            parts.append(z3.Star(R.anychar(sigma)))
        elif c == wild_one:
            parts.append(R.anychar(sigma))
        else:
            parts.append(R.lit(c, True))
    if not parts:
        return z3.Re('')
    return parts[0] if len(parts) == 1 else z3.Concat(*parts)


def literal_lang(p):
    return z3.Re(p)


def patterns(kind, maxlen):
    wilds = ['*', '?'] if kind == 'glob' else ['%', '_']
    others = ['%', '_'] if kind == 'glob' else ['*', '?']
    syms = PLAIN[:2] + META + wilds + others
    out = []
    for n in range(1, maxlen + 1):
        for t in itertools.product(syms, repeat=n):
            p = ''.join(t)
            if kind == 'glob' and not ('*' in p or '?' in p):
                continue          # `=` treats a pattern without * / ? as a literal (evaluator family)
            out.append(p)
    return out


def cli_replay(kind, pattern, subject, expect_match):
    def rep():
        exe = common.native_binary()
        if '/' in subject or subject in ('', '.', '..') or '\0' in subject:
            return False, 'witness %r is not a file name' % subject
        tree = {subject: {'size': 1}}
        op = '=' if kind == 'glob' else 'like'
        quote = '"' if "'" in pattern else "'"
        r = common.run_cli(exe, ['name', 'from', '.', 'where', 'name', op, quote + pattern + quote], tree)
        rows = r['stdout'].split('\n')[:-1]
        got = subject in rows
        return (got != expect_match or r['status'] != 0), 'file %r, where name %s %s%s%s -> rows %r status %s %s ; textbook says %s' % (
            subject, op, quote, pattern, quote, rows, r['status'], r['stderr'][:120], 'match' if expect_match else 'no match')
    return rep


def fam_translate(sess, kind):
    fam = 'translate/' + kind
    maxlen = 2 if sess.tier == 'quick' else 3
    pats = patterns(kind, maxlen)
    sess.bounds[fam] = {'pattern length': '1..%d' % maxlen, 'pattern symbols': PLAIN[:2] + META + ['*', '?', '%', '_'], 'patterns': len(pats),
                        'subjects': 'every string over %r (no length bound)' % SUBJ_SIGMA}
    res = R.run_driver([(kind, p) for p in pats])
    wm, wo = ('*', '?') if kind == 'glob' else ('%', '_')
    roles = {}
    stats = {'equal': 0, 'differ': 0, 'unparsed': 0, 'unknown': 0}
    order = sorted(range(len(pats)), key=lambda i: (len({c for c in pats[i] if c in META or (c in '*?%_' and c not in (wm, wo))}), len(pats[i])))
    blamed = set()
    for p, (rx, okc) in [(pats[i], res[i]) for i in order]:
        if rx is None:
            sess.inconclusive('%s %r' % (fam, p), 'the native driver gave no answer', fam); continue
        ref = ref_lang(p, wm, wo, SUBJ_SIGMA)
        specials = ''.join(sorted({c for c in p if c in META or (c in '*?%_' and c not in (wm, wo))}))
        if any(c in blamed for c in specials):
            stats.setdefault('covered_by_a_shorter_witness', 0); stats['covered_by_a_shorter_witness'] += 1
            continue
        if not okc:
            # Regex::new rejects the generated text: `=` falls back to literal equality, LIKE exits with an error
            if kind == 'glob':
                impl = literal_lang(p)
            else:
                role = 'like/invalid-regex/' + specials
                blamed.update(specials)
                if role not in roles:
                    roles[role] = True
                    sess.violated('%s %r' % (fam, p), role, 'the generated regex %r is rejected by Regex::new: the query exits with an error' % rx,
                                  {'pattern': p, 'regex': rx}, cli_replay(kind, p, p.replace('%', 'x').replace('_', 'y'), True), fam)
                stats['differ'] += 1
                continue
        else:
            try:
                impl = R.regex_to_z3(rx, SUBJ_SIGMA)
            except R.Unparsed as e:
                stats['unparsed'] += 1
                sess.inconclusive('%s %r' % (fam, p), 'generated regex %r outside the translated subset: %s' % (rx, e), fam)
                continue
        verdict, w, in_impl = R.languages_differ(impl, ref, SUBJ_SIGMA)
        if verdict == 'equal':
            stats['equal'] += 1
            continue
        if verdict == 'unknown':
            stats['unknown'] += 1
            sess.inconclusive('%s %r' % (fam, p), 'solver: unknown', fam); continue
        stats['differ'] += 1
        blamed.update(specials)
        role = '%s/%s' % (kind, ('unescaped:' + specials) if specials else 'wildcards')
        if role in roles:
            continue
        roles[role] = True
        sess.violated('%s %r' % (fam, p), role, 'regex %r: subject %r is %s by the implementation but the textbook says the opposite' % (rx, w, 'matched' if in_impl else 'rejected'),
                      {'pattern': p, 'regex': rx, 'subject': w}, cli_replay(kind, p, w, not in_impl), fam)
    sess.sample({'family': fam, 'stats': stats, 'examples': [(p, r[0]) for p, r in list(zip(pats, res))[:4]]})
    if not roles and not stats['unparsed'] and not stats['unknown']:
        sess.discharged('%s: %d patterns: L(generated regex) = L(textbook) over all subjects' % (fam, len(pats)), family=fam, queries=len(pats))
    sess.validated += cross_validate(sess, kind, pats, res)


def cross_validate(sess, kind, pats, res):
    """our RegLan translation vs the real regex crate on concrete subjects (guards the translator itself)"""
    import random
    rnd = random.Random(sess.seed)
    reqs = []; exp = []
    sample = rnd.sample(list(zip(pats, res)), min(40, len(pats)))
    for p, (rx, okc) in sample:
        if not okc or rx is None:
            continue
        try:
            lang = R.regex_to_z3(rx, SUBJ_SIGMA)
        except R.Unparsed:
            continue
        for _ in range(3):
            s_ = ''.join(rnd.choice(SUBJ_SIGMA) for _ in range(rnd.randint(0, 4)))
            reqs.append(('match', rx, s_))
            exp.append((rx, s_, z3.is_true(z3.simplify(z3.InRe(z3.StringVal(s_), lang)))))
    if not reqs:
        return 0
    out = R.run_driver(reqs)
    bad = 0
    for (rx, s_, want), (txt, okc) in zip(exp, out):
        if okc and (txt == '1') != want:
            bad += 1
            sess.inconclusive('translator cross-check', 'regex %r subject %r: real Regex::is_match = %s, our RegLan = %s' % (rx, s_, txt == '1', want), 'translate/' + kind)
    return len(reqs)


def fam_evaluator(sess):
    prog = sess.prog
    fam = 'evaluator'
    ex = sess.executor(E.EVAL_OVERRIDES, unwind=8)
    ops = ['Eq', 'Ne', 'Rx', 'NotRx', 'Like', 'NotLike', 'Eeq', 'Ene']
    pats = ['f*', 'abc'] if sess.tier == 'quick' else ['f*', 'abc', 'a?c', 'f%']
    sess.bounds[fam] = {'operators': ops, 'patterns': pats, 'cache pre-state': 'empty, or filled by one earlier evaluation with any operator and the same pattern'}
    viol = {}
    npaths = [0]
    for pat in pats:
        for first in [None] + ops:
            for second in ops:
                def run(ctx, pat=pat, first=first, second=second):
                    subj = Str(term=ctx.fresh('subj', z3.StringSort()))
                    ctx.ghost['fields'] = {'Name': E.mk_variant(prog, 'String', string_value=subj)}
                    s = E.mk_searcher(prog)
                    mk = lambda op: E.expr_cmp(prog, E.expr_field(prog, 'Name'), E.op_enum(prog, op), E.expr_value(prog, pat))
                    if first is not None:
                        E.run_conforms(ctx, prog, mk(first), s)
                    r = E.run_conforms(ctx, prog, mk(second), s)
                    return subj, r

                def on_path(ctx, out, pat=pat, first=first, second=second):
                    npaths[0] += 1
                    name = 'evaluator: name %s %r%s' % (second, pat, (' after %s' % first) if first else '')
                    if out[0] == 'exit':
                        return      # error_exit on an uncompilable pattern (both polarities alike)
                    if out[0] != 'ret':
                        viol['bad'] = True; sess.inconclusive(name, str(out), fam); return
                    subj, r = out[1]
                    tbl = ctx.ghost.get('is_match', {})
                    okt = ctx.ghost.get('regex_ok', {})
                    sk = str(subj.term)
                    glob = ('*' in pat or '?' in pat)
                    pos = {'Eq': 'Eq', 'Ne': 'Eq', 'Rx': 'Rx', 'NotRx': 'Rx', 'Like': 'Like', 'NotLike': 'Like', 'Eeq': 'Eeq', 'Ene': 'Eeq'}[second]
                    negd = second in ('Ne', 'NotRx', 'NotLike', 'Ene')
                    lit_eq = subj.term == z3.StringVal(pat)
                    if pos == 'Eeq' or (pos == 'Eq' and not glob):
                        want = lit_eq
                    else:
                        key = {'Eq': 'GLOB(%s)' % pat, 'Like': 'LIKE(%s)' % pat, 'Rx': pat}[pos]
                        if (key, sk) not in tbl:
                            # the documented regex was never consulted on this path: the decision cannot be the documented one
                            want = ctx.fresh_bool('documented_verdict')
                        else:
                            want = tbl[(key, sk)]
                        if pos == 'Eq' and key in okt:
                            want = z3.If(okt[key], want, lit_eq)
                    want = Not(want) if negd else want
                    res = ctx.check(r != want)
                    if res == z3.unsat:
                        return
                    role = 'evaluator/cache' if first else 'evaluator/%s' % second
                    if viol.get(role):
                        return
                    viol[role] = True

                    def rep(pat=pat, first=first, second=second):
                        import re as _re
                        exe = common.native_binary()
                        names = ['f1', 'f*', 'abc', 'ABC', 'a?c', 'aXc', 'f%', 'zzz', 'F2', 'F*', 'xabcx']
                        tree = {n: {'size': 1} for n in names}

                        def wild(p_, many, one):
                            return '(?is)^' + ''.join('.*' if c == many else '.' if c == one else _re.escape(c) for c in p_) + '$'

                        def truth(op, n):
                            posop = {'Eq': 'Eq', 'Ne': 'Eq', 'Rx': 'Rx', 'NotRx': 'Rx', 'Like': 'Like', 'NotLike': 'Like', 'Eeq': 'Eeq', 'Ene': 'Eeq'}[op]
                            if posop == 'Eeq' or (posop == 'Eq' and not ('*' in pat or '?' in pat)):
                                v = (n == pat)
                            elif posop == 'Eq':
                                v = bool(_re.match(wild(pat, '*', '?'), n))
                            elif posop == 'Like':
                                v = bool(_re.match(wild(pat, '%', '_'), n))
                            else:
                                try:
                                    v = bool(_re.search(pat, n))
                                except _re.error:
                                    return None
                            return (not v) if op in ('Ne', 'NotRx', 'NotLike', 'Ene') else v
                        t2 = E.OP_TEXT[second]
                        last = ''
                        # the earlier evaluation fills the cache; `or` hides the later verdict where the earlier one is true, `and` where it is false: try both
                        for conn in (('or', 'and') if first else ('',)):
                            argv = ['name', 'from', '.', 'where']
                            if first:
                                argv += ['name', E.OP_TEXT[first], "'%s'" % pat, conn]
                            argv += ['name', t2, "'%s'" % pat]
                            r_ = common.run_cli(exe, argv, tree)
                            got = sorted(r_['stdout'].split('\n')[:-1])
                            want = []
                            for n in names:
                                tv = truth(second, n); fv = truth(first, n) if first else (conn == 'and')
                                if tv is None or fv is None:
                                    return False, 'pattern %r is not a valid regular expression: no textbook verdict' % pat
                                if (tv and fv) if conn == 'and' else (tv or fv):
                                    want.append(n)
                            last = 'fselect %s -> %r ; textbook %r (status %s %s)' % (' '.join(argv[4:]), got, sorted(want), r_['status'], r_['stderr'][:100])
                            if got != sorted(want) or r_['status'] != 0:
                                return True, last
                        return False, last
                    sess.violated(name, role, 'the decision is not the documented one for this operator', {'pattern': pat, 'first': first, 'second': second}, rep, fam)
                ex.explore(run, on_path)
    if not viol:
        sess.discharged('evaluator: %d operator pairs x %d patterns: every operator takes the documented decision whatever the cache holds' % (len(ops) * (len(ops) + 1), len(pats)),
                        family=fam, queries=npaths[0])


def main(sess):
    sess.engines = ['relang (regex text of the real translators -> z3 RegLan) + z3', 'mirsym + z3 (evaluator family)']
    sess.level = 'translation_validation'
    sess.assumptions += [
        'pattern side enumerated (bounded grammar), subject side symbolic and unbounded; subjects range over the alphabet of the property statement (no newline, no `/`)',
        'the regex crate implements its documented syntax (our RegLan translation of the emitted subset is cross-checked against the real crate on random subjects every run)',
        'evaluator family: Regex::new verdict and Regex::is_match are uninterpreted per (regex text, subject); convert_*_to_pattern summarised as tagged texts there',
    ]
    only = getattr(sess, 'only', None)
    if not only or 'glob' in only:
        fam_translate(sess, 'glob')
    if not only or 'like' in only:
        fam_translate(sess, 'like')
    if not only or 'evaluator' in only:
        fam_evaluator(sess)
    if not only or 'e2e' in only:
        from drivers import e2e
        e2e.family_for(sess, 'C12', quick_n=3)
