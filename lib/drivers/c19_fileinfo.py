"""C19 family `fileinfo` — what an archive member reports.

  member_time   util::datetime::to_local_datetime (real MIR) on a symbolic zip::DateTime under a SYMBOLIC CLOCK (Local::now is an
                arbitrary valid calendar instant; chrono's with_year / with_month / with_day / with_hour / with_minute / with_second by
                contract: None when the resulting date or time does not exist): for every stored date that exists in the calendar the
                result is that date and time whatever the clock says, and it never panics (dates the zip reader rejects never arrive)
  member_columns the get_field_value arms of name / size / is_empty / mode booleans / is_hidden for a member come from the FileInfo
                record, never from the container file (see also C04 wiring, zip variants)
"""
import z3
from z3 import BitVecVal, BoolVal, Not, And, Or, If, ULT, ULE, UGE
from mirsym.core import Agg, EnumV, Cell, Ref, UNIT, some, none, ok, err, conc, Unmodelled, Panic
from mirsym.models_std import Str
from drivers import evalcore as E
import common


def dim(y, m):
    """days in month m of year y (proleptic Gregorian), as a 32-bit term"""
    leap = And(z3.URem(y, 4) == 0, Or(z3.URem(y, 100) != 0, z3.URem(y, 400) == 0))
    return If(m == 2, If(leap, BitVecVal(29, 32), BitVecVal(28, 32)), If(Or(m == 4, m == 6, m == 9, m == 11), BitVecVal(30, 32), BitVecVal(31, 32)))


class CalDT:
    """chrono NaiveDateTime as calendar fields (32-bit terms)"""
    def __init__(self, y, m, d, h, mi, s):
        self.y, self.m, self.d, self.h, self.mi, self.s = y, m, d, h, mi, s

    def clone_model(self, ctx):
        return self

    def valid(self):
        return And(UGE(self.m, BitVecVal(1, 32)), ULE(self.m, BitVecVal(12, 32)), UGE(self.d, BitVecVal(1, 32)), ULE(self.d, dim(self.y, self.m)),
                   ULT(self.h, BitVecVal(24, 32)), ULT(self.mi, BitVecVal(60, 32)), ULT(self.s, BitVecVal(60, 32)))


class ZipDT:
    def __init__(self, ctx):
        g = lambda n, hi: (lambda v: (ctx.assume(ULE(v, BitVecVal(hi, 32))), v)[1])(ctx.fresh_bv('zip_' + n, 32))
        # what the zip crate hands out: the reader keeps a stored MS-DOS date only if DateTime::try_from_msdos accepts it (an existing
        # calendar date of the years 1980..2107, hour <= 23, minute <= 59, second <= 58), otherwise last_modified() is None
        self.y = ctx.fresh_bv('zip_year', 32); ctx.assume(And(UGE(self.y, BitVecVal(1980, 32)), ULE(self.y, BitVecVal(2107, 32))))
        self.m, self.d, self.h, self.mi, self.s = g('month', 12), g('day', 31), g('hour', 23), g('minute', 59), g('second', 58)
        ctx.assume(CalDT(self.y, self.m, self.d, self.h, self.mi, self.s).valid())


def models():
    out = []

    def reg(pat, name):
        def deco(f):
            out.append((pat, f, name)); return f
        return deco

    @reg(r'^chrono::Local::now$|^Local::now$', 'clock: Local::now is an arbitrary existing calendar instant (years 1970..2200)')
    def now(ctx, args, callee):
        f = lambda n: ctx.fresh_bv('now_' + n, 32)
        c = CalDT(f('year'), f('month'), f('day'), f('hour'), f('minute'), f('second'))
        ctx.assume(And(UGE(c.y, BitVecVal(1970, 32)), ULE(c.y, BitVecVal(2200, 32)), c.valid()))
        ctx.ghost['now'] = c
        return c

    @reg(r'^chrono::DateTime::naive_local$|^chrono::DateTime::naive_utc$', 'chrono:naive_local')
    def naive(ctx, args, callee):
        return ctx.deref(args[0])

    @reg(r'^zip::DateTime::(year|month|day|hour|minute|second)$', 'zip::DateTime accessors (u16 / u8)')
    def zacc(ctx, args, callee):
        z = ctx.deref(args[0]); k = callee.rsplit('::', 1)[1]
        v = {'year': z.y, 'month': z.m, 'day': z.d, 'hour': z.h, 'minute': z.mi, 'second': z.s}[k]
        return z3.Extract(15, 0, v) if k == 'year' else z3.Extract(7, 0, v)

    @reg(r'^<NaiveDateTime as Datelike>::with_(year|month|day)$', 'chrono:with_year / with_month / with_day -> None when the date does not exist')
    def with_date(ctx, args, callee):
        c = ctx.deref(args[0]); v = args[1]
        k = callee.rsplit('_', 1)[1]
        if k == 'year':
            v = z3.SignExt(0, v) if v.size() == 32 else z3.ZeroExt(32 - v.size(), v)
            n = CalDT(v, c.m, c.d, c.h, c.mi, c.s)
        elif k == 'month':
            n = CalDT(c.y, v, c.d, c.h, c.mi, c.s)
        else:
            n = CalDT(c.y, c.m, v, c.h, c.mi, c.s)
        if ctx.decide(n.valid()):
            return some(n)
        return none()

    @reg(r'^<NaiveDateTime as Timelike>::with_(hour|minute|second)$', 'chrono:with_hour / with_minute / with_second -> None outside the range')
    def with_time(ctx, args, callee):
        c = ctx.deref(args[0]); v = args[1]
        k = callee.rsplit('_', 1)[1]
        n = CalDT(c.y, c.m, c.d, v if k == 'hour' else c.h, v if k == 'minute' else c.mi, v if k == 'second' else c.s)
        if ctx.decide(n.valid()):
            return some(n)
        return none()

    @reg(r'^(chrono::)?NaiveDate::from_ymd_opt$', 'chrono:NaiveDate::from_ymd_opt')
    def from_ymd(ctx, args, callee):
        y, m, d = args[0], args[1], args[2]
        n = CalDT(y, m, d, BitVecVal(0, 32), BitVecVal(0, 32), BitVecVal(0, 32))
        if ctx.decide(n.valid()):
            return some(n)
        return none()

    @reg(r'^(chrono::)?NaiveDate::and_hms_opt$', 'chrono:NaiveDate::and_hms_opt')
    def and_hms(ctx, args, callee):
        c = ctx.deref(args[0])
        n = CalDT(c.y, c.m, c.d, args[1], args[2], args[3])
        if ctx.decide(n.valid()):
            return some(n)
        return none()

    @reg(r'^<NaiveDateTime as (std::default::)?Default>::default$|^<(chrono::)?NaiveDate as (std::default::)?Default>::default$', 'chrono: Default = 1970-01-01 00:00:00')
    def dflt(ctx, args, callee):
        return CalDT(BitVecVal(1970, 32), BitVecVal(1, 32), BitVecVal(1, 32), BitVecVal(0, 32), BitVecVal(0, 32), BitVecVal(0, 32))

    return out


NATIVE = r'''
#[cfg(test)]
mod verif_c19_time {
    use super::*;
    // VERIF_INPUT: "y m d h mi s" of the stored zip date; the clock is pinned by a substitution of Local::now() in the scratch copy
    #[test]
    fn run() {
        let v: Vec<u32> = std::env::var("VERIF_INPUT").unwrap().split(' ').map(|x| x.parse().unwrap()).collect();
        let raw_date: u16 = (((v[0] - 1980) << 9) | (v[1] << 5) | v[2]) as u16;
        let raw_time: u16 = ((v[3] << 11) | (v[4] << 5) | (v[5] / 2)) as u16;
        let dt = zip::DateTime::try_from_msdos(raw_date, raw_time).unwrap();
        println!("VERIF_OUT {}", format_datetime(&to_local_datetime(&dt)));
    }
}
'''


def native_member_time(now, stored):
    """run the real to_local_datetime on the stored zip date with the clock pinned to `now` (y, m, d)"""
    pin = 'chrono::TimeZone::with_ymd_and_hms(&Local, %d, %d, %d, 12, 0, 0).unwrap()' % now
    rc, lines, raw = common.native_unit('c19time', 'src/util/datetime.rs', NATIVE, 'util::datetime::verif_c19_time::run', ' '.join(str(x) for x in stored),
                                        subs={'src/util/datetime.rs': [('pub fn to_local_datetime(dt: &zip::DateTime) -> NaiveDateTime {\n    Local::now()',
                                                                         'pub fn to_local_datetime(dt: &zip::DateTime) -> NaiveDateTime {\n    ' + pin)]} if now else None)
    return rc, (lines[0] if lines else None), raw


def fam_member_time(sess):
    prog = sess.prog
    fam = 'member_time'
    ex = sess.executor(models(), unwind=4)
    f = prog.find_free('to_local_datetime')
    sess.bounds[fam] = {'stored zip date': 'every date and time zip::DateTime::try_from_msdos accepts (existing dates of 1980..2107; the reader drops the others)',
                        'clock': 'every existing calendar instant of the years 1970..2200'}
    box = {'paths': 0}

    def run(ctx):
        z = ZipDT(ctx)
        return z, ctx.call_fn(f, [Ref(Cell(z))])

    def witness(ctx, z, extra=()):
        m = ctx.model(*extra)
        ev = lambda t: m.eval(t, model_completion=True).as_long()
        n = ctx.ghost.get('now')
        return (ev(n.y), ev(n.m), ev(n.d)) if n is not None else None, (ev(z.y), ev(z.m), ev(z.d), ev(z.h), ev(z.mi), ev(z.s) & ~1)

    def on_path(ctx, out):
        box['paths'] += 1
        z = None
        if out[0] == 'panic':
            # which stored values / clocks reach it
            zs = [v for v in ctx.__dict__.get('_last_zip', [])]
            if box.get('viol_panic'):
                return
            box['viol_panic'] = True
            z = ctx.ghost.get('zipdt')
            now, stored = witness(ctx, z)
            stored_ok = CalDT(*[BitVecVal(x, 32) for x in stored])
            role = 'member_time/panic/' + ('clock-dependent' if z3.is_true(z3.simplify(stored_ok.valid())) else 'invalid-stored-date')

            def rep(now=now, stored=stored):
                rc, line, raw = native_member_time(now, stored)
                return rc != 0, 'to_local_datetime(zip date %r) with the clock at %r: %s' % (stored, now, 'panics: ' + [l for l in raw.splitlines() if 'panicked' in l or 'unwrap' in l][:1].__repr__() if rc != 0 else 'returns %r' % line)
            sess.violated('%s: stored %r, clock %r' % (fam, stored, now), role, out[1][:140], {'stored': stored, 'now': now}, rep, fam)
            return
        if out[0] != 'ret':
            if not box.get('bad'):
                box['bad'] = True; sess.inconclusive(fam, str(out)[:300], fam)
            return
        z, r = out[1]
        stored = CalDT(z.y, z.m, z.d, z.h, z.mi, z.s)
        same = And(r.y == z.y, r.m == z.m, r.d == z.d, r.h == z.h, r.mi == z.mi, r.s == z.s) if isinstance(r, CalDT) else BoolVal(False)
        cond = z3.Implies(stored.valid(), same)
        if ctx.check(Not(cond)) == z3.unsat or box.get('viol'):
            return
        box['viol'] = True
        now, st = witness(ctx, z, (Not(cond),))

        def rep(now=now, st=st):
            rc, line, raw = native_member_time(now, st)
            want = '%04d-%02d-%02d %02d:%02d:%02d' % st
            return rc != 0 or line != want, 'to_local_datetime(zip date %r) with the clock at %r -> %r, stored %r' % (st, now, line, want)
        sess.violated('%s: stored %r' % (fam, st), 'member_time/value', 'the member time is not the stored date and time', {'stored': st, 'now': now}, rep, fam)

    def run_wrapped(ctx):
        z = ZipDT(ctx)
        ctx.ghost['zipdt'] = z
        return z, ctx.call_fn(f, [Ref(Cell(z))])
    ex.explore(run_wrapped, on_path)
    if not box.get('viol') and not box.get('viol_panic') and not box.get('bad'):
        sess.discharged('member_time: the stored date and time whatever the clock; no stored value panics', family=fam, queries=box['paths'])


def run(sess):
    fam_member_time(sess)
    # member_columns: the get_field_value arms for zip members (mode present / absent) are the zip variants of the C04 wiring family
    from drivers import c04_wiring
    c04_wiring.fam_wiring(sess, only_zip=True)
