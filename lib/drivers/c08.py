"""C08 — GROUP BY partitions the matching entries; per-group aggregates are exact.

The grouped tail of the real Searcher::list_search_results (entered from bb0 with no roots and a pre-filled row buffer),
Searcher::partition_output_buffer with its closures, get_column_expr_value / get_function_value / get_aggregate_value per
group and the ORDER BY comparator closure are executed symbolically from MIR. Rows carry a group key (symbolic choice
from a small table, possibly absent) and a symbolic size; z3 decides that the emitted rows are exactly one per distinct
key, with COUNT / SUM of that block (so the counts add up to N and the sums to the total), sorted when ORDER BY is given."""
import itertools
import z3
from z3 import BitVecVal, BoolVal, Not, And, Or, If, ULT, ULE
from mirsym.core import Agg, EnumV, Cell, Ref, BoxV, some, none, conc, Unmodelled
from mirsym.models_std import Str, Seq, Map, RcV, deep_clone
from mirsym.models_fmt import NumStr
from drivers import evalcore as E, walker as W
import common

KEYS = ['', 'a', 'b']          # '' doubles as "column absent from the row"


def fn_enum(prog, name):
    return EnumV(prog.src.variant_index('Function', name), {}, 'Function')


def mk_query(prog, order, desc, fnkey=False):
    ext = (lambda: E.mk_expr(prog, function=some(fn_enum(prog, 'Length')), left=some(BoxV(E.expr_field(prog, 'Name'))), args=some(Seq([])))) if fnkey \
        else (lambda: E.expr_field(prog, 'Extension'))
    cnt = E.mk_expr(prog, function=some(fn_enum(prog, 'Count')), left=some(BoxV(E.expr_field(prog, 'Name'))), args=some(Seq([])))
    sm = E.mk_expr(prog, function=some(fn_enum(prog, 'Sum')), left=some(BoxV(E.expr_field(prog, 'Size'))), args=some(Seq([])))
    fields = [ext(), cnt, sm]
    if order == 'keylast':
        fields = [cnt, sm, ext()]       # the key is selected last: its select-list position differs from its ORDER BY ordinal
    ordering = []
    if order in ('key', 'keylast'):
        ordering = [ext()]
    elif order == 'count':
        ordering = [deep_clone(None, cnt)] if False else [E.mk_expr(prog, function=some(fn_enum(prog, 'Count')), left=some(BoxV(E.expr_field(prog, 'Name'))), args=some(Seq([])))]
    elif order == 'sum':
        ordering = [E.mk_expr(prog, function=some(fn_enum(prog, 'Sum')), left=some(BoxV(E.expr_field(prog, 'Size'))), args=some(Seq([])))]
    return E.mk_struct(prog, 'Query', {}, fields=Seq(fields), roots=Seq([]), expr=none(),
                       grouping_fields=RcV(Seq([ext()])), ordering_fields=RcV(Seq(ordering)),
                       ordering_asc=RcV(Seq([BoolVal(not desc)] if ordering else [])),
                       limit=BitVecVal(0, 32), output_format=EnumV(prog.src.variant_index('OutputFormat', 'Tabs'), {}, 'OutputFormat'))


def overrides():
    ov = [o for o in W.models() if o[2] not in ('summary:ResultsWriter(token)',)]

    def write_row(ctx, args, callee):
        items = ctx.deref(args[2])
        row = []
        for c in items.items:
            row.append((c.v.f[0], c.v.f[1]))
        ctx.ghost.setdefault('rows', []).append(row)
        return W.ok(W.UNIT)

    def writer(ctx, args, callee):
        ctx.ghost.setdefault('tokens', []).append(callee.rsplit('::', 1)[1])
        return W.ok(W.UNIT)
    ov.insert(0, (r'ResultsWriter::write_row$', write_row, 'summary:ResultsWriter::write_row(capture)'))
    ov.insert(1, (r'ResultsWriter::write_header$|ResultsWriter::write_footer$|ResultsWriter::write_row_separator$', writer, 'summary:ResultsWriter(token)'))
    ov.append((r'WritableBuffer::new$', lambda ctx, a, c: Agg([], 'WritableBuffer'), 'stub:WritableBuffer'))
    ov.append((r'^<std::string::String as From<(wbuf::|util::)?WritableBuffer>>::from$', lambda ctx, a, c: Str(''), 'stub:String::from(WritableBuffer)'))
    return ov


NATIVE_NOTE = 'replay: CLI on a real tree'


def cli_replay(rows_spec, order, desc):
    """rows_spec: list of (key, size). files named f<i>.<key> (or no extension) of that size"""
    def rep():
        exe = common.native_binary()
        tree = {}
        for i, (k, sz) in enumerate(rows_spec):
            tree['f%d%s' % (i, ('.' + k) if k else '')] = {'size': sz}
        argv = (['count(name),', 'sum(size),', 'ext'] if order == 'keylast' else ['ext,', 'count(name),', 'sum(size)']) + ['from', '.', 'group', 'by', 'ext']
        if order:
            argv += ['order', 'by', {'key': 'ext', 'keylast': 'ext', 'count': 'count(name)', 'sum': 'sum(size)'}[order]] + (['desc'] if desc else [])
        r = common.run_cli(exe, argv, tree)
        got = [tuple(l.split('\t')) for l in r['stdout'].split('\n')[:-1]]
        if order == 'keylast':
            got = [(g[2], g[0], g[1]) if len(g) == 3 else g for g in got]
        exp = {}
        for k, sz in rows_spec:
            c, s_ = exp.get(k, (0, 0)); exp[k] = (c + 1, s_ + sz)
        want = [(k, str(c), str(s_)) for k, (c, s_) in exp.items()]
        bad = sorted(got) != sorted(want) or r['status'] != 0
        det = 'fselect %s over %r -> %r ; expected rows %r (status %s, stderr %r)' % (' '.join(argv), rows_spec, got, sorted(want), r['status'], r['stderr'][:200])
        if not bad and order:
            idx = {'key': 0, 'keylast': 0, 'count': 1, 'sum': 2}[order]
            col = [g[idx] for g in got]
            keyf = (lambda x: x) if order in ('key', 'keylast') else (lambda x: int(x))
            srt = sorted(col, key=keyf, reverse=desc)
            if [keyf(x) for x in col] != [keyf(x) for x in srt]:
                bad = True; det += ' ; rows are not sorted by %s %s' % (order, 'desc' if desc else 'asc')
        return bad, det
    return rep


def fam_parse_group_by(sess):
    """the whole real Parser::parse on `<key> , count ( name ) from . [where size > 1] group by <key>`: the grouping key parses to the
    plain column (also for boolean columns, with and without a WHERE clause)"""
    from drivers import parsecore as P
    prog = sess.prog
    fam = 'parse_group_by'
    ov = P.table_overrides() + P.lexer_stub_overrides() + [(r'^UserDirs::new$|^directories::UserDirs::new$', lambda ctx, a, c: none(), 'stub:UserDirs::new(None)')]
    ex = sess.executor(ov, unwind=30)
    parse = prog.find('Parser', 'parse')
    keys = ['ext', 'is_dir', 'size', 'mode', 'is_hidden', 'uid']
    Fq = E.struct_fields(prog, 'Query'); Fe = E.struct_fields(prog, 'Expr')
    for with_where in (False, True):
        box = {'seen': {}}

        def run(ctx, with_where=with_where):
            k1, t1 = P.sym_lexem(ctx, prog, keys, 'key')
            k2, t2 = P.sym_lexem(ctx, prog, keys, 'key2')
            ctx.assume(t1 == t2)
            toks = [k1] + [P.mk_lexem(prog, t) for t in [',', 'count', '(', 'name', ')', 'from', '.']]
            if with_where:
                toks += [P.mk_lexem(prog, t) for t in ['where', 'size', '>', '1']]
            toks += [P.mk_lexem(prog, 'group'), P.mk_lexem(prog, 'by'), k2]
            parser = P.mk_parser(prog, toks, roots_parsed=False, where_parsed=False)
            return t1, ctx.call_fn(parse, [Ref(Cell(parser)), Seq([]), BoolVal(False)])

        def on_path(ctx, out, with_where=with_where):
            name = 'parse_group_by %s WHERE' % ('with' if with_where else 'without')
            if out[0] != 'ret':
                box['bad'] = True; sess.inconclusive(name, str(out), fam); return
            t1, res = out[1]
            block = []
            for _ in range(len(keys)):
                m = ctx.model(*block)
                if m is None:
                    break
                k = m.eval(t1, model_completion=True).as_long(); block.append(t1 != k)
                key = keys[k]
                okv = False
                if conc(res.d) == 0:
                    q = res.p[0][0]
                    gf = ctx.deref(q.f[Fq.index('grouping_fields')])
                    gf = gf.cell.v if hasattr(gf, 'cell') else gf
                    if len(gf.items) == 1:
                        e = gf.items[0].v
                        fld = e.f[Fe.index('field')]; op = e.f[Fe.index('op')]; lft = e.f[Fe.index('left')]
                        okv = conc(fld.d) == 1 and conc(op.d) == 0 and conc(lft.d) == 0
                box['seen'][key] = okv
        ex.explore(run, on_path)
        name = 'parse_group_by %s WHERE' % ('with' if with_where else 'without')
        bad = [k for k, v in box['seen'].items() if not v]
        if bad:
            def rep(bad=bad, with_where=with_where):
                exe = common.native_binary()
                tree = {'a': {'size': 5}, 'd': {'kind': 'dir'}, 'd/b': {'size': 7}}
                k = bad[0]
                argv = [k + ',', 'count(name)', 'from', '.'] + (['where', 'size', '>', '1'] if with_where else []) + ['group', 'by', k]
                r = common.run_cli(exe, argv, tree)
                rows = [l.split('\t') for l in r['stdout'].split('\n')[:-1]]
                keysv = sorted(x[0] for x in rows)
                exp = sorted({'true', 'false'}) if k.startswith('is_') else None
                return (exp is not None and keysv != exp) or r['status'] != 0, 'fselect %s -> %r (status %s)' % (' '.join(argv), rows, r['status'])
            sess.violated(name, 'parse_group_by/' + '+'.join(bad), 'the grouping key does not parse to the plain column for %r' % bad, {'keys': bad}, rep, fam)
        elif not box.get('bad') and len(box['seen']) == len(keys):
            sess.discharged(name + ': every key column parses to itself', family=fam, queries=len(keys))
        elif not box.get('bad'):
            sess.inconclusive(name, 'keys not covered: %r' % sorted(set(keys) - set(box['seen'])), fam)


def cli_replay_fnkey(rows_spec):
    """group by length(name): files whose names have the lengths of the witness keys"""
    def rep():
        exe = common.native_binary()
        tree = {}
        exp = {}
        for i, (k, sz) in enumerate(rows_spec):
            ln = int(k) if k else 3
            name = ('%d' % i).ljust(ln, 'x')
            tree[name] = {'size': sz}
            c, s_ = exp.get(str(ln), (0, 0)); exp[str(ln)] = (c + 1, s_ + sz)
        argv = ['length(name), count(name), sum(size) from . group by length(name)']
        r = common.run_cli(exe, argv, tree)
        got = sorted(tuple(l.split('\t')) for l in r['stdout'].split('\n')[:-1])
        want = sorted((k, str(c), str(s_)) for k, (c, s_) in exp.items())
        return got != want or r['status'] != 0, 'fselect %s over %r -> %r ; expected %r (status %s)' % (argv[0], sorted(tree), got, want, r['status'])
    return rep


def main(sess):
    fam_parse_group_by(sess)
    prog = sess.prog
    sess.engines = ['mirsym (MIR symbolic execution) + z3 %s' % z3.get_version_string()]
    sess.assumptions += [
        'rows of the buffer are HashMap<String,String> contract models holding the group key column and a decimal size < 2^16; that the buffer holds exactly '
        'the matching entries is C01/C02; the aggregate arithmetic per block is C07',
        'HashMap iteration order is unspecified: group rows are compared as a set unless ORDER BY is present',
        'ResultsWriter::write_row is summarised (captures the row); formats are C09',
    ]
    N = 3 if sess.tier == 'quick' else 4
    sess.bounds['grouped'] = {'rows': '0..%d' % N, 'group key values': KEYS, 'sizes': '< 2^16 symbolic', 'order by': 'none | key asc/desc | count asc/desc | sum asc/desc'}
    lsr = prog.find('Searcher', 'list_search_results')
    new = prog.find('Searcher', 'new')
    Fs = E.struct_fields(prog, 'Searcher')
    for order, desc, fnkey in [(None, False, False), ('key', False, False), ('key', True, False), ('count', False, False), ('count', True, False),
                               ('sum', False, False), ('sum', True, False), (None, False, True), ('keylast', False, False), ('keylast', True, False)]:
        fam = 'grouped/' + (('order by %s %s' % (order, 'desc' if desc else 'asc')) if order else 'unordered') + (' (key length(name))' if fnkey else '')
        ex = sess.executor(overrides(), unwind=3 * N + 8, maxsteps=400000)
        box = {}
        for n in range(0, N + 1):
            def run(ctx, n=n, order=order, desc=desc, fnkey=fnkey):
                q = mk_query(prog, order, desc, fnkey)
                from mirsym.models_fmt import render_value
                gexpr = q.f[E.struct_fields(prog, 'Query').index('grouping_fields')].cell.v.items[0].v
                keycol = render_value(ctx, Ref(Cell(gexpr)), 'display', 'Expr').s if fnkey else 'Extension'
                keyvals = ['', '1', '22'] if fnkey else KEYS
                cfg = W.mk_config(prog)
                s = ctx.call_fn(new, [Ref(Cell(q)), Ref(Cell(cfg)), Ref(Cell(deep_clone(ctx, cfg))), BoolVal(False)])
                rows = []; info = []
                for i in range(n):
                    kv = ctx.fresh_bv('key%d' % i, 8)
                    ctx.assume(ULT(kv, BitVecVal(len(keyvals), 8)))
                    k = keyvals[ctx.concretize(kv, range(len(keyvals)))]
                    sz = ctx.fresh_bv('size%d' % i, 64); ctx.assume(ULT(sz, BitVecVal(1 << 16, 64)))
                    m = Map('HashMap')
                    if k != '' or ctx.decide(ctx.fresh_bool('present%d' % i)):
                        m.insert(ctx, Str(keycol), Str(k))
                    m.insert(ctx, Str('Size'), NumStr(sz, False))
                    m.insert(ctx, Str('Name'), Str('n%d' % i))
                    rows.append(m); info.append((k, sz))
                s.f[Fs.index('raw_output_buffer')] = Seq(rows)
                cell = Cell(s)
                ctx.ghost['fs'] = None
                res = ctx.call_fn(lsr, [Ref(cell)])
                return info, res

            def on_path(ctx, out, n=n, order=order, desc=desc, fam=fam, fnkey=fnkey):
                name = '%s, %d rows' % (fam, n)
                if out[0] != 'ret':
                    if out[0] == 'panic':
                        if not box.get('viol'):
                            box['viol'] = True
                            sess.violated(name, 'grouped/panic', out[1], {}, None, fam)
                    else:
                        box['bad'] = True; sess.inconclusive(name, str(out), fam)
                    return
                info, res = out[1]
                box['paths'] = box.get('paths', 0) + 1
                got = ctx.ghost.get('rows', [])
                exp = {}
                for k, sz in info:
                    c, s_ = exp.get(k, (0, BitVecVal(0, 64))); exp[k] = (c + 1, s_ + sz)
                conds = []
                gotkeys = []
                struct_ok = True
                if order == 'keylast':
                    got = [[r[2], r[0], r[1]] for r in got if len(r) == 3] if all(len(r) == 3 for r in got) else got
                for row in got:
                    if len(row) != 3:
                        struct_ok = False; break
                    kcell = row[0][1]
                    if not isinstance(kcell, Str) or kcell.s is None:
                        struct_ok = False; break
                    gotkeys.append(kcell.s)
                if n == 0:
                    struct_ok = struct_ok and len(got) == 0
                if struct_ok and sorted(gotkeys) == sorted(exp):
                    for row in got:
                        k = row[0][1].s
                        c, s_ = exp[k]
                        cv, sv = row[1][1], row[2][1]
                        conds.append(BoolVal(isinstance(cv, Str) and cv.s == str(c)) if not isinstance(cv, NumStr) else cv.bv == c)
                        if isinstance(sv, NumStr):
                            conds.append(sv.bv == s_)
                        elif isinstance(sv, Str) and sv.s is not None and sv.s.isdigit():
                            conds.append(s_ == int(sv.s))
                        else:
                            conds.append(BoolVal(False))
                    if order in ('key', 'keylast'):
                        srt = sorted(gotkeys, reverse=desc)
                        conds.append(BoolVal(gotkeys == srt))
                    elif order == 'count':
                        cs = [exp[k][0] for k in gotkeys]
                        conds.append(BoolVal(cs == sorted(cs, reverse=desc)))
                    elif order == 'sum':
                        ss = [exp[k][1] for k in gotkeys]      # multi-digit, symbolic: text order and numeric order differ
                        for x, y in zip(ss, ss[1:]):
                            conds.append(z3.UGE(x, y) if desc else z3.ULE(x, y))
                else:
                    conds.append(BoolVal(False))
                r = ctx.check(Not(And(conds))) if conds else z3.unsat
                if r == z3.unsat:
                    return
                if r != z3.sat:
                    box['bad'] = True; sess.inconclusive(name, 'solver unknown', fam); return
                if box.get('viol'):
                    return
                box['viol'] = True
                m = ctx.model(Not(And(conds)))
                spec = [(k, m.eval(sz, model_completion=True).as_long()) for k, sz in info]
                shown = [[(str(a), str(b)) for a, b in row] for row in got]
                role = 'grouped/' + ('order' if (struct_ok and sorted(gotkeys) == sorted(exp) and order) else 'partition')
                sess.violated(name, role, 'rows %r -> group rows %r' % (spec, shown), {'rows': spec, 'order': order, 'desc': desc},
                              cli_replay_fnkey(spec) if fnkey else cli_replay(spec, order, desc), fam)
            ex.explore(run, on_path, time_budget=240 if sess.tier == 'quick' else 900)
        if not box.get('viol') and not box.get('bad'):
            sess.discharged('%s: 0..%d rows, every key assignment: one row per distinct key, COUNT and SUM of the block%s' % (fam, N, ', sorted' if order else ''),
                            family=fam, queries=box.get('paths', 1))
    from drivers import e2e
    e2e.family_for(sess, 'C08', quick_n=6)
