"""C16 — every documented scalar function computes its documented value for any argument.

  wiring   every arm of the real function::get_value with the library string / float routines *uninterpreted* (terms over an
           abstract text sort): LOWER is to_lowercase of its argument, CONCAT_WS joins the arguments with the first one,
           COALESCE returns the first non-empty value, POWER is powf(arg, arg1) ... ; z3 decides equality of the result term with
           the documented term (congruence), so a swapped routine, argument or order is a counterexample
  substr   SUBSTR on concrete subjects (ASCII and multi-byte) with *symbolic* position and length (all i32 / usize values):
           1-based, negative position from the end, optional length, in characters; no panic
  args     ill-typed / out-of-range arguments (non-numeric text, empty, huge) never crash: SUBSTR, POWER, LOG, FORMAT_TIME ...
  compose  Searcher::get_function_value: F(G(x)) applies F to the value of G(x), arguments are evaluated in order
"""
import re
import z3
from z3 import BitVecVal, BoolVal, Not, And, Or, If, ULT, ULE, UGE
from mirsym.core import Agg, EnumV, Cell, Ref, BoxV, UNIT, some, none, ok, err, conc, sconc, Unmodelled
from mirsym.models_std import Str, Seq, Map, SpecialStr, as_str, table_str, Iter, float_uf
from mirsym.models_fmt import NumStr, FloatStr
from drivers import evalcore as E
import common

TEXT = z3.DeclareSort('Text')
LIT = z3.Function('lit', z3.StringSort(), TEXT)
_UF = {}


def uf(name, *sorts):
    key = (name,) + tuple(str(s) for s in sorts)
    if key not in _UF:
        _UF[key] = z3.Function(name, *sorts)
    return _UF[key]


def tterm(x):
    if isinstance(x, TermStr):
        return x.t
    if isinstance(x, Str) and x.s is not None:
        return LIT(z3.StringVal(x.s))
    raise Unmodelled('text term of %r' % (x,))


class TermStr(SpecialStr):
    """abstract text: a term of the uninterpreted sort Text; every library routine applied to it is an uninterpreted function"""
    __slots__ = ('t',)

    def __init__(self, t):
        Str.__init__(self)
        self.t = t

    def __repr__(self):
        return 'Text(%s)' % self.t

    def sop(self, ctx, name, args, callee, *extra):
        if name in ('to_lower', 'to_upper'):
            ascii_ = 'ascii' in callee
            f = {'to_lower': 'to_lowercase', 'to_upper': 'to_uppercase'}[name]
            if ascii_:
                f = f.replace('to_', 'to_ascii_')
            return TermStr(uf(f, TEXT, TEXT)(self.t))
        if name in ('trim', 'trim_start', 'trim_end'):
            return TermStr(uf(name, TEXT, TEXT)(self.t))
        if name == 'replace':
            return TermStr(uf('replace', TEXT, TEXT, TEXT, TEXT)(self.t, tterm(as_str(ctx, args[1])), tterm(as_str(ctx, args[2]))))
        if name == 'is_empty':
            return uf('is_empty', TEXT, z3.BoolSort())(self.t)
        if name == 'len':
            return uf('byte_len', TEXT, z3.BitVecSort(64))(self.t)
        if name == 'chars':
            return TermChars(self.t)
        if name == 'contains':
            return uf('contains', TEXT, TEXT, z3.BoolSort())(self.t, tterm(as_str(ctx, ctx.deref(args[1]))))
        raise Unmodelled('%s on abstract text' % name)

    def parts(self):
        """flattened concatenation operands (concatenation is associative and '' is its identity)"""
        t = self.t
        if z3.is_app(t) and t.decl().name() == 'concat':
            return TermStr(t.arg(0)).parts() + TermStr(t.arg(1)).parts()
        if z3.is_app(t) and t.decl().name() == 'lit' and z3.is_string_value(t.arg(0)) and t.arg(0).as_string() == '':
            return []
        return [t]

    def concat_hook(self, ctx, other, other_first):
        o = other if isinstance(other, TermStr) else TermStr(tterm(other))
        ps = (o.parts() + self.parts()) if other_first else (self.parts() + o.parts())
        return TermStr(cat(ps))

    def eq_hook(self, ctx, other):
        return self.t == tterm(other)

    def parse_hook(self, ctx, ty):
        okb = uf('parses_' + ty, TEXT, z3.BoolSort())(self.t)
        if not ctx.decide(okb):
            return err(UNIT)
        if ty == 'f64':
            return ok(uf('val_f64', TEXT, z3.Float64())(self.t))
        from mirsym.mirparse import INT_W
        return ok(uf('val_' + ty, TEXT, z3.BitVecSort(INT_W[ty]))(self.t))


class TermChars(Iter):
    def __init__(self, t):
        self.t = t

    def count_hook(self, ctx):
        return uf('chars_count', TEXT, z3.BitVecSort(64))(self.t)


def cat(parts):
    """canonical (right-nested) concatenation of a list of text terms"""
    if not parts:
        return LIT(z3.StringVal(''))
    t = parts[-1]
    for p in reversed(parts[:-1]):
        t = uf('concat', TEXT, TEXT, TEXT)(p, t)
    return t


def concat_t(a, b):
    return cat(TermStr(a).parts() + TermStr(b).parts())


def fn_some(prog, name):
    return some(EnumV(prog.src.variant_index('Function', name), {}, 'Function'))


def call_get_value(ctx, prog, fname, arg, args):
    gv = prog.find_free('get_value')
    return ctx.call_fn(gv, [Ref(Cell(fn_some(prog, fname))), arg, Seq(list(args)), none(), Ref(Cell(none()))])


def variant_fields(prog, v):
    F = E.struct_fields(prog, 'Variant')
    return {n: v.f[i] for i, n in enumerate(F)}


# -------------------------------------------------------------------------------------------------- wiring
def fam_wiring(sess):
    prog = sess.prog
    fam = 'wiring'
    ex = sess.executor(unwind=8)
    A = z3.Const('arg', TEXT); B = z3.Const('arg1', TEXT); C = z3.Const('arg2', TEXT)
    f1 = lambda n: uf(n, TEXT, TEXT)
    pf = uf('val_f64', TEXT, z3.Float64())
    string_arms = {
        'Lower': (0, lambda: f1('to_lowercase')(A)),
        'Upper': (0, lambda: f1('to_uppercase')(A)),
        'Trim': (0, lambda: f1('trim')(A)),
        'LTrim': (0, lambda: f1('trim_start')(A)),
        'RTrim': (0, lambda: f1('trim_end')(A)),
        'Replace': (2, lambda: uf('replace', TEXT, TEXT, TEXT, TEXT)(A, B, C)),
        'Concat': (2, lambda: cat([A, B, C])),
        'ConcatWs': (2, lambda: cat([B, A, C])),
    }
    float_arms = {
        'Abs': (0, lambda: z3.fpAbs(pf(A))),
        'Sqrt': (0, lambda: z3.fpSqrt(z3.RNE(), pf(A))),
        'Ln': (0, lambda: float_uf('ln', 1)(pf(A))),
        'Exp': (0, lambda: float_uf('exp', 1)(pf(A))),
        'Power': (1, lambda: float_uf('powf', 2)(pf(A), pf(B))),
        'Log': (1, lambda: float_uf('log', 2)(pf(A), pf(B))),
    }
    sess.bounds[fam] = {'functions': sorted(string_arms) + sorted(float_arms) + ['Length', 'Coalesce', 'Least', 'Greatest'], 'arguments': 'abstract texts (uninterpreted sort)'}
    for fname, (nargs, want) in list(string_arms.items()) + list(float_arms.items()):
        box = {}

        def run(ctx, fname=fname, nargs=nargs):
            return call_get_value(ctx, prog, fname, TermStr(A), [TermStr(B), TermStr(C)][:nargs])

        def on_path(ctx, out, fname=fname, want=want):
            name = 'wiring %s' % fname
            if out[0] == 'panic':
                return          # argument parsing crashes are the `args` family
            if out[0] != 'ret':
                box['bad'] = True; sess.inconclusive(name, str(out), fam); return
            v = variant_fields(prog, out[1])
            box['paths'] = box.get('paths', 0) + 1
            if fname in float_arms:
                fv = v['float_value']
                if conc(fv.d) != 1:
                    # the argument did not parse as a number: the documented result is an empty value
                    sv = v['string_value']
                    if not (isinstance(sv, Str) and sv.s == ''):
                        box['viol'] = True
                        sess.violated(name, 'wiring/' + fname, 'non-numeric argument does not give an empty value', {}, cli_replay_fn(fname), fam)
                    return
                got = fv.p[1][0]
                cond = z3.fpEQ(got, want()) if not got.eq(want()) else BoolVal(True)
                if got.eq(want()):
                    return
                r = ctx.check(Not(Or(cond, And(z3.fpIsNaN(got), z3.fpIsNaN(want())))))
            else:
                sv = v['string_value']
                if not isinstance(sv, TermStr):
                    box['viol'] = True
                    sess.violated(name, 'wiring/' + fname, 'the result %r is not a function of the argument' % (sv,), {}, cli_replay_fn(fname), fam); return
                r = ctx.check(sv.t != want())
            if r == z3.unsat:
                return
            if box.get('viol'):
                return
            box['viol'] = True
            sess.violated(name, 'wiring/' + fname, 'the value is not the documented function of the arguments (got %s)' % (v['string_value'],), {'function': fname},
                          cli_replay_fn(fname), fam)
        ex.explore(run, on_path)
        if not box.get('viol') and not box.get('bad'):
            sess.discharged('wiring %s' % fname, family=fam, queries=box.get('paths', 1))

    # LENGTH = number of characters
    box = {}

    def run_len(ctx):
        return call_get_value(ctx, prog, 'Length', TermStr(A), [])

    def on_len(ctx, out):
        if out[0] != 'ret':
            box['bad'] = True; sess.inconclusive('wiring Length', str(out), fam); return
        v = variant_fields(prog, out[1])
        iv = v['int_value']
        want = uf('chars_count', TEXT, z3.BitVecSort(64))(A)
        if conc(iv.d) != 1 or ctx.check(iv.p[1][0] != want) != z3.unsat:
            box['viol'] = True
            sess.violated('wiring Length', 'wiring/Length', 'LENGTH is not the number of characters of its argument', {}, cli_replay_fn('Length'), fam)
    ex.explore(run_len, on_len)
    if not box.get('viol') and not box.get('bad'):
        sess.discharged('wiring Length = chars().count()', family=fam)

    # COALESCE: the first non-empty of (arg, arg1, arg2)
    box = {}

    def run_co(ctx):
        return call_get_value(ctx, prog, 'Coalesce', TermStr(A), [TermStr(B), TermStr(C)])

    def on_co(ctx, out):
        if out[0] != 'ret':
            box['bad'] = True; sess.inconclusive('wiring Coalesce', str(out), fam); return
        v = variant_fields(prog, out[1])
        emp = uf('is_empty', TEXT, z3.BoolSort())
        sv = v['string_value']
        E_ = LIT(z3.StringVal(''))
        got = sv.t if isinstance(sv, TermStr) else E_
        want = If(Not(emp(A)), A, If(Not(emp(B)), B, If(Not(emp(C)), C, E_)))
        if ctx.check(got != want) != z3.unsat and not box.get('viol'):
            box['viol'] = True
            sess.violated('wiring Coalesce', 'wiring/Coalesce', 'COALESCE does not return the first non-empty argument', {}, cli_replay_fn('Coalesce'), fam)
    ex.explore(run_co, on_co)
    if not box.get('viol') and not box.get('bad'):
        sess.discharged('wiring Coalesce = first non-empty argument', family=fam)

    # LEAST / GREATEST over (arg, arg1, arg2), all numeric
    for fname in ('Least', 'Greatest'):
        box = {}

        def run_lg(ctx, fname=fname):
            return call_get_value(ctx, prog, fname, TermStr(A), [TermStr(B), TermStr(C)])

        def on_lg(ctx, out, fname=fname):
            if out[0] != 'ret':
                box['bad'] = True; sess.inconclusive('wiring ' + fname, str(out), fam); return
            v = variant_fields(prog, out[1])
            fv = v['float_value']
            pa, pb, pc = [uf('parses_f64', TEXT, z3.BoolSort())(x) for x in (A, B, C)]
            # only decide the all-numeric, non-NaN case
            if ctx.check(pa, pb, pc) == z3.unsat or conc(fv.d) != 1:
                return
            x, y, z_ = pf(A), pf(B), pf(C)
            nn = And(Not(z3.fpIsNaN(x)), Not(z3.fpIsNaN(y)), Not(z3.fpIsNaN(z_)))
            got = fv.p[1][0]
            isel = Or(z3.fpEQ(got, x), z3.fpEQ(got, y), z3.fpEQ(got, z_))
            bound = And(z3.fpLEQ(got, x), z3.fpLEQ(got, y), z3.fpLEQ(got, z_)) if fname == 'Least' else And(z3.fpGEQ(got, x), z3.fpGEQ(got, y), z3.fpGEQ(got, z_))
            if ctx.check(pa, pb, pc, nn, Not(And(isel, bound))) != z3.unsat and not box.get('viol'):
                box['viol'] = True
                sess.violated('wiring ' + fname, 'wiring/' + fname, '%s is not the %s of its numeric arguments' % (fname.upper(), 'minimum' if fname == 'Least' else 'maximum'),
                              {}, cli_replay_fn(fname), fam)
        ex.explore(run_lg, on_lg)
        if not box.get('viol') and not box.get('bad'):
            sess.discharged('wiring %s over three numeric arguments' % fname, family=fam)


REF_CASES = {
    'Lower': [("lower('AbC')", 'abc')], 'Upper': [("upper('AbC')", 'ABC')], 'Trim': [("trim('  a b ')", 'a b')], 'LTrim': [("ltrim('  a ')", 'a ')],
    'RTrim': [("concat(rtrim(' a  '), '|')", ' a|')], 'Replace': [("replace('aXbXc', 'X', 'yy')", 'ayybyyc')], 'Concat': [("concat('a', 'b', 'c')", 'abc')],
    'ConcatWs': [("concat_ws('-', 'a', 'b')", 'a-b')], 'Abs': [("abs(-2.5)", '2.5')], 'Sqrt': [("sqrt(16)", '4')], 'Ln': [("ln(1)", '0')], 'Exp': [("exp(0)", '1')],
    'Power': [("power(9, 0.5)", '3'), ("power(2, 10)", '1024')], 'Log': [("log(8, 2)", '3')], 'Length': [("length('héllo')", '5')],
    'Coalesce': [("coalesce('', 'b', 'c')", 'b')], 'Least': [("least(3, 1, 2)", '1')], 'Greatest': [("greatest(3, 1, 7)", '7')],
    'Substring': [("substr('héllo wörld', -3)", 'rld'), ("substr('abcdef', 2, 3)", 'bcd')],
}


def cli_replay_fn(fname):
    def rep():
        exe = common.native_binary()
        for q, want in REF_CASES.get(fname, []):
            r = common.run_cli(exe, [q, 'from', '.'], {'f': {'size': 1}})
            got = r['stdout'].rstrip('\n')
            if got != want or r['status'] != 0:
                return True, 'select %s -> %r (status %s %s), documented value %r' % (q, got, r['status'], r['stderr'][:100], want)
        return False, 'the reference cases %r give the documented values' % ([q for q, _ in REF_CASES.get(fname, [])],)
    return rep


# -------------------------------------------------------------------------------------------------- substr
def ref_substr(s, pos, length):
    """documented SUBSTR: 1-based; negative position counts from the end; optional length (None = to the end); characters"""
    chars = list(s)
    n = len(chars)
    if pos is None:
        start = 0
    elif pos > 0:
        start = pos - 1
    elif pos < 0:
        start = n + pos
    else:
        start = 0
    if start < 0:
        start = 0
    if start > n:
        start = n
    rest = chars[start:]
    if length is not None:
        rest = rest[:length]
    return ''.join(rest)


def fam_substr(sess):
    prog = sess.prog
    fam = 'substr'
    ex = sess.executor(unwind=12)
    subjects = ['abcde', 'héllo', ''] if sess.tier == 'quick' else ['abcde', 'héllo', '', 'a', 'żółw-łódź']
    sess.bounds[fam] = {'subjects': subjects, 'position': 'every i32 (symbolic)', 'length': 'absent or every usize (symbolic)'}
    viol = {}
    paths = [0]
    for subj in subjects:
        for with_len in (False, True):
            def run(ctx, subj=subj, with_len=with_len):
                pos = ctx.fresh_bv('pos', 32)
                args = [NumStr(pos, True)]
                ln = None
                if with_len:
                    ln = ctx.fresh_bv('len', 64)
                    args.append(NumStr(ln, False))
                return pos, ln, call_get_value(ctx, prog, 'Substring', Str(subj), args)

            def on_path(ctx, out, subj=subj, with_len=with_len):
                paths[0] += 1
                name = 'substr(%r, pos%s)' % (subj, ', len' if with_len else '')
                if out[0] == 'panic':
                    m = ctx.model()
                    role = 'substr/panic'
                    if not viol.get(role):
                        viol[role] = True
                        sess.violated(name, role, out[1][:160], {}, cli_crash_replay(["substr('abc', -2147483648)", "substr('abc', 2, 18446744073709551615)"]), fam)
                    return
                if out[0] != 'ret':
                    viol['bad'] = True; sess.inconclusive(name, str(out), fam); return
                pos, ln, v = out[1]
                sv = variant_fields(prog, v)['string_value']
                if sv.s is None:
                    viol['bad'] = True; sess.inconclusive(name, 'symbolic result %r' % (sv,), fam); return
                # the reference is piecewise constant: pos in [-n-1, n+2] individually, beyond that constant; len likewise
                n = len(subj)
                # positions 1..n and -n..-1 are specified by the statement; 0 and positions beyond the string are not
                pieces_pos = [(pos == p, p) for p in list(range(-n, 0)) + list(range(1, n + 1))]
                pieces_len = [(BoolVal(True), None)] if ln is None else ([(ln == l, l) for l in range(0, n + 2)] + [(UGE(ln, BitVecVal(n + 2, 64)), n + 2)])
                for cp, pv in pieces_pos:
                    for cl, lv in pieces_len:
                        want = ref_substr(subj, pv, lv)
                        if want == sv.s:
                            continue
                        if ctx.check(cp, cl) == z3.unsat:
                            continue
                        role = 'substr/' + ('len=0' if lv == 0 else ('negative-pos' if pv < 0 else 'value'))
                        if viol.get(role):
                            continue
                        viol[role] = True
                        q = "substr('%s', %d%s)" % (subj, pv, '' if lv is None else ', %d' % lv)
                        sess.violated(name, role, '%s = %r, documented %r' % (q, sv.s, want), {'query': q}, cli_value_replay(q, want), fam)
            ex.explore(run, on_path)
    if not viol:
        sess.discharged('substr: %d subjects x all positions x all lengths' % len(subjects), family=fam, queries=paths[0])


def cli_value_replay(q, want):
    def rep():
        exe = common.native_binary()
        r = common.run_cli(exe, [q, 'from', '.'], {'f': {'size': 1}})
        got = r['stdout'].rstrip('\n')
        return got != want or r['status'] != 0, 'select %s -> %r (status %s %s), documented value %r' % (q, got, r['status'], r['stderr'][:100], want)
    return rep


def cli_crash_replay(queries):
    def rep():
        exe = common.native_binary()
        for q in queries:
            r = common.run_cli(exe, [q, 'from', '.'], {'f': {'size': 1}}, timeout=5)
            if r['timed_out'] or r['status'] not in (0, 1, 2):
                return True, 'select %s -> status %s %s' % (q, r['status'], r['stderr'].strip()[:160])
        return False, 'no crash for %r' % (queries,)
    return rep


# -------------------------------------------------------------------------------------------------- args
def fam_args(sess):
    prog = sess.prog
    fam = 'args'
    ex = sess.executor(unwind=10)
    bad_args = ['x', '', '-1', '1.5', '99999999999999999999', 'NaN']
    cases = {'Substring': ("substr('abc', %s)", 1), 'Power': ("power(2, %s)", 1), 'Log': ("log(8, %s)", 1), 'FormatTime': ("format_time(%s)", 0),
             'Bin': ("bin(%s)", 0), 'Abs': ("abs(%s)", 0), 'Least': ("least(1, %s)", 1), 'FormatSize': ("format_size(%s)", 0)}
    sess.bounds[fam] = {'functions': sorted(cases), 'arguments': bad_args}
    for fname, (tmpl, argpos) in cases.items():
        box = {}

        def run(ctx, fname=fname, argpos=argpos):
            bad = table_str(ctx, 'bad', bad_args)
            if argpos == 0:
                return bad, call_get_value(ctx, prog, fname, bad, [])
            return bad, call_get_value(ctx, prog, fname, Str('2'), [bad])

        def on_path(ctx, out, fname=fname, tmpl=tmpl):
            name = 'args %s' % fname
            if out[0] == 'panic':
                if not box.get('viol'):
                    box['viol'] = True
                    qs = [tmpl % (a if a and re.fullmatch(r'[-0-9.]+', a) else "'%s'" % a) for a in bad_args]
                    sess.violated(name, 'args/panic/' + fname, out[1][:160], {'function': fname}, cli_crash_replay(qs), fam)
                return
            if out[0] in ('ret', 'exit'):
                box['paths'] = box.get('paths', 0) + 1
                return
            if out[0] == 'unmodelled':
                box['unmodelled'] = str(out[1])[:160]
                return
            box['bad'] = True; sess.inconclusive(name, str(out), fam)
        ex.explore(run, on_path)
        if box.get('unmodelled') and not box.get('viol'):
            sess.notes.append('args %s: not decided beyond the argument checks (%s)' % (fname, box['unmodelled']))
        if not box.get('viol') and not box.get('bad'):
            sess.discharged('args %s: no ill-typed argument reaches a panic%s' % (fname, ' (value computation itself not modelled)' if box.get('unmodelled') else ''),
                            family=fam, queries=box.get('paths', 1))


def fam_args_all(sess):
    """every scalar function of the Function enum (read from the source) on ill-typed / empty / negative / huge first and second
    arguments: no argument reaches a panic. Paths that stop at an unmodelled library routine are noted, not counted as decided."""
    prog = sess.prog
    fam = 'args_all'
    ex = sess.executor(library_models(), unwind=24)
    bad_args = ['x', '', '-1', '1.5', '99999999999999999999', 'NaN', '0', '-2147483648', '2020-13-45', '\u00e9', '%.99999999999k', '5']
    names = [v if isinstance(v, str) else v[0] for v in prog.src.variants('Function')]
    aggregates = {'Min', 'Max', 'Avg', 'Sum', 'Count', 'StdDevPop', 'StdDevSamp', 'VarPop', 'VarSamp'}
    skip = aggregates | {'CurrentUser', 'CurrentGroup', 'CurrentUid', 'CurrentGid', 'CurrentDate', 'Contains', 'HasXattr', 'Xattr', 'HasCapabilities', 'HasCapability'}
    funcs = [n for n in names if n not in skip]
    sess.bounds[fam] = {'functions': funcs, 'arguments': bad_args, 'positions': 'first argument (no further arguments), second argument, third argument (first = 2 / abc)'}
    undecided = {}
    viol = {}
    npaths = [0]
    for fname in funcs:
        for pos in (0, 1, 2):
            def run(ctx, fname=fname, pos=pos):
                # the argument is a solver-chosen table entry made concrete at once (character-level routines need concrete text)
                bad = Str(bad_args[ctx.concretize(ctx.fresh_bv('bad', 8), range(len(bad_args)))])
                if pos == 0:
                    return call_get_value(ctx, prog, fname, bad, [])
                first = Str(['2', 'abc', '5'][ctx.concretize(ctx.fresh_bv('first', 8), range(3))])      # '5' also occurs among the second arguments: equal bounds
                if pos == 1:
                    return call_get_value(ctx, prog, fname, first, [bad])
                return call_get_value(ctx, prog, fname, first, [Str('1'), bad])

            def on_path(ctx, out, fname=fname, pos=pos):
                npaths[0] += 1
                if out[0] == 'panic':
                    if not viol.get(fname):
                        viol[fname] = True
                        sql = prog_sql_name(fname)
                        qs = []
                        for a in bad_args:
                            lit = a if a and re.fullmatch(r'[-0-9.]+', a) else "'%s'" % a
                            qs.append('%s(%s)' % (sql, lit) if pos == 0 else ("%s(2, %s)" % (sql, lit) if pos == 1 else "%s(2, 1, %s)" % (sql, lit)))
                            qs.append("%s(5, %s)" % (sql, lit) if pos == 1 else "%s(5, 1, %s)" % (sql, lit)) if pos else None
                            qs.append("%s('abc', %s)" % (sql, lit) if pos < 2 else "%s('abc', 1, %s)" % (sql, lit))
                        sess.violated('args_all %s' % fname, 'args/panic/' + fname, out[1][:160], {'function': fname, 'position': pos}, cli_crash_replay(qs), fam)
                elif out[0] == 'unmodelled':
                    undecided[fname] = str(out[1])[:100]
                elif out[0] not in ('ret', 'exit'):
                    undecided[fname] = str(out)[:100]
            ex.explore(run, on_path)
    if undecided:
        sess.notes.append('args_all: not decided beyond the argument handling (unmodelled library routine reached): %r' % undecided)
    if not viol:
        sess.discharged('args_all: %d functions x 10 arguments x 3 positions: no argument reaches a panic (%d functions end in unmodelled library code: see notes)' % (
            len(funcs), len(undecided)), family=fam, queries=npaths[0])


def library_models():
    """third-party routines the scalar functions hand their argument to, by documented contract (incl. the documented panics)"""
    from drivers import c13
    from mirsym.core import Panic, Agg
    from mirsym.models_fmt import OpaqueStr
    import base64 as _b64

    def pds(ctx, args, callee):
        if ctx.decide(ctx.fresh_bool('chrono_english_ok')):
            return c13.ok(c13.DateC(ctx.fresh_bv('ce_day', 64) & 0xffff, c13.u32(0), c13.u32(0), c13.u32(0)))
        return c13.err(Str('bad date'))

    def random_range(ctx, args, callee):
        rng = args[1]
        lo, hi = rng.f[0], rng.f[1]
        if not ctx.decide(lo < hi):
            raise Panic('cannot sample empty range')          # documented: random_range panics if the range is empty
        v = ctx.fresh_bv('random', 64)
        ctx.assume(And(v >= lo, v < hi))
        return v

    def date_part(ctx, args, callee):
        d = ctx.deref(args[0]); k = callee.rsplit('::', 1)[1]
        day = z3.simplify(d.day) if hasattr(d, 'day') else None
        if day is not None and z3.is_bv_value(day):
            import datetime as _dt
            dd = _dt.date(1970, 1, 1) + _dt.timedelta(days=day.as_signed_long())
            if k == 'weekday':
                return ('weekday', (dd.weekday() + 1) % 7)          # number_from_sunday - 1
            return BitVecVal({'year': dd.year, 'month': dd.month, 'day': dd.day}[k], 32)
        if k == 'weekday':
            return ('weekday', None)
        v = ctx.fresh_bv('date_' + k, 32)
        return v

    def weekday_num(ctx, args, callee):
        w = args[0] if not isinstance(args[0], Ref) else ctx.deref(args[0])
        if w[1] is None:
            v = ctx.fresh_bv('dow', 32); ctx.assume(And(z3.UGE(v, BitVecVal(1, 32)), z3.ULE(v, BitVecVal(7, 32)))); return v
        return BitVecVal(w[1] + 1, 32)

    def b64enc(ctx, args, callee):
        t = as_str(ctx, args[0])
        if t.s is None:
            return OpaqueStr('base64(%r)' % (t,))
        return Str(_b64.b64encode(t.s.encode()).decode())

    def b64dec(ctx, args, callee):
        t = as_str(ctx, args[0])
        if t.s is None:
            raise Unmodelled('base64 decode of symbolic text')
        try:
            raw = _b64.b64decode(t.s.encode(), validate=True)
        except Exception:
            return err(UNIT)
        return ok(Str(raw.decode('utf-8', 'replace')))
    return ([(r'^parse_date_string$|^chrono_english::parse_date_string$', pds, 'chrono-english:parse_date_string (Ok(any instant) | Err; contract: does not panic)'),
             (r'^<ThreadRng as Rng>::random_range$|^<.* as (rand::)?Rng>::random_range$', random_range, 'rand:random_range (documented: panics if the range is empty; otherwise some value of the range)'),
             (r'^rand::rng$|^rng$', lambda ctx, a, c: 'RNG', 'rand::rng'),
             (r'^<NaiveDateTime as Datelike>::(year|month|day|weekday)$', date_part, 'chrono:Datelike accessors'),
             (r'^Weekday::number_from_sunday$|^chrono::Weekday::number_from_sunday$', weekday_num, 'chrono:Weekday::number_from_sunday'),
             (r'^(rbase64::)?encode$', b64enc, 'rbase64::encode (standard alphabet)'), (r'^(rbase64::)?decode$', b64dec, 'rbase64::decode (Ok(bytes) | Err)'),
             (r'^is_char_(japanese|hiragana|katakana|kana|kanji)$', lambda ctx, a, c: ctx.fresh_bool('wana_kana'), 'wana_kana:is_char_* (uninterpreted verdict per character)')]
            + c13.concrete_chrono())


def prog_sql_name(fname):
    return {'Substring': 'substr', 'FormatSize': 'format_size', 'FormatTime': 'format_time', 'ToBase64': 'to_base64', 'FromBase64': 'from_base64', 'ConcatWs': 'concat_ws',
            'InitCap': 'initcap', 'LTrim': 'ltrim', 'RTrim': 'rtrim', 'DayOfWeek': 'dow', 'ContainsJapanese': 'contains_japanese', 'ContainsHiragana': 'contains_hiragana',
            'ContainsKatakana': 'contains_katakana', 'ContainsKana': 'contains_kana', 'ContainsKanji': 'contains_kanji'}.get(fname, fname.lower())


def main(sess):
    sess.engines = ['mirsym (MIR symbolic execution) + z3 (uninterpreted functions for library routines)']
    sess.assumptions += [
        'library routines (to_lowercase, trim, replace, powf, ln, base64, human_time, wana_kana ...) are uninterpreted: the claim is about which routine is applied to which '
        'argument, not about the routines themselves; BIN / HEX / OCT (radix format directives), INITCAP, base64, FORMAT_TIME rendering and the date functions are outside',
        'SUBSTR is decided on concrete subjects with symbolic position / length',
    ]
    only = getattr(sess, 'only', None)
    for name, f in (('wiring', fam_wiring), ('substr', fam_substr), ('args', fam_args), ('args_all', fam_args_all)):
        if not only or name in only:
            f(sess)
    if not only or 'e2e' in only:
        from drivers import e2e
        e2e.family_for(sess, 'C16', quick_n=2)
