"""C04 — column values equal what the operating system and the file content say.

  kani/mode    (Engine A: Kani / CBMC over the compiled code) for ALL u32 modes: the file-type predicates decode S_IFMT, the
               permission / suid / sgid / sticky predicates decode their bits, and the ten-character mode string is `ls -l` notation
  (MIR families: see c04_wiring — get_field_value arms, line count loop, hashes as uninterpreted digests)
"""
import os, stat, subprocess, tempfile, shutil
import common, kani_engine

HARNESSES = ['verif_c04::type_predicates_decode_s_ifmt', 'verif_c04::permission_predicates_decode_bits', 'verif_c04::mode_string_is_ls_notation']
COLUMN = {'is_pipe': 'is_pipe', 'is_char': 'is_char', 'is_block': 'is_block', 'is_socket': 'is_socket'}


def cli_replay_mode(desc, mode):
    """realise the file type of the counterexample mode on disk (symlink / fifo / socket / dir / file) and read the columns back"""
    def rep():
        exe = common.native_binary()
        d = tempfile.mkdtemp(prefix='verif-c04-', dir=common.SCRATCH_ROOT)
        try:
            t = mode & 0o170000
            p = os.path.join(d, 'x')
            if t == 0o120000:
                os.symlink('/nonexistent', p); want_type = 'l'
            elif t == 0o010000:
                os.mkfifo(p); want_type = 'p'
            elif t == 0o140000:
                import socket
                s = socket.socket(socket.AF_UNIX); s.bind(p); want_type = 's'
            elif t == 0o040000:
                os.mkdir(p); want_type = 'd'
            elif t == 0o100000:
                open(p, 'w').close(); want_type = '-'
            else:
                try:
                    os.mknod(p, (stat.S_IFCHR if t == 0o020000 else stat.S_IFBLK) | 0o600, os.makedev(1, 3))
                    want_type = 'c' if t == 0o020000 else 'b'
                except (PermissionError, OSError):
                    return False, 'cannot create a device node here'
            if t not in (0o120000,):
                try:
                    os.chmod(p, mode & 0o7777)
                except OSError:
                    pass
            env = {'PATH': os.environ['PATH'], 'HOME': d, 'TZ': 'UTC'}
            q = ['mode, is_pipe, is_char, is_block, is_socket, is_dir, is_symlink, is_file', 'from', d, 'where', 'name', '=', 'x']
            r = subprocess.run([exe] + q, env=env, stdout=subprocess.PIPE, stderr=subprocess.PIPE, timeout=20)
            row = r.stdout.decode().strip().split('\t')
            if len(row) != 8:
                return False, 'unexpected output %r %r' % (row, r.stderr.decode()[:100])
            flags = dict(zip(['is_pipe', 'is_char', 'is_block', 'is_socket', 'is_dir', 'is_symlink', 'is_file'], [x == 'true' for x in row[1:]]))
            exp = {'is_pipe': want_type == 'p', 'is_char': want_type == 'c', 'is_block': want_type == 'b', 'is_socket': want_type == 's', 'is_dir': want_type == 'd',
                   'is_symlink': want_type == 'l', 'is_file': want_type == '-'}
            st = os.lstat(p)
            want_mode = stat.filemode(st.st_mode)
            bad = flags != exp or row[0] != want_mode
            return bad, 'entry of type %r: mode column %r (ls: %r), type columns %r ; expected exactly %r' % (want_type, row[0], want_mode, flags, [k for k, v in exp.items() if v])
        finally:
            shutil.rmtree(d, ignore_errors=True)
    return rep


def fam_kani(sess):
    fam = 'kani/mode'
    sess.engines.append('Kani 0.68 / CBMC 6.11 (CaDiCaL) over the compiled code')
    sess.bounds[fam] = {'mode': 'every u32 (type predicates and the mode string: the seven POSIX file types)', 'unwind': 12}
    res = kani_engine.run_harnesses({'src/mode.rs': 'c04_mode.rs'}, HARNESSES)
    for h, r in res.items():
        name = '%s %s' % (fam, h.split('::')[-1])
        sess.stats['solver_checks'] += 1
        sess.stats['solver_s'] += r['seconds']
        sess.stats['paths'] += 1
        if r['status'] == 'SUCCESSFUL':
            if r['cover_unsat']:
                sess.inconclusive(name, 'vacuous: reachability witness unsatisfiable %r' % r['cover_unsat'], fam)
            else:
                sess.discharged(name + ' (all modes, %.1fs)' % r['seconds'], family=fam)
        elif r['status'] == 'FAILED':
            if not r['failed']:
                sess.inconclusive(name, 'Kani reports failure without a failed check: %s' % r['raw_tail'][-300:], fam); continue
            for desc in r['failed']:
                mode = r['values'].get(desc)
                role = 'mode/' + desc.split(' ')[0]
                sess.violated(name + ': ' + desc, role, 'fails for mode %s' % (oct(mode) if mode is not None else '?'), {'check': desc, 'mode': mode},
                              cli_replay_mode(desc, mode if mode is not None else 0o120777), fam)
        else:
            sess.inconclusive(name, 'Kani: %s: %s' % (r['status'], r['raw_tail'][-300:]), fam)
    sess.sample({'family': fam, 'harnesses': {h: {'status': r['status'], 'seconds': r['seconds']} for h, r in res.items()}})


def main(sess):
    sess.engines = []
    sess.assumptions += [
        'kani/mode: dev-profile semantics, single thread, allocation failure out of scope (Kani default); the mode value is what lstat / the zip entry reports',
        'owner-name lookup, the digest and MIME / EXIF / media readers are library / FFI code: outside; the xattr crate by its documented contract (family xattrs: which object '
        'is asked, whether a link is dereferenced, whether the file has to be opened)',
    ]
    only = getattr(sess, 'only', None)
    if not only or 'kani' in only:
        fam_kani(sess)
    from drivers import c04_wiring, c04_xattr, c04_location
    if not only or 'wiring' in only:
        c04_wiring.run(sess)
    if not only or 'xattrs' in only:
        c04_xattr.fam_xattrs(sess)
    if not only or 'location' in only:
        c04_location.fam_location(sess)
