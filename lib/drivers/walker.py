"""The walker driver: the *real* `Searcher::new`, `Searcher::list_search_results`, `Searcher::visit_dir`,
`ok_to_visit_dir`, `is_buffered`, `Query::*` run from their MIR over an **abstract file system** supplied by
contract models.  Serves C01 (exact traversal), C06 (limit guards), C17 (faults), C18 (links), C19 (archives).

Abstract file system (all of it solver variables unless a driver pins it):
  nodes 0..M-1; nodes 0..r-1 are the roots; every other node i has a parent p_i < i (symbolic), a kind
  k_i in {file, dir, symlink}, optionally: zip flag + number of members + `ZipArchive::new` verdict,
  a `read_dir` fault bit (directories), a `file_type` fault bit, a symlink target.
  read_dir(d) lists {i : p_i = d} in index order (the order is the model's; the property does not depend on it).
`check_file` is summarised: it appends (node, member) to the ghost trace, bumps `found` iff the row matches the
(symbolic) WHERE verdict, and — when the query is buffered — records the row as handed to TopN."""
import re
import z3
from z3 import BitVecVal, BoolVal, Not, And, Or, If, ULT, ULE, UGE, UGT
from mirsym.core import Agg, EnumV, Cell, Ref, BoxV, UNINIT, UNIT, some, none, ok, err, conc, Unmodelled, clone_struct, Panic
from mirsym.models_std import Str, Seq, Map, Iter, ListIter, RangeIter, as_str, deep_clone
from drivers import evalcore as E

FILE, DIR, LINK = 0, 1, 2


class PathV:
    """a path spelling that denotes node `node` (None = does not exist); `text` is its display text"""
    __slots__ = ('node', 'text', 'via_link')

    def __init__(self, node, text, via_link=None):
        self.node, self.text, self.via_link = node, text, via_link

    @staticmethod
    def norm(text):
        """std::path::Path equality / hashing is by components: `.` (except a leading one) and repeated `/` vanish"""
        comps = text.split('/')
        out = []
        for i, c in enumerate(comps):
            if c == '' and i > 0:
                continue
            if c == '.' and i > 0:
                continue
            out.append(c)
        return '/'.join(out) if out != [''] else '/'

    def map_key(self, ctx):
        return ('p', PathV.norm(self.text))

    def clone_model(self, ctx):
        return PathV(self.node, self.text, self.via_link)

    def eq_model(self, ctx, other):
        return BoolVal(PathV.norm(self.text) == PathV.norm(other.text))

    def as_str(self, ctx):
        return Str(self.text)

    def __repr__(self):
        return 'Path(%s→%s)' % (self.text, self.node)


class CanonPathV(PathV):
    """what std::fs::canonicalize returns for node `node`: an absolute path of `depth` components"""
    __slots__ = ('depth', 'is_fsroot')

    def __init__(self, node, depth, text=None):
        PathV.__init__(self, node, text if text is not None else '<canonical path of n%s>' % node)
        self.depth = depth

    def clone_model(self, ctx):
        c = CanonPathV(self.node, self.depth, self.text)
        c.is_fsroot = getattr(self, 'is_fsroot', BoolVal(False))
        return c

    def as_str(self, ctx):
        t = CanonStr(self.node, self.depth)
        t.is_fsroot = getattr(self, 'is_fsroot', BoolVal(False))
        return t


class CanonStr(Str):
    """canonical absolute path text of a node: only its number of '/' (the depth) is observable"""
    __slots__ = ('depth', 'node', 'is_fsroot', 'trimmed')

    def __init__(self, node, depth):
        Str.__init__(self)
        self.node, self.depth = node, depth

    def __repr__(self):
        return 'Canon(node %s, depth %s)' % (self.node, self.depth)


class MatchCount(Iter):
    def __init__(self, n):
        self.n = n

    def count_hook(self, ctx):
        return z3.ZeroExt(32, self.n)


class EntryV:
    __slots__ = ('node',)

    def __init__(self, node):
        self.node = node


class FileTypeV:
    __slots__ = ('kind',)

    def __init__(self, kind):
        self.kind = kind


class IoError:
    def __init__(self, what, kind='Other'):
        self.what, self.kind = what, kind

    def display(self, ctx, kind):
        return Str('<io error: %s>' % self.what)


class FS:
    """the abstract file system of one symbolic run"""

    def __init__(self, ctx, M, roots=1, kinds=(FILE, DIR, LINK), faults=False, archives=False, max_members=2,
                 follow=False, fsroot=False):
        self.ctx, self.M, self.nroots = ctx, M, roots
        # fsroot: the (first) root may be the root of the file system itself — its canonical text `/` has ONE separator, and so has the
        # text `/x` of an entry directly inside it (everywhere else an entry has one separator more than its directory)
        self.fsroot = ctx.fresh_bool('root_is_the_filesystem_root') if fsroot else BoolVal(False)
        self.parent = [None] * M; self.kind = [None] * M
        self.rd_fault = [BoolVal(False)] * M; self.ft_fault = [BoolVal(False)] * M
        self.is_zip = [BoolVal(False)] * M; self.zip_ok = [BoolVal(True)] * M; self.members = [BitVecVal(0, 8)] * M
        self.target = [None] * M; self.relative = [BoolVal(False)] * M
        self.matches = {}
        self.rootdepth = []
        for r in range(roots):
            self.kind[r] = BitVecVal(DIR, 8)
            rd = ctx.fresh_bv('rootdepth%d' % r, 32)
            ctx.assume(And(UGE(rd, BitVecVal(1, 32)), ULE(rd, BitVecVal(4, 32))))
            if fsroot and r == 0:
                ctx.assume(z3.Implies(self.fsroot, rd == 1))
            self.rootdepth.append(rd)
        for i in range(roots, M):
            p = ctx.fresh_bv('p%d' % i, 8)
            ctx.assume(ULT(p, BitVecVal(i, 8)))
            self.parent[i] = p
            k = ctx.fresh_bv('k%d' % i, 8)
            ctx.assume(Or([k == kk for kk in kinds]))
            self.kind[i] = k
            if faults:
                self.ft_fault[i] = ctx.fresh_bool('ftfault%d' % i)
            if archives:
                self.is_zip[i] = ctx.fresh_bool('zip%d' % i)
                self.zip_ok[i] = ctx.fresh_bool('zipok%d' % i)
                mm = ctx.fresh_bv('members%d' % i, 8)
                ctx.assume(ULE(mm, BitVecVal(max_members, 8)))
                self.members[i] = mm
            if LINK in kinds:
                # link target: a node, or M = dangling
                t = ctx.fresh_bv('target%d' % i, 8)
                ctx.assume(ULE(t, BitVecVal(M, 8)))
                self.target[i] = t
            if follow:
                self.relative[i] = ctx.fresh_bool('rel%d' % i)
        if faults:
            for i in range(M):
                self.rd_fault[i] = ctx.fresh_bool('rdfault%d' % i)
        # concrete facts discovered along the path
        self.known_parent = {r: None for r in range(roots)}
        self.rel_depth = {r: 0 for r in range(roots)}
        self.root_of = {r: r for r in range(roots)}
        self.text = {r: 'R%d' % r for r in range(roots)}
        self.max_members = max_members

    # ---- derived terms (for oracles)
    def isdir(self, i):
        return self.kind[i] == BitVecVal(DIR, 8)

    def islink(self, i):
        return self.kind[i] == BitVecVal(LINK, 8)

    def terms(self):
        """-> (depth_i, reach_i, root_i) terms for every node under the no-follow semantics"""
        M, r = self.M, self.nroots
        depth = [None] * M; reach = [None] * M; root = [None] * M
        for i in range(r):
            depth[i] = BitVecVal(0, 32); reach[i] = BoolVal(True); root[i] = BitVecVal(i, 8)
        for i in range(r, M):
            d = BitVecVal(0, 32); rc = BoolVal(False); ro = BitVecVal(0, 8)
            for c in range(i - 1, -1, -1):
                cond = self.parent[i] == BitVecVal(c, 8)
                d = If(cond, depth[c] + 1, d)
                rc = If(cond, And(reach[c], self.isdir(c), Not(self.rd_fault[c])), rc)
                ro = If(cond, root[c], ro)
            depth[i], reach[i], root[i] = d, rc, ro
        return depth, reach, root

    def ancestor(self):
        """anc[i][d]: d is a proper ancestor of i"""
        M = self.M
        anc = [[BoolVal(False)] * M for _ in range(M)]
        for i in range(self.nroots, M):
            for d in range(i):
                terms = [self.parent[i] == BitVecVal(d, 8)]
                for e in range(d + 1, i):
                    terms.append(And(self.parent[i] == BitVecVal(e, 8), anc[e][d]))
                anc[i][d] = Or(terms)
        return anc

    def nonutf8_bit(self, node):
        """solver Boolean: the path of `node` is not valid UTF-8 (one of its components has a non-UTF-8 name). Created
        on first use, i.e. only when the code under test asks (Path::to_str / OsStr::to_str / into_string)"""
        if not hasattr(self, 'nonutf8'):
            ctx = self.ctx
            self.nonutf8 = [ctx.fresh_bool('nonutf8_%d' % i) for i in range(self.M)]
            for r in range(self.nroots):
                ctx.assume(Not(self.nonutf8[r]))      # roots come from the command line: valid UTF-8 (the cwd above them too)
            for i in range(self.nroots, self.M):
                for c in range(i):
                    ctx.assume(z3.Implies(And(self.parent[i] == BitVecVal(c, 8), self.nonutf8[c]), self.nonutf8[i]))
        return self.nonutf8[node]

    def match_bit(self, node, member=None):
        key = (node, member)
        if key not in self.matches:
            self.matches[key] = self.ctx.ghost['match_all'] if 'match_all' in self.ctx.ghost else self.ctx.fresh_bool('match_%s_%s' % key)
        return self.matches[key]

    # ---- operations used by the models
    def children(self, ctx, d):
        out = []
        for i in range(max(d + 1, self.nroots), self.M):
            if i in self.known_parent:
                if self.known_parent[i] == d:
                    out.append(i)
                continue
            if ctx.decide(self.parent[i] == BitVecVal(d, 8)):
                self.known_parent[i] = d
                self.rel_depth[i] = self.rel_depth[d] + 1
                self.root_of[i] = self.root_of[d]
                self.text[i] = self.text[d] + '/n%d' % i
                out.append(i)
        return out


def fs_of(ctx):
    return ctx.ghost['fs']


def as_path(ctx, v):
    v = ctx.deref(v)
    if isinstance(v, PathV):
        return v
    if isinstance(v, CanonStr):
        fs = fs_of(ctx)
        canon = getattr(fs, 'canon', None)
        return CanonPathV(v.node, v.depth, canon[v.node] if canon and v.node in canon else '<canonical path of n%s>' % v.node)
    if isinstance(v, Str) and v.s is not None:
        return path_from_text(ctx, v.s)
    raise Unmodelled('expected path, got %r' % (type(v).__name__,))


def path_from_text(ctx, text):
    fs = fs_of(ctx)
    for n, t in fs.text.items():
        if t == text:
            return PathV(n, text)
    return PathV(None, text)


def models():
    """(pattern, handler, name) overrides forming the abstract file system"""
    out = []

    def reg(pat, name=None):
        def deco(f):
            out.append((pat, f, name or ('fs:' + f.__name__)))
            return f
        return deco

    @reg(r'^(std::path::)?Path::new$')
    def path_new(ctx, args, callee):
        return Ref(Cell(as_path(ctx, args[0])))

    @reg(r'^(std::path::)?Path::to_path_buf$|^<PathBuf as Clone>::clone$|^<PathBuf as From<.*>>::from$|^(std::path::)?PathBuf::from$')
    def path_clone(ctx, args, callee):
        p = as_path(ctx, args[0])
        return p.clone_model(ctx)

    @reg(r'^<PathBuf as Deref>::deref$|^<PathBuf as AsRef<.*>>::as_ref$|^(std::path::)?PathBuf::as_path$|^<(std::path::)?Path as AsRef<.*>>::as_ref$|^<&PathBuf as AsRef<.*>>::as_ref$')
    def path_deref(ctx, args, callee):
        return args[0] if isinstance(args[0], Ref) else Ref(Cell(args[0]))

    @reg(r'^(std::path::)?Path::to_str$|^(std::ffi::)?OsStr::to_str$')
    def path_to_str(ctx, args, callee):
        p = ctx.deref(args[0])
        node = getattr(p, 'node', None)
        if node is not None and ctx.decide(fs_of(ctx).nonutf8_bit(node)):
            return none()
        if isinstance(p, CanonPathV):
            return some(p.as_str(ctx))
        if isinstance(p, PathV):
            return some(Str(p.text))
        return some(as_str(ctx, p))

    @reg(r'^(std::path::)?Path::to_string_lossy$|^OsStr::to_string_lossy$')
    def path_lossy(ctx, args, callee):
        p = ctx.deref(args[0])
        if isinstance(p, CanonPathV):
            return EnumV(0, {0: [p.as_str(ctx)]}, 'Cow')
        if isinstance(p, PathV):
            return EnumV(0, {0: [Str(p.text)]}, 'Cow')
        return EnumV(0, {0: [as_str(ctx, p)]}, 'Cow')

    @reg(r'^(std::env::)?current_dir$')
    def current_dir(ctx, args, callee):
        return ok(PathV(None, '<cwd>'))

    @reg(r'^(std::fs::)?canonicalize$', 'fs:canonicalize')
    def canonical_path(ctx, args, callee):
        fs = fs_of(ctx)
        p = as_path(ctx, args[0])
        if p.node is None:
            return err(IoError('No such file or directory'))
        n = p.node
        cf = ctx.ghost.get('canon_fault')
        if cf is not None and cf.get(n) is not None and ctx.decide(cf[n]):
            ctx.ghost.setdefault('faulted', []).append(('canon', n))
            return err(IoError('<canonicalize failed>'))
        depth = fs.rootdepth[fs.root_of[n]] + BitVecVal(fs.rel_depth[n], 32)
        if fs.root_of[n] == 0 and fs.rel_depth[n] >= 1 and not z3.is_false(fs.fsroot):
            depth = If(fs.fsroot, depth - 1, depth)       # `/x`: no separator more than `/`
        cp = CanonPathV(n, depth)
        cp.is_fsroot = fs.fsroot if (fs.root_of[n] == 0 and fs.rel_depth[n] == 0) else BoolVal(False)
        return ok(cp)

    @reg(r'^(core::)?str::<impl str>::matches$')
    def str_matches(ctx, args, callee):
        s = ctx.deref(args[0])
        pat = ctx.deref(args[1])
        if isinstance(s, CanonStr) and isinstance(pat, Str) and pat.s == '/':
            if getattr(s, 'trimmed', False) and ctx.decide(getattr(s, 'is_fsroot', BoolVal(False))):
                return MatchCount(BitVecVal(0, 32))         # `/` without its trailing separator is the empty text
            return MatchCount(s.depth)
        raise Unmodelled('str::matches(%r, %r)' % (s, pat))

    @reg(r'^(core::)?str::<impl str>::trim_end_matches$')
    def trim_end_matches(ctx, args, callee):
        s = ctx.deref(args[0]); pat = args[1]
        slash = (z3.is_bv(pat) and conc(pat) == ord('/')) or (isinstance(ctx.deref(pat) if isinstance(pat, Ref) else pat, Str) and (ctx.deref(pat) if isinstance(pat, Ref) else pat).s == '/')
        if isinstance(s, CanonStr) and slash:
            t = CanonStr(s.node, s.depth); t.is_fsroot = getattr(s, 'is_fsroot', BoolVal(False)); t.trimmed = True
            return t             # a canonical path ends in a separator only when it is `/` itself
        raise Unmodelled('trim_end_matches(%r, %r)' % (s, pat))

    @reg(r'^<(core::)?str::Matches<.*> as Iterator>::count$|^<Matches<.*> as Iterator>::count$')
    def matches_count(ctx, args, callee):
        m = args[0]
        if isinstance(m, MatchCount):
            return z3.ZeroExt(32, m.n)
        raise Unmodelled('count of %r' % (m,))

    @reg(r'^(std::fs::)?read_dir$|^(std::path::)?Path::read_dir$')
    def read_dir(ctx, args, callee):
        fs = fs_of(ctx)
        p = as_path(ctx, args[0])
        ctx.ghost.setdefault('read_dirs', []).append(p.node)
        if p.node is None:
            return err(IoError('not found'))
        n = p.node
        if not ctx.decide(fs.isdir(n)):
            # a link that is followed: listing goes to the target (C18 driver); otherwise ENOTDIR
            if ctx.ghost.get('follow') and ctx.decide(fs.islink(n)):
                raise Unmodelled('read_dir through a link (use the C18 driver)')
            ctx.ghost.setdefault('faulted', []).append(('notdir', n))
            return err(IoError('not a directory'))
        if ctx.decide(fs.rd_fault[n]):
            ctx.ghost.setdefault('faulted', []).append(('read_dir', n))
            return err(IoError('permission denied'))
        kids = fs.children(ctx, n)
        ctx.ghost.setdefault('listed', []).append(n)
        return ok(ListIter([ok(EntryV(c)) for c in kids]))

    @reg(r'^<ReadDir as IntoIterator>::into_iter$')
    def readdir_into_iter(ctx, args, callee):
        return args[0]

    @reg(r'^<ReadDir as Iterator>::next$')
    def readdir_next(ctx, args, callee):
        it = ctx.deref(args[0])
        x = it.next(ctx)
        return none() if x is None else some(x)

    @reg(r'^DirEntry::path$|^(std::fs::)?DirEntry::path$')
    def entry_path(ctx, args, callee):
        fs = fs_of(ctx)
        e = ctx.deref(args[0])
        return PathV(e.node, fs.text[e.node])

    @reg(r'^DirEntry::file_type$|^(std::fs::)?DirEntry::file_type$')
    def entry_file_type(ctx, args, callee):
        fs = fs_of(ctx)
        e = ctx.deref(args[0])
        if ctx.decide(fs.ft_fault[e.node]):
            ctx.ghost.setdefault('faulted', []).append(('file_type', e.node))
            return err(IoError('file_type failed'))
        k = ctx.concretize(fs.kind[e.node], [FILE, DIR, LINK])
        return ok(FileTypeV(k))

    @reg(r'^FileType::is_dir$|^(std::fs::)?FileType::is_dir$')
    def ft_is_dir(ctx, args, callee):
        return BoolVal(ctx.deref(args[0]).kind == DIR)

    @reg(r'^FileType::is_symlink$|^(std::fs::)?FileType::is_symlink$')
    def ft_is_symlink(ctx, args, callee):
        return BoolVal(ctx.deref(args[0]).kind == LINK)

    @reg(r'^FileType::is_file$')
    def ft_is_file(ctx, args, callee):
        return BoolVal(ctx.deref(args[0]).kind == FILE)

    @reg(r'^<(std::fs::)?DirEntry as (std::os::unix::fs::)?DirEntryExt>::ino$|^<(std::fs::)?Metadata as (std::os::unix::fs::)?MetadataExt>::ino$|^MetadataExt::ino$')
    def ino(ctx, args, callee):
        e = ctx.deref(args[0])
        return BitVecVal(1000 + e.node, 64)

    @reg(r'^(std::fs::)?symlink_metadata$|^(std::path::)?Path::metadata$|^(std::fs::)?metadata$|^(std::path::)?Path::symlink_metadata$')
    def metadata(ctx, args, callee):
        fs = fs_of(ctx)
        p = as_path(ctx, args[0])
        if p.node is None:
            return err(IoError('not found'))
        n = p.node
        if 'symlink_metadata' not in callee:
            # follows links (chains up to M hops)
            for _ in range(fs.M + 1):
                if n < fs.nroots or not ctx.decide(fs.islink(n)):
                    break
                t = ctx.concretize(fs.target[n], range(fs.M + 1))
                if t == fs.M:
                    return err(IoError('dangling link'))
                n = t
            else:
                return err(IoError('too many levels of symbolic links'))
        return ok(EntryV(n))

    @reg(r'^(std::fs::)?read_link$')
    def read_link(ctx, args, callee):
        fs = fs_of(ctx)
        p = as_path(ctx, args[0])
        h = ctx.ghost.get('read_link_hook')
        if h:
            return h(ctx, p)
        # not following: the result is only used as the path to enter, which ok_to_visit_dir refuses
        return ok(PathV(None, '<link target of n%s>' % p.node, via_link=p.node))

    @reg(r'^(std::path::)?Path::is_relative$|^(std::path::)?Path::is_absolute$')
    def path_is_relative(ctx, args, callee):
        p = as_path(ctx, args[0])
        rel = not (p.text.startswith('/') or p.text.startswith('<'))
        return BoolVal(rel if 'is_relative' in callee else not rel)

    @reg(r'^(std::path::)?Path::parent$')
    def path_parent(ctx, args, callee):
        fs = fs_of(ctx)
        p = as_path(ctx, args[0])
        if '/' not in p.text.rstrip('/'):
            return some(Ref(Cell(PathV(None, ''))))
        ptxt = p.text.rsplit('/', 1)[0]
        node = fs.known_parent.get(p.node) if p.node is not None else None
        return some(Ref(Cell(PathV(node, ptxt))))

    @reg(r'^(std::path::)?Path::join$')
    def path_join(ctx, args, callee):
        fs = fs_of(ctx)
        a = as_path(ctx, args[0]); b = as_path(ctx, args[1])
        h = ctx.ghost.get('join_hook')
        if h:
            return h(ctx, a, b)
        return PathV(b.node, a.text + '/' + b.text, b.via_link)

    @reg(r'^(std::path::)?Path::is_dir$|^(std::path::)?Path::exists$')
    def path_is_dir(ctx, args, callee):
        fs = fs_of(ctx)
        p = as_path(ctx, args[0])
        h = ctx.ghost.get('is_dir_hook')
        if h:
            return h(ctx, p, callee)
        n = p.node
        if n is None and p.via_link is not None:
            # base model: the (unresolved) target of link via_link — one solver Boolean, not a fork per target
            L = p.via_link
            tgt_dir = Or([And(fs.target[L] == BitVecVal(t, 8), fs.isdir(t)) for t in range(fs.M)])
            tgt_any = Or([fs.target[L] == BitVecVal(t, 8) for t in range(fs.M)])
            return tgt_any if 'exists' in callee else tgt_dir
        if n is None:
            return BoolVal(False)
        if 'exists' in callee:
            return BoolVal(True)
        return fs.isdir(n)

    @reg(r'^git2::Repository::discover$|^git2::Repository::open$|^Repository::discover$|^Repository::open$')
    def repo_none(ctx, args, callee):
        return err(UNIT)

    @reg(r'(^|::)path_error_message$')
    def path_error_message(ctx, args, callee):
        p = as_path(ctx, args[0])
        ctx.ghost.setdefault('stderr_paths', []).append(p.node)
        return UNIT

    @reg(r'(^|::)error_message$')
    def error_message(ctx, args, callee):
        ctx.ghost.setdefault('stderr_paths', []).append(('msg', repr(ctx.deref(args[0]))))
        return UNIT

    @reg(r'^(std::time::)?Instant::now$')
    def instant_now(ctx, args, callee):
        return Agg([], 'Instant')

    @reg(r'^(std::io::)?stdout$')
    def stdout(ctx, args, callee):
        return Agg([], 'Stdout')

    @reg(r'^LsColors::from_env$|^lscolors::LsColors::from_env$')
    def lscolors(ctx, args, callee):
        return some(Agg([], 'LsColors'))

    @reg(r'^UsersCache::new$|^uzers::UsersCache::new$')
    def users_cache(ctx, args, callee):
        return Agg([], 'UsersCache')

    # ---- archives
    @reg(r'Searcher::is_zip_archive$')
    def is_zip_archive(ctx, args, callee):
        fs = fs_of(ctx)
        name = as_str(ctx, args[1]).s
        for n, t in fs.text.items():
            if t == name:
                return fs.is_zip[n]
        return BoolVal(False)

    @reg(r'^(std::fs::)?File::open$')
    def file_open(ctx, args, callee):
        p = as_path(ctx, args[0])
        of = ctx.ghost.get('open_fault')
        if of is not None and ctx.decide(of.get(p.node, BoolVal(False))):
            return err(IoError('open failed'))
        return ok(EntryV(p.node))

    @reg(r'ZipArchive<File>>::new$|ZipArchive::new$')
    def zip_new(ctx, args, callee):
        fs = fs_of(ctx)
        f = args[0]
        if ctx.decide(fs.zip_ok[f.node]):
            return ok(EntryV(f.node))
        return err(UNIT)

    @reg(r'ZipArchive<File>>::len$|ZipArchive::len$')
    def zip_len(ctx, args, callee):
        fs = fs_of(ctx)
        a = ctx.deref(args[0])
        return z3.ZeroExt(56, fs.members[a.node])

    @reg(r'ZipArchive<File>>::by_index$|ZipArchive::by_index$')
    def zip_by_index(ctx, args, callee):
        a = ctx.deref(args[0])
        i = conc(args[1])
        if i is None:
            i = ctx.concretize(args[1], range(0, fs_of(ctx).max_members + 1))
        mf = ctx.ghost.get('member_fault')
        if mf is not None and ctx.decide(mf[(a.node, i)]):
            ctx.ghost.setdefault('faulted', []).append(('member', a.node, i))
            return err(UNIT)
        return ok(('member', a.node, i))

    @reg(r'ZipArchive<File>>::by_index_raw$|ZipArchive::by_index_raw$')
    def zip_by_index_raw(ctx, args, callee):
        # the entry as it is stored: no decompression, no decryption — Ok for every member of an archive that could be opened
        a = ctx.deref(args[0])
        i = conc(args[1])
        if i is None:
            i = ctx.concretize(args[1], range(0, fs_of(ctx).max_members + 1))
        return ok(('member', a.node, i))

    @reg(r'^(std::io::)?Error::kind$')
    def io_error_kind(ctx, args, callee):
        import zlib
        e = ctx.deref(args[0])
        return EnumV(zlib.crc32(e.kind.encode()) & 0xffff, {}, 'ErrorKind')

    @reg(r'^<Stdout as IsTerminal>::is_terminal$')
    def is_terminal(ctx, args, callee):
        return BoolVal(False)

    @reg(r'(^|::)Parser::parse$', 'summary:Parser::parse(returns the driver\'s Query)')
    def parser_parse(ctx, args, callee):
        return ok(ctx.ghost['query'])

    @reg(r'(^|::)to_file_info$')
    def to_file_info(ctx, args, callee):
        m = ctx.deref(args[0])
        return ('fileinfo', m[1], m[2])

    # ---- summaries of crate code that belongs to other properties
    @reg(r'Searcher::check_file$', 'summary:check_file')
    def check_file(ctx, args, callee):
        fs = fs_of(ctx)
        s_ref = args[0]
        e = ctx.deref(args[1])
        fi = ctx.deref(args[2])
        member = None
        d = fi.d if isinstance(fi.d, int) else conc(fi.d)
        if d == 1:
            member = fi.p[1][0][2]
        searcher = ctx.deref(s_ref)
        F = E.struct_fields(ctx.prog, 'Searcher')
        ctx.ghost.setdefault('trace', []).append((e.node, member))
        m = fs.match_bit(e.node, member)
        if not ctx.decide(m):
            return ok(BoolVal(True))
        fi_ = F.index('found')
        searcher.f[fi_] = z3.simplify(searcher.f[fi_] + 1)
        ctx.ghost.setdefault('accepted', []).append((e.node, member))
        wf = ctx.ghost.get('write_fault')
        if wf is not None:
            return wf(ctx, e.node, member)
        return ok(BoolVal(True))

    def stdout_write(ctx, what, has_newline):
        """one write to stdout. With ghost['pipe'] set, the consumer may have closed the pipe: the write fails with
        BrokenPipe iff it has to reach the pipe now (LineWriter: it contains a newline, or the 1024-byte buffer cannot take
        it - a solver Boolean) and the pipe is already closed (monotone)."""
        ctx.ghost.setdefault('tokens', []).append(what)
        pipe = ctx.ghost.get('pipe')
        if pipe is None:
            return ok(UNIT)
        k = pipe['n']; pipe['n'] += 1
        closed = ctx.fresh_bool('closed%d' % k)
        if pipe['closed']:
            ctx.assume(z3.Implies(pipe['closed'][-1], closed))
        pipe['closed'].append(closed)
        must_flush = BoolVal(True) if has_newline else ctx.fresh_bool('flush%d' % k)
        if ctx.decide(And(closed, must_flush)):
            pipe['failed'].append(what)
            return err(IoError('broken pipe', 'BrokenPipe'))
        return ok(UNIT)

    @reg(r'ResultsWriter::write_header$|ResultsWriter::write_footer$|ResultsWriter::write_row_separator$|ResultsWriter::write_row$', 'summary:ResultsWriter(token)')
    def writer(ctx, args, callee):
        what = callee.rsplit('::', 1)[1]
        tgt = ctx.deref(args[1])
        if isinstance(tgt, Agg) and tgt.ty == 'Stdout':
            nl = ctx.ghost.get('format_newlines', {}).get(what, False)
            return stdout_write(ctx, what, nl)
        ctx.ghost.setdefault('tokens', []).append(what + '(buf)')
        return ok(UNIT)

    @reg(r'^<dyn (std::io::)?Write as (std::io::)?Write>::write_fmt$|^<Stdout as (std::io::)?Write>::write_fmt$|^std::io::Write::write_fmt$|^<std::io::Stdout as (std::io::)?Write>::write_fmt$')
    def write_fmt(ctx, args, callee):
        tgt = ctx.deref(args[0])
        if isinstance(tgt, Agg) and tgt.ty == 'Stdout':
            return stdout_write(ctx, 'row', ctx.ghost.get('format_newlines', {}).get('row', True))
        return ok(UNIT)

    @reg(r'^std::io::_print$', 'model:print!(panics on a failed write)')
    def io_print(ctx, args, callee):
        r = stdout_write(ctx, 'print', True)
        if r.d == 1:
            raise Panic('failed printing to stdout: Broken pipe')
        return UNIT

    @reg(r'(^|::)TopN::values$', 'summary:TopN::values(empty)')
    def topn_values(ctx, args, callee):
        return Seq([])

    return out


def mk_query(prog, roots, limit, ordered, aggregate=False, grouped=False):
    """Query { fields: [path], roots, expr: None, grouping: [], ordering: [name]? , limit, format: Tabs }"""
    fields = [E.expr_field(prog, 'Path')]
    if aggregate:
        fn = EnumV(prog.src.variant_index('Function', 'Count'), {}, 'Function')
        fields = [E.mk_expr(prog, function=some(fn), left=some(BoxV(E.expr_field(prog, 'Name'))), args=some(Seq([])))]
    from mirsym.models_std import RcV
    ordering = Seq([E.expr_field(prog, 'Name')] if ordered else [])
    asc = Seq([BoolVal(True)] if ordered else [])
    grouping = Seq([E.expr_field(prog, 'Name')] if grouped else [])
    if grouped:
        fields = [E.expr_field(prog, 'Name')] + fields
    return E.mk_struct(prog, 'Query', {}, fields=Seq(fields), roots=Seq(roots), expr=none(),
                       grouping_fields=RcV(grouping), ordering_fields=RcV(ordering), ordering_asc=RcV(asc),
                       limit=limit, output_format=EnumV(prog.src.variant_index('OutputFormat', 'Tabs'), {}, 'OutputFormat'))


def mk_root(prog, text, min_depth, max_depth, dfs, archives=BoolVal(False), symlinks=BoolVal(False)):
    trav = EnumV(If(dfs, BitVecVal(prog.src.variant_index('TraversalMode', 'Dfs'), 64),
                    BitVecVal(prog.src.variant_index('TraversalMode', 'Bfs'), 64)) if not isinstance(dfs, bool)
                 else prog.src.variant_index('TraversalMode', 'Dfs' if dfs else 'Bfs'), {}, 'TraversalMode')
    opts = E.mk_struct(prog, 'RootOptions', {}, min_depth=min_depth, max_depth=max_depth, archives=archives, symlinks=symlinks,
                       gitignore=none(), hgignore=none(), dockerignore=none(), traversal=trav, regexp=BoolVal(False))
    return E.mk_struct(prog, 'Root', {}, path=Str(text), options=opts)


def mk_config(prog):
    f = E.struct_fields(prog, 'Config')
    vals = {k: none() for k in f}
    for k in f:
        if k in ('debug', 'no_color', 'check_for_updates'):
            vals[k] = BoolVal(False) if k == 'debug' else none()
    # Config.debug is a plain bool in this tree; everything else is Option<..>
    return Agg([vals[k] for k in f], 'Config')


def run_exec_search(ctx, prog, query):
    """the real main::exec_search with Parser::parse summarised as returning `query`; -> exit status term"""
    es = prog.find_free('exec_search')
    ctx.ghost['query'] = query
    cfg = mk_config(prog)
    return ctx.call_fn(es, [Seq([]), Ref(Cell(cfg)), Ref(Cell(deep_clone(ctx, cfg))), BoolVal(True)])


def run_search(ctx, prog, query):
    """Searcher::new(&query, &config, &default_config, false) then list_search_results(); -> (result, searcher)"""
    new = prog.find('Searcher', 'new'); lsr = prog.find('Searcher', 'list_search_results')
    cfg = mk_config(prog)
    s = ctx.call_fn(new, [Ref(Cell(query)), Ref(Cell(cfg)), Ref(Cell(deep_clone(ctx, cfg))), BoolVal(False)])
    cell = Cell(s)
    res = ctx.call_fn(lsr, [Ref(cell)])
    return res, cell.v
