"""C02 — WHERE comparisons mean what the documentation says.

Families (real MIR of Searcher::conforms, get_column_expr_value, Variant::to_*, util::str_to_bool, Parser::parse_cond /
parse_func_scalar executed symbolically; z3 decides every obligation over all operand values):
  table/<T>        conforms(op)(L, R) == the documented relation, per operand type and operator
  literal/int      `column OP <decimal literal>`: the literal text is coerced to the number it spells
  literal/bool     `bool column = <true|false|1|0|yes|no|y|n, any case>`
  between          x [not] between a and b  ==  [not] (a <= x <= b)   through the real desugaring + evaluator
  quoted           a quoted literal is always a value, even if it spells a column or function name
"""
import itertools, time
import z3
from z3 import BitVecVal, BoolVal, Not, And, Or, ULT, If
from mirsym.core import Agg, EnumV, Cell, Ref, BoxV, some, none, conc
from mirsym.models_std import Str, table_str
from mirsym.models_fmt import NumStr
from mirsym.models_ext import DateTimeV
from drivers import evalcore as E, parsecore as P
from drivers.c03 import model_vals, witness_to_cli, small_witness
import common

REF = {
    'Int': {'Eq': lambda l, r: l == r, 'Ne': lambda l, r: l != r, 'Eeq': lambda l, r: l == r, 'Ene': lambda l, r: l != r,
            'Gt': lambda l, r: l > r, 'Gte': lambda l, r: l >= r, 'Lt': lambda l, r: l < r, 'Lte': lambda l, r: l <= r},
    'Float': {'Eq': lambda l, r: z3.fpEQ(l, r), 'Ne': lambda l, r: Not(z3.fpEQ(l, r)), 'Eeq': lambda l, r: z3.fpEQ(l, r),
              'Ene': lambda l, r: Not(z3.fpEQ(l, r)), 'Gt': lambda l, r: z3.fpGT(l, r), 'Gte': lambda l, r: z3.fpGEQ(l, r),
              'Lt': lambda l, r: z3.fpLT(l, r), 'Lte': lambda l, r: z3.fpLEQ(l, r)},
    'Bool': {'Eq': lambda l, r: l == r, 'Ne': lambda l, r: l != r, 'Eeq': lambda l, r: l == r, 'Ene': lambda l, r: l != r},
}
# date columns: (t, a, b) -> bool ; literal denotes [a, b]
REF_DT = {'Eq': lambda t, a, b: And(a <= t, t <= b), 'Ne': lambda t, a, b: Or(t < a, t > b), 'Lt': lambda t, a, b: t < a,
          'Gt': lambda t, a, b: t > b, 'Lte': lambda t, a, b: t <= b, 'Gte': lambda t, a, b: t >= a}


def cli_truth_replay(atom, tree, expect_present):
    def rep():
        exe = common.native_binary()
        r = common.run_cli(exe, ['name', 'from', '.', 'where'] + atom.split(' '), tree)
        rows = r['stdout'].split('\n')[:-1]
        present = 'f' in rows
        return (present != expect_present) or r['status'] not in (0,), 'where %s on %r -> rows %r (expected %s), status %s stderr %r' % (
            atom, tree, rows, 'f' if expect_present else 'nothing', r['status'], r['stderr'][:200])
    return rep


def fam_tables(sess, types=('Int', 'Float', 'Bool', 'DateTime')):
    prog = sess.prog
    ex = sess.executor(E.EVAL_OVERRIDES)
    for ty in types:
        fam = 'table/' + ty
        ops = list(REF_DT) if ty == 'DateTime' else list(REF[ty])
        for op in ops:
            box = {}

            def run(ctx, op=op, ty=ty):
                g = ctx.ghost.setdefault('fields', {})
                if ty == 'Int':
                    L = ctx.fresh_bv('L', 64); R = ctx.fresh_bv('R', 64)
                    g['Size'] = E.mk_variant(prog, 'Int', int_value=some(L)); g['Uid'] = E.mk_variant(prog, 'Int', int_value=some(R))
                    sym = {'L': L, 'R': R}; ref = REF['Int'][op](L, R)
                elif ty == 'Float':
                    L = ctx.fresh('L', z3.Float64()); R = ctx.fresh('R', z3.Float64())
                    ctx.assume(Not(z3.fpIsNaN(L))); ctx.assume(Not(z3.fpIsNaN(R)))
                    g['Size'] = E.mk_variant(prog, 'Float', float_value=some(L)); g['Uid'] = E.mk_variant(prog, 'Float', float_value=some(R))
                    sym = {'L': L, 'R': R}; ref = REF['Float'][op](L, R)
                elif ty == 'Bool':
                    L = ctx.fresh_bool('L'); R = ctx.fresh_bool('R')
                    g['Size'] = E.mk_variant(prog, 'Bool', bool_value=some(L)); g['Uid'] = E.mk_variant(prog, 'Bool', bool_value=some(R))
                    sym = {'L': L, 'R': R}; ref = REF['Bool'][op](L, R)
                else:
                    t = ctx.fresh_bv('t', 64); a = ctx.fresh_bv('a', 64); b = ctx.fresh_bv('b', 64)
                    ctx.assume(a <= b)
                    ns = ctx.fresh_bv('nanos', 32); ctx.assume(z3.ULT(ns, BitVecVal(1000000000, 32)))      # file times carry a sub-second part; the property is about whole seconds
                    g['Size'] = E.mk_variant(prog, 'DateTime', dt_from=some(DateTimeV(t, ns)), dt_to=some(DateTimeV(t, ns)))
                    g['Uid'] = E.mk_variant(prog, 'DateTime', dt_from=some(DateTimeV(a)), dt_to=some(DateTimeV(b)))
                    sym = {'t': t, 'a': a, 'b': b, 'ns': ns}; ref = REF_DT[op](t, a, b)
                r = E.run_conforms(ctx, prog, E.leaf_cmp(prog, E.op_enum(prog, op)))
                return sym, r, ref

            def on_path(ctx, out, op=op, ty=ty, fam=fam):
                name = '%s %s' % (fam, op)
                if out[0] != 'ret':
                    sess.inconclusive(name, str(out), fam); box['bad'] = True; return
                sym, r, ref = out[1]
                box['paths'] = box.get('paths', 0) + 1
                res = ctx.check(r != ref)
                if res == z3.unsat:
                    return
                if res != z3.sat:
                    sess.inconclusive(name, 'solver unknown', fam); box['bad'] = True; return
                m = small_witness(ctx, ty, sym, [r != ref])
                vals = model_vals(m, sym)
                want = z3.is_true(m.eval(ref, model_completion=True))
                cli = witness_to_cli(ty, op, vals)
                rep = cli_truth_replay(cli[0], cli[1], want) if cli else None
                sess.violated(name, 'table/%s/%s' % (ty, op), 'evaluator says %s, documentation says %s for %r' % (not want, want, vals),
                              {'type': ty, 'op': op, 'values': vals, 'cli': cli}, rep, fam)
                box['viol'] = True

            ex.explore(run, on_path)
            if not box.get('viol') and not box.get('bad'):
                sess.discharged('%s %s' % (fam, op), family=fam, queries=box.get('paths', 1))


def fam_literal_int(sess):
    """`size OP <digits>`: the right operand is a *literal* (Expr::value), coerced by the real Variant::to_int"""
    prog = sess.prog
    ex = sess.executor(E.EVAL_OVERRIDES)
    fam = 'literal/int'
    for op in REF['Int']:
        box = {}

        def run(ctx, op=op):
            L = ctx.fresh_bv('L', 64); R = ctx.fresh_bv('R', 64)
            ctx.assume(L >= 0); ctx.assume(R >= 0)
            ctx.ghost['fields'] = {'Size': E.mk_variant(prog, 'Int', int_value=some(L))}
            e = E.expr_cmp(prog, E.expr_field(prog, 'Size'), E.op_enum(prog, op), E.expr_value(prog, NumStr(R, False)))
            r = E.run_conforms(ctx, prog, e)
            return {'L': L, 'R': R}, r, REF['Int'][op](L, R)

        def on_path(ctx, out, op=op):
            name = '%s size %s <literal>' % (fam, op)
            if out[0] != 'ret':
                sess.inconclusive(name, str(out), fam); box['bad'] = True; return
            sym, r, ref = out[1]
            box['paths'] = box.get('paths', 0) + 1
            res = ctx.check(r != ref)
            if res == z3.unsat:
                return
            if res != z3.sat:
                sess.inconclusive(name, 'solver unknown', fam); box['bad'] = True; return
            m = small_witness(ctx, 'Int', sym, [r != ref])
            vals = model_vals(m, sym)
            want = z3.is_true(m.eval(ref, model_completion=True))
            cli = witness_to_cli('Int', op, vals)
            sess.violated(name, 'literal/int/' + op, 'evaluator says %s, documentation says %s for %r' % (not want, want, vals),
                          {'op': op, 'values': vals, 'cli': cli}, cli_truth_replay(cli[0], cli[1], want) if cli else None, fam)
            box['viol'] = True
        ex.explore(run, on_path)
        if not box.get('viol') and not box.get('bad'):
            sess.discharged('%s size %s <literal>' % (fam, op), family=fam, queries=box.get('paths', 1))
    # negative literals: `-size OP -<digits>` (both operands carry a leading minus)
    for op in REF['Int']:
        box = {}

        def run(ctx, op=op):
            Lm = ctx.fresh_bv('Lm', 64); Rm = ctx.fresh_bv('Rm', 64)
            ctx.assume(And(Lm >= 0, Lm <= (1 << 40), Rm >= 1, Rm <= (1 << 40)))
            ctx.ghost['fields'] = {'Size': E.mk_variant(prog, 'Int', int_value=some(Lm))}
            left = E.expr_field(prog, 'Size'); left.f[E.struct_fields(prog, 'Expr').index('minus')] = BoolVal(True)
            e = E.expr_cmp(prog, left, E.op_enum(prog, op), E.expr_value(prog, NumStr(Rm, False), minus=True))
            r = E.run_conforms(ctx, prog, e)
            return {'Lm': Lm, 'Rm': Rm}, r, REF['Int'][op](-Lm, -Rm)

        def on_path(ctx, out, op=op):
            name = '%s -size %s -<literal>' % (fam, op)
            if out[0] != 'ret':
                sess.inconclusive(name, str(out), fam); box['bad'] = True; return
            sym, r, ref = out[1]
            box['paths'] = box.get('paths', 0) + 1
            res = ctx.check(r != ref)
            if res == z3.unsat:
                return
            if res != z3.sat:
                sess.inconclusive(name, 'solver unknown', fam); box['bad'] = True; return
            if box.get('viol'):
                return
            box['viol'] = True
            m = ctx.model(r != ref, sym['Lm'] <= 4096, sym['Rm'] <= 4096) or ctx.model(r != ref)
            lm = m.eval(sym['Lm'], model_completion=True).as_long(); rm = m.eval(sym['Rm'], model_completion=True).as_long()
            want = z3.is_true(m.eval(ref, model_completion=True))
            atom = '-size %s -%d' % (E.OP_TEXT[op], rm)
            sess.violated(name, 'literal/int/negative', 'size %d: evaluator says %s, arithmetic says %s for `%s`' % (lm, not want, want, atom),
                          {'op': op, 'size': lm, 'literal': -rm}, cli_truth_replay(atom, {'f': {'size': lm}}, want), fam)
        ex.explore(run, on_path)
        if not box.get('viol') and not box.get('bad'):
            sess.discharged('%s -size %s -<literal>' % (fam, op), family=fam, queries=box.get('paths', 1))


BOOL_WORDS = {'true': True, '1': True, 'yes': True, 'y': True, 'false': False, '0': False, 'no': False, 'n': False}


def case_variants(w, limit=4):
    out = {w, w.upper(), w.capitalize()}
    if len(w) > 2:
        out.add(w[0] + w[1:].upper())
    return sorted(out)[:limit]


def fam_literal_bool(sess):
    prog = sess.prog
    ex = sess.executor(E.EVAL_OVERRIDES + [(r'(^|::)str_to_bool$', P.pure_lift(lambda p: p.find_free('str_to_bool'), 'str_to_bool'), 'lift:str_to_bool')])
    fam = 'literal/bool'
    spellings = []
    for w in BOOL_WORDS:
        spellings += case_variants(w)
    box = {}

    def run(ctx):
        L = ctx.fresh_bool('L')
        lit = table_str(ctx, 'lit', spellings)
        op = ctx.fresh_bv('op', 64)
        k = ctx.concretize(op, [prog.src.variant_index('Op', o) for o in ('Eq', 'Ne')])
        ctx.ghost['fields'] = {'IsDir': E.mk_variant(prog, 'Bool', bool_value=some(L), string_value=Str(term=If(L, z3.StringVal('true'), z3.StringVal('false'))))}
        e = E.expr_cmp(prog, E.expr_field(prog, 'IsDir'), E.op_enum(prog, prog.src.variant_name('Op', k)), E.expr_value(prog, lit))
        r = E.run_conforms(ctx, prog, e)
        truth = Or([lit.var == i for i, s in lit.tab.items() if BOOL_WORDS[s.lower()]])
        ref = (L == truth) if prog.src.variant_name('Op', k) == 'Eq' else (L != truth)
        return L, lit, k, r, ref

    def on_path(ctx, out):
        if out[0] != 'ret':
            sess.inconclusive(fam, str(out), fam); box['bad'] = True; return
        L, lit, k, r, ref = out[1]
        box['paths'] = box.get('paths', 0) + 1
        res = ctx.check(r != ref)
        if res == z3.unsat:
            return
        if res != z3.sat:
            sess.inconclusive(fam, 'solver unknown', fam); box['bad'] = True; return
        m = ctx.model(r != ref)
        word = lit.tab[m.eval(lit.var, model_completion=True).as_long()]
        Lv = z3.is_true(m.eval(L, model_completion=True))
        op = prog.src.variant_name('Op', k)
        want = z3.is_true(m.eval(ref, model_completion=True))
        atom = 'is_dir %s %s' % (E.OP_TEXT[op], word)
        tree = {'f': ({'kind': 'dir'} if Lv else {'size': 1})}
        if not box.get('viol'):
            sess.violated('%s %s' % (fam, atom), 'literal/bool/' + word.lower(), 'is_dir=%s: evaluator says %s, documentation says %s' % (Lv, not want, want),
                          {'atom': atom, 'is_dir': Lv}, cli_truth_replay(atom, tree, want), fam)
        box['viol'] = True
    ex.explore(run, on_path)
    sess.bounds['literal/bool'] = {'spellings': spellings}
    if not box.get('viol') and not box.get('bad'):
        sess.discharged('%s: %d spellings x {=, !=} x both truth values' % (fam, len(spellings)), family=fam, queries=box.get('paths', 1))


LITS = ['0', '1', '5', '17', '100']


def fam_between(sess, negs=(False,)):
    """tokens `size [not] between a and b` -> real parse_cond -> real conforms; x symbolic, a, b from a table of literals"""
    prog = sess.prog
    ex = sess.executor(E.EVAL_OVERRIDES + P.table_overrides(), unwind=12)
    parse_cond = prog.find('Parser', 'parse_cond')
    fam = 'between'
    for neg in negs:
        box = {}

        def run(ctx, neg=neg):
            x = ctx.fresh_bv('x', 64); ctx.assume(x >= 0)
            ctx.ghost['fields'] = {'Size': E.mk_variant(prog, 'Int', int_value=some(x), string_value=NumStr(x, True))}
            la, ta = P.sym_lexem(ctx, prog, LITS, 'a'); lb, tb = P.sym_lexem(ctx, prog, LITS, 'b')
            toks = [P.mk_lexem(prog, 'size')] + ([P.mk_lexem(prog, 'not')] if neg else []) + [P.mk_lexem(prog, 'between'), la, P.mk_lexem(prog, 'and'), lb]
            parser = P.mk_parser(prog, toks)
            res = ctx.call_fn(parse_cond, [Ref(Cell(parser))])
            e = res.p[0][0].p[1][0]
            r = E.run_conforms(ctx, prog, e)
            av = lambda t: z3.Sum([If(t == i, int(LITS[i]), 0) for i in range(len(LITS))])
            a = z3.BV2Int(x, True)
            inb = And(av(ta) <= a, a <= av(tb))
            return x, ta, tb, r, (Not(inb) if neg else inb), e

        def on_path(ctx, out, neg=neg):
            name = 'between' + (' (not)' if neg else '')
            if out[0] != 'ret':
                sess.inconclusive(name, str(out), fam); box['bad'] = True; return
            x, ta, tb, r, ref, e = out[1]
            box['paths'] = box.get('paths', 0) + 1
            res = ctx.check(r != ref)
            if res == z3.unsat:
                return
            if res != z3.sat:
                sess.inconclusive(name, 'solver unknown', fam); box['bad'] = True; return
            if box.get('viol'):
                return
            m = ctx.model(r != ref, x <= 4096) or ctx.model(r != ref)
            xv = m.eval(x, model_completion=True).as_signed_long()
            a = LITS[m.eval(ta, model_completion=True).as_long()]; b = LITS[m.eval(tb, model_completion=True).as_long()]
            want = z3.is_true(m.eval(ref, model_completion=True))
            atom = 'size %sbetween %s and %s' % ('not ' if neg else '', a, b)
            role = 'between/not-boundary' if neg else 'between/boundary'
            sess.violated(name, role, 'size=%d: %s evaluates to %s (tree %s), expected %s' % (xv, atom, not want, P.expr_to_text(ctx, prog, e), want),
                          {'atom': atom, 'size': xv}, cli_truth_replay(atom, {'f': {'size': xv}}, want), fam)
            box['viol'] = True
        ex.explore(run, on_path)
        if not box.get('viol') and not box.get('bad'):
            sess.discharged('x %sbetween a and b == %s(a <= x <= b), a,b in %r, all x' % ('not ' if neg else '', 'not ' if neg else '', LITS),
                            family=fam, queries=box.get('paths', 1))
    sess.bounds['between'] = {'literals': LITS, 'x': 'all non-negative i64'}


def fam_quoted(sess):
    """a quoted literal (Lexem::String) must parse to a value even when it spells a column / function name"""
    prog = sess.prog
    ex = sess.executor(P.table_overrides(), unwind=8)
    pfs = prog.find('Parser', 'parse_func_scalar')
    fam = 'quoted'
    words = ['size', 'name', 'bin', 'lower', 'abc', '5', 'is_dir', 'count']
    F = E.struct_fields(prog, 'Expr')
    seen = {}

    def run(ctx):
        lx, t = P.sym_lexem(ctx, prog, ['q:' + w for w in words], 'w')
        parser = P.mk_parser(prog, [lx, P.mk_lexem(prog, ')')])
        res = ctx.call_fn(pfs, [Ref(Cell(parser))])
        return t, res

    def on_path(ctx, out):
        if out[0] != 'ret':
            # `'count'` etc: parse_function may return Err for a non-boolean function without brackets — still wrong
            sess.inconclusive(fam, str(out), fam); return
        t, res = out[1]
        block = []
        for _ in range(len(words)):
            m = ctx.model(*block)
            if m is None:
                break
            k = m.eval(t, model_completion=True).as_long(); block.append(t != k)
            w = words[k]
            d = res.d if isinstance(res.d, int) else conc(res.d)
            okv = False
            if d == 0:
                e = res.p[0][0].p[1][0]
                val = e.f[F.index('val')]; fld = e.f[F.index('field')]; fun = e.f[F.index('function')]
                vd = val.d if isinstance(val.d, int) else conc(val.d)
                okv = (vd == 1 and conc(fld.d) == 0 and conc(fun.d) == 0)
                what = P.expr_to_text(ctx, prog, e)
            else:
                what = 'Err'
            if okv:
                seen[w] = 'ok'
            else:
                seen[w] = what
    ex.explore(run, on_path)
    for w in words:
        st = seen.get(w)
        if st == 'ok':
            sess.discharged("quoted '%s' parses to a value" % w, family=fam)
        elif st is None:
            sess.inconclusive("quoted '%s'" % w, 'no path', fam)
        else:
            kind = 'column' if prog.src.variant_index('Field', st.lstrip('-')) is not None else 'function'
            tree = {w: {'size': 1}, 'other': {'size': 1}}

            def rep(w=w, tree=tree):
                exe = common.native_binary()
                r = common.run_cli(exe, ['name', 'from', '.', 'where', 'name', '=', "'%s'" % w], tree)
                rows = r['stdout'].split('\n')[:-1]
                return rows != [w], "where name = '%s' -> rows %r (expected [%r]) status %s stderr %r" % (w, rows, w, r['status'], r['stderr'][:150])
            sess.violated("quoted '%s'" % w, 'quoted/as-' + kind, "the quoted literal '%s' is parsed as %s" % (w, st), {'word': w}, rep, fam)
    sess.bounds['quoted'] = {'words': words}


def cli_rows_replay(atom, v, l, op, cname):
    def rep():
        exe = common.native_binary()
        r = common.run_cli(exe, ['name from . where ' + atom], {v: {'size': 1}})
        rows = r['stdout'].split('\n')[:-1]
        value = v if cname == 'Name' else './' + v
        want = [v] if (value == l) == (op == 'Eeq') else []
        return rows != want or r['status'] != 0, 'where %s on a file named %r -> rows %r, expected %r (status %s)' % (atom, v, rows, want, r['status'])
    return rep


def fam_literal_text(sess):
    """the two operands of a comparison are evaluated independently: `name === <literal>` holds exactly when the name IS the
    literal text, also when the literal spells the column's own name or display name (value caches are keyed by such texts)"""
    prog = sess.prog
    fam = 'literal/text'
    ex = sess.executor(E.EVAL_OVERRIDES, unwind=8)
    words = ['Name', 'name', 'NAME', 'Size', 'size', 'abc', 'Path', '']
    box = {}

    def run(ctx):
        val = table_str(ctx, 'value', words[:-1])
        lit = table_str(ctx, 'lit', words[:-1])
        k = ctx.concretize(ctx.fresh_bv('op', 64), [prog.src.variant_index('Op', o) for o in ('Eeq', 'Ene')])
        col = ctx.concretize(ctx.fresh_bv('col', 8), [0, 1])
        cname = ['Name', 'Path'][col]
        ctx.ghost['fields'] = {cname: E.mk_variant(prog, 'String', string_value=val)}
        e = E.expr_cmp(prog, E.expr_field(prog, cname), E.op_enum(prog, prog.src.variant_name('Op', k)), E.expr_value(prog, lit))
        r = E.run_conforms(ctx, prog, e)
        same = Or([And(val.var == i, lit.var == j) for i, a in val.tab.items() for j, b in lit.tab.items() if a == b])
        return val, lit, k, cname, r, (same if prog.src.variant_name('Op', k) == 'Eeq' else Not(same))

    def on_path(ctx, out):
        if out[0] != 'ret':
            sess.inconclusive(fam, str(out), fam); box['bad'] = True; return
        val, lit, k, cname, r, ref = out[1]
        box['paths'] = box.get('paths', 0) + 1
        if ctx.check(r != ref) == z3.unsat or box.get('viol'):
            return
        box['viol'] = True
        m = ctx.model(r != ref)
        v = val.tab[m.eval(val.var, model_completion=True).as_long()]; l = lit.tab[m.eval(lit.var, model_completion=True).as_long()]
        op = prog.src.variant_name('Op', k)
        want = z3.is_true(m.eval(ref, model_completion=True))
        atom = "%s %s '%s'" % (cname.lower(), E.OP_TEXT[op], l)
        tree = {v: {'size': 1}}
        if cname == 'Path':
            tree = {v: {'size': 1}}
        sess.violated('%s %s' % (fam, atom), 'literal/text/' + ('own-name' if l.lower() == cname.lower() else 'other'),
                      'entry %r: evaluator says %s, the literal text comparison says %s' % (v, not want, want), {'atom': atom, 'entry': v},
                      cli_rows_replay(atom, v, l, op, cname), fam)
    ex.explore(run, on_path)
    sess.bounds[fam] = {'values / literals': words[:-1], 'columns': ['name', 'path'], 'operators': ['===', '!==']}
    if not box.get('viol') and not box.get('bad'):
        sess.discharged('%s: name / path ===, !== <quoted literal>, literal and value from the same table' % fam, family=fam, queries=box.get('paths', 1))


def main(sess):
    sess.engines = ['mirsym (MIR symbolic execution) + z3 %s' % z3.get_version_string()]
    sess.assumptions += [
        'summary: Searcher::get_field_value returns an arbitrary Variant of the column type (that it is the real attribute is C04)',
        'Float operands are not NaN; text patterns are C12; date literal parsing is C13; unit suffixes are C14',
        'bool columns: only = / != / === / !== are documented; ordering operators on booleans are not claimed',
        'date columns: === / !== are undocumented and not claimed',
    ]
    only = getattr(sess, 'only', None)
    for name, f in (('tables', fam_tables), ('literal_int', fam_literal_int), ('literal_bool', fam_literal_bool),
                    ('between', fam_between), ('quoted', fam_quoted), ('literal_text', fam_literal_text)):
        if not only or name in only:
            f(sess)

    if not only or 'e2e' in only:
        from drivers import e2e
        e2e.family_for(sess, 'C02')
