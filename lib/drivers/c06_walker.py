"""C06 family `walker`: the early-exit guards of the real walker (directory loop, archive-member loop, roots loop) and
Searcher::new's TopN choice, inside the abstract file system of drivers/walker.py with a symbolic LIMIT, symbolic WHERE
verdicts per row, zip archives with symbolic member counts, ordered / unordered queries, one and two roots."""
import z3
from z3 import BitVecVal, BoolVal, Not, And, Or, If, ULT, ULE, UGE, Sum
from mirsym.core import conc
from drivers import evalcore as E, walker as W
from drivers.c01 import tree_from_model
import common, os, struct, zlib


def make_zip(n, names=None):
    """a minimal stored zip with n empty members m0..m{n-1} (or the given names)"""
    out = b''; cd = b''; off = 0
    for i in range(n):
        name = (names[i] if names else 'm%d' % i).encode()
        lh = struct.pack('<IHHHHHIIIHH', 0x04034b50, 20, 0, 0, 0, 0x21, 0, 0, 0, len(name), 0) + name
        cd += struct.pack('<IHHHHHHIIIHHHHHII', 0x02014b50, 20, 20, 0, 0, 0, 0x21, 0, 0, 0, len(name), 0, 0, 0, 0, 0, off) + name
        out += lh; off += len(lh)
    eocd = struct.pack('<IHHHHIIH', 0x06054b50, 0, 0, n, n, len(cd), off, 0)
    return out + cd + eocd


def run(sess, configs=None, fam='walker'):
    prog = sess.prog
    quick = sess.tier == 'quick'
    # (nodes, roots, ordered[, WHERE verdicts symbolic]); quick: every row matches, plus 3 nodes with a symbolic verdict per row (a zip
    # whose leading members are rejected); thorough: 4 nodes with a symbolic verdict per row,
    # 5 nodes without (5 nodes x verdicts x archives x limit does not finish: > 48 000 paths in 20 minutes)
    configs = configs or ([(4, 1, False), (4, 1, True), (4, 2, True), (4, 2, False), (3, 1, False, True)] if quick else
                          [(4, 1, False, True), (4, 1, True, True), (4, 2, True, True), (4, 2, False, True), (5, 1, False, False), (5, 1, True, False)])
    configs = [c if len(c) == 4 else (c + (not quick and c[0] <= 4,)) for c in configs]
    sess.bounds[fam] = {'configurations (nodes, roots, ordered, symbolic WHERE verdicts)': [list(c) for c in configs], 'limit': '0..nodes+3', 'zip members': '0..2'}
    for (M, nroots, ordered, verdicts) in configs:
        ex = sess.executor(W.models(), unwind=3 * M + 6, maxsteps=400000)
        viol = {}
        st = {'paths': 0}

        def runp(ctx, M=M, nroots=nroots, ordered=ordered, verdicts=verdicts):
            fs = W.FS(ctx, M, roots=nroots, kinds=(W.FILE, W.DIR), archives=True)
            ctx.ghost['fs'] = fs
            for i in range(nroots, M):
                ctx.assume(Or(Not(fs.is_zip[i]), fs.kind[i] == BitVecVal(W.FILE, 8)))
            limit = ctx.fresh_bv('limit', 32)
            ctx.assume(ULE(limit, BitVecVal(M + 3, 32)))
            # WHERE verdicts for every possible row, fixed up front (quick tier: no WHERE clause, every row matches)
            if not verdicts:
                ctx.ghost['match_all'] = BoolVal(True)
            for i in range(nroots, M):
                fs.match_bit(i, None)
                for j in range(fs.max_members):
                    fs.match_bit(i, j)
            roots = [W.mk_root(prog, 'R%d' % r, BitVecVal(0, 32), BitVecVal(0, 32), False, archives=BoolVal(True)) for r in range(nroots)]
            q = W.mk_query(prog, roots, limit, ordered=ordered)
            res, searcher = W.run_search(ctx, prog, q)
            return fs, limit, searcher

        def on_path(ctx, out, M=M, nroots=nroots, ordered=ordered):
            st['paths'] += 1
            name = '%s M=%d roots=%d %s' % (fam, M, nroots, 'ordered' if ordered else 'unordered')
            if out[0] != 'ret':
                if out[0] == 'panic':
                    if not viol.get('panic'):
                        viol['panic'] = True
                        sess.violated(name, 'walker/limit/panic', out[1], {}, None, fam)
                else:
                    st['bad'] = True
                    sess.inconclusive(name, str(out), fam)
                return
            fs, limit, searcher = out[1]
            depth, reach, root = fs.terms()
            accepted = ctx.ghost.get('accepted', [])
            # specification: rows that exist and match
            rows = []
            for i in range(nroots, M):
                rows.append(((i, None), And(reach[i], fs.matches[(i, None)])))
                for j in range(fs.max_members):
                    rows.append(((i, j), And(reach[i], fs.is_zip[i], fs.zip_ok[i], ULT(BitVecVal(j, 8), fs.members[i]), fs.matches[(i, j)])))
            total = Sum([If(c, BitVecVal(1, 32), BitVecVal(0, 32)) for _, c in rows])
            acc_n = BitVecVal(len(accepted), 32)
            conds = []
            cnt = {}
            for a in accepted:
                cnt[a] = cnt.get(a, 0) + 1
            for key, c in rows:
                # never twice, never a row that does not exist / does not match
                conds.append(BoolVal(cnt.get(key, 0) <= 1))
                if cnt.get(key, 0):
                    conds.append(c)
            if ordered:
                # buffered: every matching row must reach TopN, whatever the limit
                spec = acc_n == total
                role = 'walker/limit/ordered-loses-rows'
            else:
                spec = If(limit == 0, acc_n == total, acc_n == If(ULT(limit, total), limit, total))
                role = 'walker/limit/unordered-count'
            conds.append(spec)
            r = ctx.check(Not(And(conds)))
            if r == z3.unsat:
                return
            if r != z3.sat:
                st['bad'] = True
                sess.inconclusive(name, 'solver unknown', fam); return
            m = ctx.model(Not(And(conds)))
            # refine the role by where the loss happens
            lim = m.eval(limit, model_completion=True).as_long()
            tot = m.eval(total, model_completion=True).as_long()
            has_member = any(mem is not None for (_, mem) in accepted) or any(
                z3.is_true(m.eval(c, model_completion=True)) and k[1] is not None for k, c in rows)
            if ordered:
                role += '/archive' if has_member and nroots == 1 else ('/roots' if nroots > 1 and not has_member else ('/archive' if has_member else ''))
            if viol.get(role):
                return
            viol[role] = True
            sess.violated(name, role, 'limit=%d, %d matching rows, %d handed on: %r' % (lim, tot, len(accepted), accepted),
                          {'limit': lim, 'total': tot, 'accepted': accepted}, cli_replay(fs, m, lim, ordered, nroots), fam)

        n, complete = ex.explore(runp, on_path, time_budget=(300 if quick else 2400))
        name = '%s M=%d roots=%d %s%s' % (fam, M, nroots, 'ordered' if ordered else 'unordered', ' (symbolic WHERE verdicts)' if verdicts else '')
        if not complete:
            sess.inconclusive(name, 'time budget exceeded after %d paths' % n, fam)
        elif not viol and not st.get('bad'):
            sess.discharged(name + ': rows handed on = specification for every tree, limit, WHERE verdict, archive', family=fam, queries=st['paths'])


def cli_replay(fs, m, limit, ordered, nroots):
    """realise the tree (zip files with the model's member counts; WHERE verdicts via sizes) and compare row counts"""
    def rep():
        exe = common.native_binary()
        tree, path, par, kind, usable = tree_from_model(fs, m)
        M = fs.M
        match = {}
        for (i, j), b in fs.matches.items():
            match[(i, j)] = z3.is_true(m.eval(b, model_completion=True))
        members = {}; mnames = {}
        want = []
        for i in range(nroots, M):
            if not usable[i]:
                continue
            iszip = z3.is_true(m.eval(fs.is_zip[i], model_completion=True)) and kind[i] == 0
            zok = z3.is_true(m.eval(fs.zip_ok[i], model_completion=True))
            nm = m.eval(fs.members[i], model_completion=True).as_long()
            # WHERE verdict is encoded in the name: rows whose own name starts with 'q' match (`name =~ '(^|\] )q'`: the name of a
            # member is `[archive] member`, so archive and member carry independent verdicts)
            tag = 'q' if match.get((i, None)) else 'x'
            newp = path[par[i]] + '/%s%d%s' % (tag, i, '.zip' if iszip else '')
            ent = tree.pop(path[i])
            path[i] = newp
            if iszip:
                mnames[i] = [('q' if match.get((i, j)) else 'x') + str(j) for j in range(nm)]
                ent = {'content': make_zip(nm, mnames[i]) if zok else b'PK\x03\x04garbage'}
            tree[newp] = ent
            if match.get((i, None)):
                want.append(newp)
            if iszip and zok:
                members[i] = nm
        # children paths must follow renamed parents
        for i in range(nroots, M):
            if usable[i] and not path[i].startswith(path[par[i]] + '/'):
                old = path[i]
                path[i] = path[par[i]] + '/' + old.rsplit('/', 1)[1]
                tree[path[i]] = tree.pop(old)
        argv = ['path', 'from']
        for r in range(nroots):
            if r:
                argv.append(',')
            argv += ['R%d' % r, 'archives']
        argv += ['where', 'name', '=~', "'(^|\\] )q'"]
        if ordered:
            argv += ['order', 'by', 'name']
        if limit:
            argv += ['limit', str(limit)]
        r_ = common.run_cli(exe, argv, tree)
        got = r_['stdout'].split('\n')[:-1]
        # expected rows from the real tree under this WHERE
        names = []
        for p, e in tree.items():
            if p in ('R0', 'R1'):
                continue
            if p.rsplit('/', 1)[1].startswith('q'):
                names.append(p.rsplit('/', 1)[1])
        for i, nm in members.items():
            names += [n_ for n_ in mnames[i] if n_.startswith('q')]
        total = len(names)
        exp = total if limit == 0 else min(limit, total)
        bad = len(got) != exp or r_['status'] != 0
        if r_['status'] == 2 and 'parse' in r_['stderr']:
            return False, 'the replay query was rejected by the parser (a defect of the replay, not a reproduction): %r' % r_['stderr'][:200]
        det = 'fselect %s on %r -> %d rows %r ; expected %d of %d (status %s, stderr %r)' % (
            ' '.join(argv), sorted(tree), len(got), got, exp, total, r_['status'], r_['stderr'][:200])
        if ordered and not bad:
            got_names = sorted(g.split('] ')[1] if g.startswith('[') else g.rsplit('/', 1)[1] for g in got)
            want_names = sorted(sorted(names)[:exp])
            if got_names != want_names:
                bad = True
                det += ' ; ORDER BY name LIMIT must return the names %r, got %r' % (want_names, got_names)
        return bad, det
    return rep
