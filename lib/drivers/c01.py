"""C01 — traversal is exact: every entry in the depth window, once, nothing else; bfs/dfs order.

The whole real walker (Searcher::new, list_search_results, visit_dir, ok_to_visit_dir, is_buffered, Query::*) is
executed from MIR over the abstract file system of drivers/walker.py with the tree shape, entry kinds, depth window
and root depth symbolic; z3 decides on every path that the reported multiset equals the specification."""
import z3
from z3 import BitVecVal, BoolVal, Not, And, Or, If, ULT, ULE, UGE
from mirsym.core import Agg, EnumV, Cell, Ref, conc
from drivers import evalcore as E, walker as W
import common, os

KIND_NAME = {0: 'file', 1: 'dir', 2: 'symlink'}


NAME_SETS = ['n%d', 'a%d', 'zz%d', 'k%dx', 'Q%d', 'e%d.txt']


def tree_from_model(fs, m, namefmt='n%d'):
    """-> (tree spec for common.build_tree, names, parents, kinds)"""
    M = fs.M
    par = {}; kind = {}
    for i in range(fs.nroots, M):
        par[i] = m.eval(fs.parent[i], model_completion=True).as_long()
        kind[i] = m.eval(fs.kind[i], model_completion=True).as_long()
    path = {r: 'R%d' % r for r in range(fs.nroots)}
    bad = {}
    if hasattr(fs, 'nonutf8'):
        for i in range(M):
            bad[i] = z3.is_true(m.eval(fs.nonutf8[i], model_completion=True))
    for i in range(fs.nroots, M):
        # a node whose path is not valid UTF-8 while its parent's is: its own name carries a stray byte 0xE9
        own = bad.get(i) and not bad.get(par[i])
        path[i] = path[par[i]] + '/' + namefmt % i + ('\udce9' if own else '')
    tree = {}
    for r in range(fs.nroots):
        tree[path[r]] = {'kind': 'dir'}
    usable = {r: True for r in range(fs.nroots)}
    for i in range(fs.nroots, M):
        usable[i] = usable[par[i]] and (par[i] < fs.nroots or kind[par[i]] == 1)
    for i in range(fs.nroots, M):
        # children of non-directories cannot exist on a real file system: they are dropped (their ancestors are not dirs)
        usable[i] = usable[par[i]] and (par[i] < fs.nroots or kind[par[i]] == 1)
        if not usable[i]:
            continue
        if kind[i] == 1:
            tree[path[i]] = {'kind': 'dir'}
        elif kind[i] == 2:
            import os
            t = m.eval(fs.target[i], model_completion=True).as_long() if fs.target[i] is not None else fs.M
            tgt = '/nonexistent-target'
            if t < fs.M and (t < fs.nroots or usable.get(t)) and t in path:
                tgt = os.path.relpath(path[t], os.path.dirname(path[i]))
            tree[path[i]] = {'kind': 'symlink', 'target': tgt}
        else:
            tree[path[i]] = {'size': 1}
    return tree, path, par, kind, usable


def expected_rows(fs, path, par, kind, usable, mind, maxd):
    out = []
    depth = {r: 0 for r in range(fs.nroots)}
    for i in range(fs.nroots, fs.M):
        if not usable[i]:
            continue
        depth[i] = depth[par[i]] + 1
        d = depth[i]
        if (mind == 0 or d >= mind) and (maxd == 0 or d <= maxd):
            out.append(path[i])
    return sorted(out), depth


def cli_replay(fs, m, mind, maxd, dfs, nroots):
    def rep():
        """the model lists a directory in index order, a real file system in an order of its own: the counterexample
        is replayed under several namings of the same tree (readdir order follows the names); reproduced = any fails"""
        exe = common.native_binary()
        last = ''
        for fmt in NAME_SETS:
            tree, path, par, kind, usable = tree_from_model(fs, m, fmt)
            argv = ['path', 'from']
            for r in range(nroots):
                if r:
                    argv.append(',')
                argv += ['R%d' % r]
                if mind:
                    argv += ['mindepth', str(mind)]
                if maxd:
                    argv += ['maxdepth', str(maxd)]
                if dfs:
                    argv += ['dfs']
            r_ = common.run_cli(exe, argv, tree)
            got = r_['stdout'].split('\n')[:-1]
            want, depth = expected_rows(fs, path, par, kind, usable, mind, maxd)
            want = sorted(w.replace('\udce9', '\ufffd') for w in want)     # names print lossily
            path = {k: v.replace('\udce9', '\ufffd') for k, v in path.items()}
            bad = sorted(got) != want or r_['status'] != 0
            det = 'fselect %s on %r -> %r ; expected %r (status %s, stderr %r)' % (' '.join(argv), {k: v.get('kind', 'file') + ('->' + v['target'] if 'target' in v else '') for k, v in tree.items()}, got, want, r_['status'], r_['stderr'][:200])
            if not bad:
                inv = {v: k for k, v in path.items()}
                ds = [depth[inv[g]] for g in got if g in inv]
                if not dfs and nroots == 1 and ds != sorted(ds):
                    bad = True; det += ' ; bfs order violated: depths %r' % ds
                if dfs:
                    for a in range(len(got)):
                        pre = got[a] + '/'
                        inside = [g.startswith(pre) for g in got[a + 1:]]
                        if any(inside) and not all(inside[:sum(inside)]):
                            bad = True; det += ' ; dfs: subtree of %s not contiguous' % got[a]
            last = det
            if bad:
                return True, det
        return False, last
    return rep


def cli_replay_fsroot(mi, ma, dfs):
    """the real file-system root: every row of `path from / mindepth a maxdepth b` has between a and b components (volatile trees such as
    /proc may come and go between two runs, so the rows are judged one by one, not compared with a listing)"""
    def rep():
        exe = common.native_binary()
        a, b = max(mi, 1), (ma if ma else 0)
        if not b or b > 3:
            b = min(max(a, 2), 3); a = min(a, b)       # keep the walk of `/` shallow
        argv = ['path', 'from', '/', 'mindepth', str(a), 'maxdepth', str(b)] + (['dfs'] if dfs else [])
        import subprocess
        try:
            p = subprocess.run([exe] + argv, stdout=subprocess.PIPE, stderr=subprocess.PIPE, timeout=120, env={'PATH': os.environ['PATH'], 'HOME': '/nonexistent', 'TZ': 'UTC'})
        except subprocess.TimeoutExpired:
            return False, 'walking / took too long to replay'
        rows = [r for r in p.stdout.decode('utf-8', 'replace').split('\n')[:-1] if not r.startswith(('/proc', '/sys', '/dev', '/run', '/tmp', '/var/tmp'))]
        off = [r for r in rows if not (a <= len([c for c in r.split('/') if c]) <= b)]
        top = sorted(e for e in os.listdir('/') if e not in ('proc', 'sys', 'dev', 'run', 'tmp'))
        missing = [e for e in top if a <= 1 and '/' + e not in rows]
        bad = bool(off) or bool(missing)
        return bad, 'fselect %s -> %d rows, %d of them outside the window (e.g. %r)%s' % (' '.join(argv), len(rows), len(off), off[:2], (', entries of / missing: %r' % missing[:3]) if missing else '')
    return rep


def run_family(sess, M, nroots, dfs, fam, fsroot=False):
    prog = sess.prog
    ex = sess.executor(W.models(), unwind=M + 3, maxsteps=400000)
    viol = {}
    stats = {'paths': 0}

    def run(ctx):
        fs = W.FS(ctx, M, roots=nroots, fsroot=fsroot)
        ctx.ghost['fs'] = fs
        ctx.ghost['match_all'] = BoolVal(True)
        mind = ctx.fresh_bv('mindepth', 32); maxd = ctx.fresh_bv('maxdepth', 32)
        ctx.assume(ULE(mind, BitVecVal(M + 1, 32))); ctx.assume(ULE(maxd, BitVecVal(M + 1, 32)))
        roots = [W.mk_root(prog, 'R%d' % r, mind, maxd, dfs) for r in range(nroots)]
        q = W.mk_query(prog, roots, BitVecVal(0, 32), ordered=False)
        res, searcher = W.run_search(ctx, prog, q)
        return fs, mind, maxd, res, searcher

    def on_path(ctx, out):
        stats['paths'] += 1
        name = '%s M=%d' % (fam, M)
        if out[0] == 'panic':
            role = 'walker/panic'
            if not viol.get(role):
                viol[role] = True
                sess.violated(name, role, 'the walker panics: ' + out[1], {}, None, fam)
            return
        if out[0] == 'end' and out[1].startswith('UNWIND'):
            stats['bad'] = True
            sess.inconclusive(name, out[1], fam); return
        if out[0] != 'ret':
            stats['bad'] = True
            sess.inconclusive(name, str(out), fam); return
        fs, mind, maxd, res, searcher = out[1]
        trace = [n for n, mem in ctx.ghost.get('trace', [])]
        depth, reach, root = fs.terms()
        conds = []
        count = {i: 0 for i in range(M)}
        for n in trace:
            count[n] += 1
        win = lambda d: And(Or(mind == 0, UGE(d, mind)), Or(maxd == 0, ULE(d, maxd)))
        for i in range(nroots, M):
            exp = And(reach[i], win(depth[i]))
            conds.append(If(exp, BitVecVal(1, 8), BitVecVal(0, 8)) == BitVecVal(count[i], 8))
        for r in range(nroots):
            conds.append(BoolVal(count[r] == 0))
        order = []
        if not dfs:
            # bfs: per root, depths along the trace never decrease
            for a in range(len(trace)):
                for b in range(a + 1, len(trace)):
                    order.append(Or(root[trace[a]] != root[trace[b]], ULE(depth[trace[a]], depth[trace[b]])))
        else:
            anc = fs.ancestor()
            for a in range(len(trace)):
                for b in range(a + 1, len(trace)):
                    for c in range(b + 1, len(trace)):
                        order.append(Or(Not(anc[trace[c]][trace[a]]), anc[trace[b]][trace[a]]))
        Fs = E.struct_fields(prog, 'Searcher')
        errc = searcher.f[Fs.index('error_count')]
        conds.append(errc == 0)
        for label, cs in (('set', conds), ('order', order)):
            if not cs:
                continue
            r = ctx.check(Not(And(cs)))
            if r == z3.unsat:
                continue
            if r != z3.sat:
                sess.inconclusive(name, 'solver unknown', fam); continue
            role = 'walker/%s/%s' % (label, 'dfs' if dfs else 'bfs')
            if viol.get(role):
                continue
            viol[role] = True
            m = ctx.model(Not(And(cs)))
            mi = m.eval(mind, model_completion=True).as_long(); ma = m.eval(maxd, model_completion=True).as_long()
            tree, path, par, kind, usable = tree_from_model(fs, m)
            if fsroot and z3.is_true(m.eval(fs.fsroot, model_completion=True)):
                sess.violated(name, role + '/filesystem-root', 'the root is `/`: mindepth=%d maxdepth=%d tree=%r: reported %r' % (mi, ma, {path[i]: KIND_NAME[kind[i]] for i in par}, [path.get(n, n) for n in trace]),
                              {'mindepth': mi, 'maxdepth': ma}, cli_replay_fsroot(mi, ma, dfs), fam)
                continue
            sess.violated(name, role, 'mindepth=%d maxdepth=%d tree=%r: reported %r' % (mi, ma, {path[i]: KIND_NAME[kind[i]] for i in par}, [path.get(n, n) for n in trace]),
                          {'mindepth': mi, 'maxdepth': ma, 'parents': par, 'kinds': kind, 'trace': trace},
                          cli_replay(fs, m, mi, ma, dfs, nroots), fam)

    n, complete = ex.explore(run, on_path, time_budget=(400 if sess.tier == 'quick' else 1500))
    if not complete:
        sess.inconclusive('%s M=%d' % (fam, M), 'path exploration exceeded its time budget after %d paths' % n, fam)
    elif not viol and not stats.get('bad'):
        sess.discharged('%s: %d nodes, %d root(s), all tree shapes / kinds / depth windows / root depths: rows = specification, order ok, no error'
                        % (fam, M, nroots), family=fam, queries=stats['paths'])
    sess.sample({'family': fam, 'nodes': M, 'roots': nroots, 'paths': stats['paths']})


def fam_root_options(sess):
    """the per-root loop of the real Searcher::list_search_results with Searcher::visit_dir summarised (its arguments and the searcher's
    state are captured): with 2 and 3 roots whose options (mindepth, maxdepth, archives, symlinks, traversal) are all symbolic, every root
    is walked once, in order, with exactly ITS OWN options — nothing carries over from an earlier root"""
    from mirsym.core import UNIT, ok
    prog = sess.prog
    fam = 'root_options'
    Fs = E.struct_fields(prog, 'Searcher')

    def visit_dir_summary(ctx, args, callee):
        s = ctx.deref(args[0])
        p = W.as_path(ctx, args[1])
        ctx.ghost.setdefault('visits', []).append({'root': p.text, 'min': args[2], 'max': args[3], 'root_depth': args[4], 'archives': args[5],
                                                   'traversal': args[-2], 'process_queue': args[-1], 'follow': s.f[Fs.index('current_follow_symlinks')]})
        return ok(UNIT)
    ov = [(r'Searcher::visit_dir$', visit_dir_summary, 'summary:visit_dir(capture arguments and searcher state)')] + W.models()
    sess.bounds[fam] = {'roots': '2 and 3', 'options per root': 'mindepth, maxdepth (32-bit), archives, symlinks, bfs/dfs: all symbolic'}
    for nroots in (2, 3):
        ex = sess.executor(ov, unwind=8)
        box = {'paths': 0}

        def run(ctx, nroots=nroots):
            fs = W.FS(ctx, nroots, roots=nroots)
            ctx.ghost['fs'] = fs
            opts = []
            roots = []
            for r in range(nroots):
                o = {'min': ctx.fresh_bv('min%d' % r, 32), 'max': ctx.fresh_bv('max%d' % r, 32), 'archives': ctx.fresh_bool('arc%d' % r),
                     'symlinks': ctx.fresh_bool('sym%d' % r), 'dfs': ctx.fresh_bool('dfs%d' % r)}
                opts.append(o)
                roots.append(W.mk_root(prog, 'R%d' % r, o['min'], o['max'], o['dfs'], archives=o['archives'], symlinks=o['symlinks']))
            q = W.mk_query(prog, roots, BitVecVal(0, 32), ordered=False)
            res, searcher = W.run_search(ctx, prog, q)
            return opts

        def on_path(ctx, out, nroots=nroots):
            box['paths'] += 1
            nm = '%s, %d roots' % (fam, nroots)
            if out[0] != 'ret':
                if not box.get('bad'):
                    box['bad'] = True; sess.inconclusive(nm, str(out)[:300], fam)
                return
            opts = out[1]
            visits = ctx.ghost.get('visits', [])
            conds = [BoolVal(len(visits) == nroots)]
            dfs_idx = prog.src.variant_index('TraversalMode', 'Dfs')
            for r, v in enumerate(visits[:nroots]):
                o = opts[r]
                tr = v['traversal']
                td = tr.d if not isinstance(tr.d, int) else BitVecVal(tr.d, 64)
                conds += [BoolVal(v['root'] == 'R%d' % r), v['min'] == o['min'], v['max'] == o['max'], v['archives'] == o['archives'], v['follow'] == o['symlinks'],
                          (td == dfs_idx) == o['dfs'], v['root_depth'] == 0]
            if ctx.check(Not(And(conds))) == z3.unsat or box.get('viol'):
                return
            box['viol'] = True
            m = ctx.model(Not(And(conds)))
            which = 'count'
            for r, v in enumerate(visits[:nroots]):
                o = opts[r]
                for k, a, b in (('mindepth', v['min'], o['min']), ('maxdepth', v['max'], o['max']), ('archives', v['archives'], o['archives']), ('symlinks', v['follow'], o['symlinks'])):
                    if not z3.is_true(m.eval(a == b, model_completion=True)):
                        which = '%s of root %d' % (k, r + 1)
            sess.violated(nm, 'root_options/' + which.split(' ')[0], 'the walk of a root does not use that root\'s own %s (options of the roots: %s)' % (
                which, [{k: str(m.eval(x, model_completion=True)) for k, x in o.items()} for o in opts]), {}, cli_replay_root_options(), fam)
        ex.explore(run, on_path)
        if not box.get('viol') and not box.get('bad'):
            sess.discharged('%s, %d roots: each root is walked once with its own options' % (fam, nroots), family=fam, queries=box['paths'])


def cli_replay_root_options():
    """two roots with different options on a fixed tree (a link to a directory, a zip, two levels): every pairing of option sets"""
    def rep():
        import os, tempfile, shutil, subprocess, zipfile, itertools
        exe = common.native_binary()
        d = tempfile.mkdtemp(prefix='verif-c01o-', dir=common.SCRATCH_ROOT)
        try:
            def mk(root):
                # the link leads OUT of the root, to a directory that is listed only if the link is followed
                out_ = root + '-outside'
                os.makedirs(os.path.join(root, 'd1', 'd2')); os.makedirs(os.path.join(out_, 'deep'))
                open(os.path.join(root, 'f'), 'w').close(); open(os.path.join(root, 'd1', 'g'), 'w').close(); open(os.path.join(root, 'd1', 'd2', 'h'), 'w').close()
                open(os.path.join(out_, 'x'), 'w').close(); open(os.path.join(out_, 'deep', 'y'), 'w').close()
                os.symlink(out_, os.path.join(root, 'd1', 'lnk'))
                z = zipfile.ZipFile(os.path.join(root, 'a.zip'), 'w'); z.writestr('m', 'x'); z.close()
            ra, rb = os.path.join(d, 'A'), os.path.join(d, 'B')
            mk(ra); mk(rb)
            env = {'PATH': os.environ['PATH'], 'HOME': d, 'TZ': 'UTC'}

            def run(q):
                r = subprocess.run([exe, q], env=env, stdout=subprocess.PIPE, stderr=subprocess.PIPE, timeout=20)
                return sorted(r.stdout.decode().split('\n')[:-1])
            optsets = ['', 'symlinks', 'archives', 'maxdepth 1', 'mindepth 2', 'symlinks archives maxdepth 2']
            for oa, ob in itertools.product(optsets, optsets):
                if oa == ob:
                    continue
                both = run('path from %s %s, %s %s' % (ra, oa, rb, ob))
                sep = sorted(run('path from %s %s' % (ra, oa)) + run('path from %s %s' % (rb, ob)))
                if both != sep:
                    return True, '`from A %s, B %s` returns %d rows, the two roots searched separately %d (first difference: %r)' % (
                        oa, ob, len(both), len(sep), sorted(set(both) ^ set(sep))[:3])
            return False, 'every pairing of option sets: `from A <o1>, B <o2>` = the two searches taken separately'
        finally:
            shutil.rmtree(d, ignore_errors=True)
    return rep


def main(sess):
    sess.engines = ['mirsym (MIR symbolic execution) + z3 %s' % z3.get_version_string()]
    sess.assumptions += [
        'abstract file system (drivers/walker.py): read_dir lists the children of a node in index order; DirEntry::{path,file_type,ino}, '
        'canonicalize, read_link by contract; canonical depth = root depth (symbolic 1..4) + nesting — except below the file-system root `/`, whose entries `/x` have no separator more than `/` (families walk/fsroot)',
        'summary: Searcher::check_file appends the entry to the ghost trace (its body is C02/C05/C06/C09); ResultsWriter::* emit tokens',
        'special files (FIFO, socket, device) behave like regular files for the walker (file_type is neither dir nor symlink)',
        'symlinks are not followed here (C18); ignore files off (C20); archives off (C19)',
    ]
    quick = sess.tier == 'quick'
    M = 4 if quick else 5
    sess.bounds['walker'] = {'nodes': M, 'roots': '1 (and 2 with %d nodes)' % M, 'depth window': '0..%d each' % (M + 1), 'root depth': '1..4'}
    only = getattr(sess, 'only', None)
    for dfs in (False, True):
        fam = 'walk/' + ('dfs' if dfs else 'bfs')
        if not only or fam in only:
            run_family(sess, M, 1, dfs, fam)
    for dfs in (False, True):
        fam = 'walk2/' + ('dfs' if dfs else 'bfs')
        if not only or fam in only:
            run_family(sess, M if not quick else 4, 2, dfs, fam)
    for dfs in (False, True):
        fam = 'walk/fsroot/' + ('dfs' if dfs else 'bfs')          # the root may be `/` itself: `/x` has no separator more than `/`
        if not only or fam in only:
            run_family(sess, 4, 1, dfs, fam, fsroot=True)
    if not only or 'root_options' in only:
        fam_root_options(sess)
