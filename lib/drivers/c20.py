"""C20 — ignore-file options remove exactly the ignored entries (hgignore / dockerignore parts; gitignore is libgit2).

  precedence   the head of the real Searcher::list_search_results with symbolic Option<bool> root options and configuration
               defaults: each ignore mechanism is applied iff  option.unwrap_or(config.unwrap_or(false))
  fold         the real matches_dockerignore_filter / matches_hgignore_filter over k filters whose verdicts and negation
               flags are symbolic: docker = the last matching pattern decides, hg = any pattern matches
  translate    (Engine C) the regex produced by the real convert_dockerignore_glob / convert_hgignore_glob for every pattern
               of a bounded grammar = the reference language  root/(dir/)* G(pattern) .*  over ALL paths, where G maps
               ** -> any run, * -> run without '/', ? -> one character other than '/', anything else literally
"""
import itertools
import z3
from z3 import BitVecVal, BoolVal, Not, And, Or, If
from mirsym.core import Agg, EnumV, Cell, Ref, UNIT, some, none, ok, conc, mk_bool_enum, Unmodelled
from mirsym.models_std import Str, Seq
from mirsym.models_ext import RegexV
from drivers import evalcore as E, walker as W
import relang as R
import common, os, subprocess, tempfile, shutil

SIGMA = "abrAB1 .+()[]{}|^$-,#~*?/"
PLAIN = ['a', 'b']
META = ['.', '+', '(', ')', '[', ']', '{', '}', '|', '^', '$', '-', '#', '~']


def opt_bool(ctx, name):
    c = ctx.fresh_bool(name + '_some'); v = ctx.fresh_bool(name + '_val')
    return mk_bool_enum(c, v), c, v


def fam_precedence(sess):
    prog = sess.prog
    fam = 'precedence'
    captured = {}

    def visit_dir_summary(ctx, args, callee):
        ctx.ghost['visit_args'] = (args[6], args[8], args[9])
        return ok(UNIT)

    def upstream(ctx, args, callee):
        ctx.ghost.setdefault('upstream', []).append('hg' if 'hgignore' in callee else 'docker')
        return UNIT
    ov = W.models() + [(r'Searcher::visit_dir$', visit_dir_summary, 'summary:visit_dir(capture flags)'),
                       (r'search_upstream_hgignore$|search_upstream_dockerignore$', upstream, 'summary:search_upstream_*(record)')]
    ov = [(r'Searcher::visit_dir$', visit_dir_summary, 'summary:visit_dir(capture flags)'),
          (r'search_upstream_hgignore$|search_upstream_dockerignore$', upstream, 'summary:search_upstream_*(record)')] + W.models()
    ex = sess.executor(ov, unwind=6)
    box = {}

    def run(ctx):
        fs = W.FS(ctx, 1, roots=1)
        ctx.ghost['fs'] = fs
        og, ogc, ogv = opt_bool(ctx, 'opt_git'); oh, ohc, ohv = opt_bool(ctx, 'opt_hg'); od, odc, odv = opt_bool(ctx, 'opt_docker')
        cg, cgc, cgv = opt_bool(ctx, 'cfg_git'); ch, chc, chv = opt_bool(ctx, 'cfg_hg'); cd, cdc, cdv = opt_bool(ctx, 'cfg_docker')
        root = W.mk_root(prog, 'R0', BitVecVal(0, 32), BitVecVal(0, 32), False)
        Fo = E.struct_fields(prog, 'RootOptions'); Fr = E.struct_fields(prog, 'Root')
        opts = root.f[Fr.index('options')]
        opts.f[Fo.index('gitignore')] = og; opts.f[Fo.index('hgignore')] = oh; opts.f[Fo.index('dockerignore')] = od
        q = W.mk_query(prog, [root], BitVecVal(0, 32), ordered=False)
        cfg = W.mk_config(prog)
        Fc = E.struct_fields(prog, 'Config')
        cfg.f[Fc.index('gitignore')] = cg; cfg.f[Fc.index('hgignore')] = ch; cfg.f[Fc.index('dockerignore')] = cd
        new = prog.find('Searcher', 'new'); lsr = prog.find('Searcher', 'list_search_results')
        from mirsym.models_std import deep_clone
        s = ctx.call_fn(new, [Ref(Cell(q)), Ref(Cell(cfg)), Ref(Cell(W.mk_config(prog))), BoolVal(False)])
        ctx.call_fn(lsr, [Ref(Cell(s))])
        want = {'git': If(ogc, ogv, If(cgc, cgv, False)), 'hg': If(ohc, ohv, If(chc, chv, False)), 'docker': If(odc, odv, If(cdc, cdv, False))}
        return want

    def on_path(ctx, out):
        name = fam
        if out[0] != 'ret':
            box['bad'] = True; sess.inconclusive(name, str(out), fam); return
        want = out[1]
        box['paths'] = box.get('paths', 0) + 1
        va = ctx.ghost.get('visit_args')
        if va is None:
            box['bad'] = True; sess.inconclusive(name, 'visit_dir was not reached', fam); return
        ups = ctx.ghost.get('upstream', [])
        conds = [va[0] == want['git'], va[1] == want['hg'], va[2] == want['docker'],
                 BoolVal('hg' in ups) == want['hg'], BoolVal('docker' in ups) == want['docker']]
        for i, cnd in enumerate(conds):
            r = ctx.check(Not(cnd))
            if r == z3.unsat:
                continue
            which = ['git', 'hg', 'docker', 'hg', 'docker'][i]
            role = 'precedence/' + which
            if box.get(role):
                continue
            box[role] = True; box['viol'] = True
            m = ctx.model(Not(cnd))
            sess.violated(name + ' ' + which, role, 'option / configuration precedence is wrong for %signore' % which, {'mechanism': which},
                          cli_replay_precedence(which), fam)
    ex.explore(run, on_path)
    if not box.get('viol') and not box.get('bad'):
        sess.discharged('precedence: every combination of root option and configuration default for the three mechanisms', family=fam, queries=box.get('paths', 1))


def cli_replay_precedence(which):
    """hg / docker: a tree with an ignore file; the config default enables the mechanism, no root option: the ignored entry must vanish;
    `no<which>ignore` must bring it back"""
    def rep():
        exe = common.native_binary()
        d = tempfile.mkdtemp(prefix='verif-c20-', dir=common.SCRATCH_ROOT)
        try:
            os.makedirs(os.path.join(d, 'r'))
            open(os.path.join(d, 'r', 'keep.txt'), 'w').write('x'); open(os.path.join(d, 'r', 'drop.log'), 'w').write('x')
            if which == 'git':
                if subprocess.run(['git', 'init', '-q', os.path.join(d, 'r')], stdout=subprocess.PIPE, stderr=subprocess.PIPE).returncode != 0:
                    return False, 'git is not available: gitignore precedence not replayed'
                open(os.path.join(d, 'r', '.gitignore'), 'w').write('*.log\n')
            elif which == 'hg':
                os.makedirs(os.path.join(d, 'r', '.hg'))
                open(os.path.join(d, 'r', '.hgignore'), 'w').write('syntax: glob\n*.log\n')
            else:
                open(os.path.join(d, 'r', '.dockerignore'), 'w').write('*.log\n')
            cfgdir = os.path.join(d, 'home', '.config', 'fselect'); os.makedirs(cfgdir)
            results = {}
            for cfgline, label in (('%signore = true\n' % which, 'config-on'), ('', 'config-off')):
                open(os.path.join(cfgdir, 'config.toml'), 'w').write(cfgline + 'check_for_updates = false\n')
                for opt in ('', '%signore' % which, 'no%signore' % which):
                    env = {'PATH': os.environ['PATH'], 'HOME': os.path.join(d, 'home'), 'XDG_CONFIG_HOME': os.path.join(d, 'home', '.config'), 'TZ': 'UTC'}
                    p = subprocess.run([exe, 'name', 'from', os.path.join(d, 'r')] + ([opt] if opt else []), cwd=os.path.join(d, 'r'), env=env, stdout=subprocess.PIPE, stderr=subprocess.PIPE, timeout=20)
                    names = set(p.stdout.decode().split('\n')[:-1])
                    results[(label, opt)] = 'drop.log' not in names
            exp = {('config-on', ''): True, ('config-on', '%signore' % which): True, ('config-on', 'no%signore' % which): False,
                   ('config-off', ''): False, ('config-off', '%signore' % which): True, ('config-off', 'no%signore' % which): False}
            bad = {k: v for k, v in results.items() if exp[k] != v}
            return bool(bad), 'ignored-entry-omitted per (config, option): %r ; expected %r' % (results, exp)
        finally:
            shutil.rmtree(d, ignore_errors=True)
    return rep


def fam_fold(sess):
    prog = sess.prog
    fam = 'fold'
    K = 3 if sess.tier == 'quick' else 4
    sess.bounds[fam] = {'filters': '0..%d' % K, 'per filter': 'match verdict and negate flag symbolic'}
    ex = sess.executor(unwind=K + 3)
    for tool in ('docker', 'hg'):
        fn = prog.find_free('matches_%signore_filter' % tool)
        box = {}
        for k in range(0, K + 1):
            def run(ctx, k=k, tool=tool):
                filters = []; negs = []
                for i in range(k):
                    rx = RegexV(Str('P%d' % i))
                    if tool == 'docker':
                        ng = ctx.fresh_bool('neg%d' % i); negs.append(ng)
                        filters.append(E.mk_struct(prog, 'DockerignoreFilter', {}, regex=rx, negate=ng))
                    else:
                        negs.append(BoolVal(False))
                        filters.append(E.mk_struct(prog, 'HgignoreFilter', {}, regex=rx))
                r = ctx.call_fn(fn, [Ref(Cell(Seq(filters))), Str('/r/a')])
                return negs, r

            def on_path(ctx, out, k=k, tool=tool):
                name = 'fold %s, %d filters' % (tool, k)
                if out[0] != 'ret':
                    box['bad'] = True; sess.inconclusive(name, str(out), fam); return
                negs, r = out[1]
                box['paths'] = box.get('paths', 0) + 1
                tbl = ctx.ghost.get('is_match', {})
                ms = []
                for i in range(k):
                    key = [kk for kk in tbl if kk[0] == 'P%d' % i]
                    ms.append(tbl[key[0]] if key else ctx.fresh_bool('unconsulted%d' % i))
                if tool == 'hg':
                    want = Or(ms) if ms else BoolVal(False)
                else:
                    want = BoolVal(False)
                    for i in range(k):
                        want = If(ms[i], Not(negs[i]), want)
                res = ctx.check(r != want)
                if res == z3.unsat:
                    return
                if box.get('viol'):
                    return
                box['viol'] = True
                m = ctx.model(r != want)
                desc = [('match' if z3.is_true(m.eval(ms[i], model_completion=True)) else 'no match', 'negated' if z3.is_true(m.eval(negs[i], model_completion=True)) else 'plain') for i in range(k)]
                sess.violated(name, 'fold/' + tool, 'filters %r: returns %s, the tool says %s' % (desc, m.eval(r, model_completion=True), m.eval(want, model_completion=True)),
                              {'filters': desc}, cli_replay_fold(desc) if tool == 'docker' else None, fam)
            ex.explore(run, on_path)
        if not box.get('viol') and not box.get('bad'):
            sess.discharged('fold %s: 0..%d filters, every combination of verdicts%s' % (tool, K, ' and negations' if tool == 'docker' else ''), family=fam, queries=box.get('paths', 1))


def cli_replay_fold(desc):
    """realise the (match, negate) vector as a .dockerignore whose lines match the file `t.log` or not"""
    def rep():
        exe = common.native_binary()
        d = tempfile.mkdtemp(prefix='verif-c20f-', dir=common.SCRATCH_ROOT)
        try:
            os.makedirs(os.path.join(d, 'r'))
            open(os.path.join(d, 'r', 't.log'), 'w').write('x'); open(os.path.join(d, 'r', 'other.txt'), 'w').write('x')
            lines = []
            for i, (mt, ng) in enumerate(desc):
                pat = ['*.log', 't.*', 't.l?g', '*.lo*'][i % 4] if mt == 'match' else 'nomatch%d' % i
                lines.append(('!' if ng == 'negated' else '') + pat)
            open(os.path.join(d, 'r', '.dockerignore'), 'w').write('\n'.join(lines) + '\n')
            env = {'PATH': os.environ['PATH'], 'HOME': d, 'TZ': 'UTC'}
            p = subprocess.run([exe, 'name', 'from', '.', 'dockerignore'], cwd=os.path.join(d, 'r'), env=env, stdout=subprocess.PIPE, stderr=subprocess.PIPE, timeout=20)
            names = set(p.stdout.decode().split('\n')[:-1])
            ignored_want = False
            for mt, ng in desc:
                if mt == 'match':
                    ignored_want = (ng != 'negated')
            got_ignored = 't.log' not in names
            return got_ignored != ignored_want, '.dockerignore %r: t.log %s, docker says %s' % (lines, 'omitted' if got_ignored else 'listed', 'ignored' if ignored_want else 'not ignored')
        finally:
            shutil.rmtree(d, ignore_errors=True)
    return rep


def well_formed(pattern, tool):
    """the patterns whose meaning the tools' documentation settles: components separated by single slashes, an optional trailing slash
    (a directory), `**` only as a whole component and not the last one; docker patterns may start with one slash (the context root)"""
    p = pattern
    if tool == 'docker' and p.startswith('/'):
        p = p[1:]
    if p.endswith('/'):
        p = p[:-1]
    comps = p.split('/')
    if not p or any(c == '' for c in comps) or '\\' in p or any(ch in p for ch in '[]{}'):
        return False                # character classes / alternations: fselect takes the brackets literally; the tools do not — outside
    for k, c in enumerate(comps):
        if '**' in c and (c != '**' or k == len(comps) - 1):
            return False
        if c in ('.', '..'):
            return False
    return True


def ref_ignore_lang(pattern, root, sigma, tool):
    """the paths (canonical, below `root`) a glob pattern ignores, by the tools' documented rules:
      * `*` a run of characters within one component, `?` one such character, `**/` zero or more whole directories;
      * a pattern ignores the entry it matches AND everything below it; a trailing slash only says "a directory";
      * hg (`syntax: glob`): the pattern may start at any directory of the repository;  docker: it starts at the context root"""
    nosl = R.anychar(sigma, exclude='/')
    anyc = R.anychar(sigma)
    p = pattern
    if tool == 'docker' and p.startswith('/'):
        p = p[1:]
    if p.endswith('/'):
        p = p[:-1]
    parts = [z3.Re(root + '/')]
    if tool == 'hg':
        parts.append(z3.Star(z3.Concat(z3.Plus(nosl), z3.Re('/'))))
    comps = p.split('/')
    for k, c in enumerate(comps):
        if c == '**':
            parts.append(z3.Star(z3.Concat(z3.Plus(nosl), z3.Re('/'))))       # zero or more directories (its slash included)
            continue
        i = 0
        while i < len(c):
            if c[i] == '*':
                parts.append(z3.Star(nosl))
            elif c[i] == '?':
                parts.append(nosl)
            else:
                parts.append(z3.Re(c[i]))
            i += 1
        if k < len(comps) - 1:
            parts.append(z3.Re('/'))
    parts.append(z3.Option(z3.Concat(z3.Re('/'), z3.Star(anyc))))
    return z3.Concat(*parts)


def ignore_patterns(maxlen):
    syms = PLAIN + ['.', '*', '?', '/'] + META[1:6]
    out = ['a', '*.a', 'a/', 'a/*.b', '**/a', 'a?', 'a?b', '?', '*', 'a.b', '**/*.a', 'a/**/b', 'a/b/', '/a', '/*.a']
    for n in range(1, maxlen + 1):
        for t in itertools.product(syms, repeat=n):
            p = ''.join(t)
            if p not in out:
                out.append(p)
    return out


def fam_translate(sess, tool):
    fam = 'translate/' + tool
    maxlen = 2 if sess.tier == 'quick' else 3
    pats = ignore_patterns(maxlen)
    root = '/r'
    sess.bounds[fam] = {'patterns': len(pats), 'pattern length': '<= %d plus the shapes of the property statement' % maxlen, 'root': root, 'paths': 'every string over %r' % SIGMA}
    kind = 'dockerglob' if tool == 'docker' else 'hgglob'
    res = R.run_driver([(kind, p, root) for p in pats])
    roles = {}
    stats = {'equal': 0, 'differ': 0, 'unparsed': 0, 'rejected': 0}
    order = sorted(range(len(pats)), key=lambda i: (len({c for c in pats[i] if c in META}), len(pats[i])))
    blamed = set()
    for p, (rx, okc) in [(pats[i], res[i]) for i in order]:
        if not well_formed(p, tool):
            stats['outside'] = stats.get('outside', 0) + 1
            continue
        specials = ''.join(sorted({c for c in p if c in META or c == '?'}))
        if any(c in blamed for c in specials):
            continue
        if not okc or rx is None:
            stats['rejected'] += 1
            role = '%s/rejected:%s' % (tool, specials)
            blamed.update(specials)
            if role not in roles:
                roles[role] = True
                sess.violated('%s %r' % (fam, p), role, 'the pattern is rejected (its regex does not compile): the whole ignore file is dropped with an error',
                              {'pattern': p}, cli_replay_translate(tool, p, None, None), fam)
            continue
        try:
            impl = R.regex_to_z3(rx, SIGMA, search=True)
        except R.Unparsed as e:
            stats['unparsed'] += 1
            sess.inconclusive('%s %r' % (fam, p), 'generated regex %r outside the translated subset: %s' % (rx, e), fam); continue
        ref = ref_ignore_lang(p, root, SIGMA, tool)             # whole canonical paths: anchored at both ends
        def valid_path(s_):
            bad = ['//', '/./', '/../']
            return And([z3.PrefixOf(z3.StringVal(root + '/'), s_), Not(z3.SuffixOf(z3.StringVal('/'), s_)), Not(z3.SuffixOf(z3.StringVal('/.'), s_)),
                        Not(z3.SuffixOf(z3.StringVal('/..'), s_))] + [Not(z3.Contains(s_, z3.StringVal(b))) for b in bad])
        verdict, w, in_impl = R.languages_differ(impl, ref, SIGMA, extra=valid_path)
        if verdict == 'equal':
            stats['equal'] += 1; continue
        if verdict == 'unknown':
            sess.inconclusive('%s %r' % (fam, p), 'solver: unknown', fam); continue
        stats['differ'] += 1
        blamed.update(specials)
        role = '%s/%s' % (tool, ('char:' + specials) if specials else 'structure')
        if role in roles:
            continue
        roles[role] = True
        sess.violated('%s %r' % (fam, p), role, 'regex %r: path %r is %s by the filter but the reference says the opposite' % (rx, w, 'matched' if in_impl else 'not matched'),
                      {'pattern': p, 'regex': rx, 'path': w}, cli_replay_translate(tool, p, w, in_impl), fam)
    sess.sample({'family': fam, 'stats': stats, 'examples': [(p, r[0]) for p, r in list(zip(pats, res))[:5]]})
    if not roles and not stats['unparsed']:
        sess.discharged('%s: %d patterns: L(filter regex) = L(reference) over all paths below the root' % (fam, len(pats)), family=fam, queries=len(pats))


HG_REGEXPS = ['a', '^a', '^a/b', 'b$', '^a$', 'a/b', '^a.b', 'a.*b', '^ab/', 'a|b', 'ab|r', '^(a|b)1']


def fam_translate_hgrx(sess):
    """`syntax: regexp` lines of an .hgignore: an unrooted search in the path below the repository top, `^` = the top. The compiled filter
    (real convert_hgignore_regexp) must accept exactly the canonical paths root/<s> whose <s> the pattern finds"""
    fam = 'translate/hg-regexp'
    root = '/r'
    sess.bounds[fam] = {'patterns': HG_REGEXPS, 'root': root, 'paths': 'every string over %r' % SIGMA}
    res = R.run_driver([('hgrx', p, root) for p in HG_REGEXPS])
    roles = {}
    for p, (rx, okc) in zip(HG_REGEXPS, res):
        nm = '%s %r' % (fam, p)
        if not okc or rx is None:
            sess.violated(nm, 'hg-regexp/rejected', 'the pattern is rejected', {'pattern': p}, None, fam); roles['r'] = True; continue
        try:
            impl = R.regex_to_z3(rx, SIGMA, search=True)
            rel = R.regex_to_z3(p, SIGMA, search=True)
        except R.Unparsed as e:
            sess.inconclusive(nm, 'regex %r outside the translated subset: %s' % (rx, e), fam); roles['i'] = True; continue
        ref = z3.Concat(z3.Re(root + '/'), rel)

        def valid_path(s_):
            return And([z3.PrefixOf(z3.StringVal(root + '/'), s_), Not(z3.SuffixOf(z3.StringVal('/'), s_)), Not(z3.Contains(s_, z3.StringVal('//')))])
        verdict, w, in_impl = R.languages_differ(impl, ref, SIGMA, extra=valid_path)
        if verdict == 'equal':
            continue
        if verdict == 'unknown':
            sess.inconclusive(nm, 'solver: unknown', fam); roles['i'] = True; continue
        role = 'hg-regexp/' + ('anchored' if p.startswith('^') else 'unrooted')
        if role in roles:
            continue
        roles[role] = True
        sess.violated(nm, role, 'compiled filter %r: path %r is %s by the filter but hg\'s rule says the opposite' % (rx, w, 'matched' if in_impl else 'not matched'),
                      {'pattern': p, 'regex': rx, 'path': w}, cli_replay_hgrx(p, w, in_impl), fam)
    if not roles:
        sess.discharged('%s: %d patterns: L(filter) = root/ + L(search of the pattern)' % (fam, len(HG_REGEXPS)), family=fam, queries=len(HG_REGEXPS))


def cli_replay_hgrx(pattern, path, in_impl):
    def rep():
        exe = common.native_binary()
        d = tempfile.mkdtemp(prefix='verif-c20r-', dir=common.SCRATCH_ROOT)
        try:
            rootd = os.path.join(d, 'r'); os.makedirs(os.path.join(rootd, '.hg'))
            open(os.path.join(rootd, '.hgignore'), 'w').write('syntax: regexp\n%s\n' % pattern)
            rel = path[len('/r/'):]
            if not rel or rel.endswith('/') or '//' in rel or any(c in ('', '.', '..') for c in rel.split('/')):
                return False, 'witness path %r cannot be created' % path
            full = os.path.join(rootd, rel)
            os.makedirs(os.path.dirname(full), exist_ok=True)
            open(full, 'w').write('x')
            p = subprocess.run([exe, 'path', 'from', rootd, 'hgignore'], cwd=d, env={'PATH': os.environ['PATH'], 'HOME': d, 'TZ': 'UTC'}, stdout=subprocess.PIPE, stderr=subprocess.PIPE, timeout=20)
            listed = full in p.stdout.decode().split('\n')
            return (listed != in_impl), 'hg regexp %r, path %r: %s by the real run ; hg\'s rule says it is %s' % (
                pattern, rel, 'listed' if listed else 'omitted', 'not ignored' if in_impl else 'ignored')
        finally:
            shutil.rmtree(d, ignore_errors=True)
    return rep


def cli_replay_translate(tool, pattern, path, in_impl):
    def rep():
        exe = common.native_binary()
        d = tempfile.mkdtemp(prefix='verif-c20t-', dir=common.SCRATCH_ROOT)
        try:
            rootd = os.path.join(d, 'r'); os.makedirs(rootd)
            if tool == 'hg':
                os.makedirs(os.path.join(rootd, '.hg'))
                open(os.path.join(rootd, '.hgignore'), 'w').write('syntax: glob\n%s\n' % pattern)
            else:
                open(os.path.join(rootd, '.dockerignore'), 'w').write(pattern + '\n')
            open(os.path.join(rootd, 'zz-control'), 'w').write('x')
            rel = None
            if path is not None:
                rel = path[len('/r/'):]
                if not rel or rel.endswith('/') or '//' in rel or any(c in ('', '.', '..') for c in rel.split('/')) or '\0' in rel:
                    return False, 'witness path %r cannot be created' % path
                full = os.path.join(rootd, rel)
                os.makedirs(os.path.dirname(full), exist_ok=True)
                open(full, 'w').write('x')
            env = {'PATH': os.environ['PATH'], 'HOME': d, 'TZ': 'UTC'}
            p = subprocess.run([exe, 'path', 'from', rootd, tool + 'ignore'], cwd=d, env=env, stdout=subprocess.PIPE, stderr=subprocess.PIPE, timeout=20)
            rows = p.stdout.decode().split('\n')[:-1]
            err = p.stderr.decode()
            if path is None:
                bad = 'Error' in err or 'rror' in err
                return bad, '%s pattern %r: stderr %r (status %s)' % (tool, pattern, err[:200], p.returncode)
            listed = os.path.join(rootd, rel) in rows
            # the reference says "ignored" iff not in_impl (the two languages differ on this path); reproduced iff the real run
            # contradicts the reference
            if listed == in_impl and '/' in rel:
                # below a directory that is itself ignored nothing is visited from the top: search from the entry's own directory
                sub = os.path.dirname(os.path.join(rootd, rel))
                p2 = subprocess.run([exe, 'path', 'from', sub, tool + 'ignore'], cwd=d, env=env, stdout=subprocess.PIPE, stderr=subprocess.PIPE, timeout=20)
                listed2 = os.path.join(rootd, rel) in p2.stdout.decode().split('\n')[:-1]
                if listed2 != in_impl:
                    return True, '%s pattern %r, path %r searched from its own directory: %s by the real run ; the reference says it is %s' % (
                        tool, pattern, rel, 'listed' if listed2 else 'omitted', 'not ignored' if in_impl else 'ignored')
            return (listed != in_impl), '%s pattern %r, path %r: %s by the real run ; the reference says it is %s' % (
                tool, pattern, rel, 'listed' if listed else 'omitted', 'not ignored' if in_impl else 'ignored')
        finally:
            shutil.rmtree(d, ignore_errors=True)
    return rep


# ------------------------------------------------------------------------------------------------ upstream search
class P:
    """a path spelling (plain text) in a tiny fixed world: /x/real/repo/sub are directories, /x/link -> /x/real"""
    def __init__(self, text):
        self.text = text

    def clone_model(self, ctx):
        return P(self.text)


def realpath(t):
    t = os.path.normpath(t)
    if t == '/x/link' or t.startswith('/x/link/'):
        t = '/x/real' + t[len('/x/link'):]
    return t


def fam_upstream(sess):
    """search_upstream_dockerignore / search_upstream_hgignore (real MIR): starting from the search root however it is spelled (canonical,
    through a symbolic link, with `..`), the ignore file of the nearest ancestor of the root's REAL location is used, and the patterns are
    anchored at that real directory (entries are compared by canonical path)"""
    prog = sess.prog
    fam = 'upstream'
    spellings = ['/x/real/repo', '/x/link/repo', '/x/real/repo/sub/..', '/x/link/repo/sub/../sub']
    holders = ['/x/real/repo', '/x/real', '/x', None]
    sess.bounds[fam] = {'root spellings': spellings, 'directory holding the ignore file': holders, 'world': '/x/real/repo/sub directories, /x/link -> /x/real'}

    def models():
        out = []

        def reg(pat, name):
            def deco(f):
                out.append((pat, f, name)); return f
            return deco

        @reg(r'^(std::path::)?Path::to_path_buf$|^<PathBuf as Clone>::clone$|^<PathBuf as Deref>::deref$|^(std::path::)?PathBuf::as_path$|^<PathBuf as DerefMut>::deref_mut$', 'path identity')
        def ident(ctx, args, callee):
            v = ctx.deref(args[0])
            return args[0] if ('deref' in callee or 'as_path' in callee) else P(v.text)

        @reg(r'^(std::fs::)?canonicalize$', 'fs:canonicalize (world model)')
        def canon(ctx, args, callee):
            return ok(P(realpath(ctx.deref(args[0]).text)))

        @reg(r'^(std::path::)?Path::to_string_lossy$', 'path text')
        def lossy(ctx, args, callee):
            return EnumV(0, {0: [Str(ctx.deref(args[0]).text)]}, 'Cow')

        @reg(r'^(std::path::)?Path::is_absolute$', 'Path::is_absolute')
        def is_abs(ctx, args, callee):
            return BoolVal(ctx.deref(args[0]).text.startswith('/'))

        @reg(r'^<PathBuf as From<.*>>::from$|^(std::path::)?PathBuf::from$|^(std::path::)?Path::new$', 'PathBuf::from(text)')
        def pb_from(ctx, args, callee):
            v = ctx.deref(args[0])
            r = P(v.text if isinstance(v, P) else v.s)
            return Ref(Cell(r)) if callee.endswith('Path::new') else r

        @reg(r'^(std::path::)?Path::join$', 'Path::join')
        def join(ctx, args, callee):
            a = ctx.deref(args[0]).text; b = ctx.deref(args[1])
            b = b.text if isinstance(b, P) else b.s
            return P(b if b.startswith('/') else a.rstrip('/') + '/' + b)

        @reg(r'^(std::path::)?PathBuf::pop$', 'PathBuf::pop')
        def pop(ctx, args, callee):
            p_ = ctx.deref(args[0])
            if p_.text in ('/', ''):
                return BoolVal(False)
            p_.text = os.path.dirname(p_.text.rstrip('/')) or '/'
            return BoolVal(True)

        @reg(r'^(std::path::)?Path::is_file$|^(std::path::)?Path::is_dir$|^(std::path::)?Path::exists$', 'fs: is_file / is_dir in the world')
        def is_file(ctx, args, callee):
            t = realpath(ctx.deref(args[0]).text)
            holder = ctx.ghost['holder']
            stray = ctx.ghost.get('stray')
            if stray is not None and t == stray + '/.hgignore':
                return BoolVal(True)        # an .hgignore below the repository top, in a directory without .hg
            if holder is None:
                return BoolVal(False)
            return BoolVal(t in (holder + '/.dockerignore', holder + '/.hgignore', holder + '/.hg'))

        @reg(r'parse_dockerignore$|parse_hgignore$', 'summary: parse_*ignore(file, base) records the base directory')
        def parse(ctx, args, callee):
            ctx.ghost.setdefault('parsed', []).append((ctx.deref(args[0]).text, ctx.deref(args[1]).text))
            return ok(Seq([]))
        return out
    for which, fname in (('docker', 'search_upstream_dockerignore'), ('hg', 'search_upstream_hgignore')):
        ex = sess.executor(models(), unwind=12)
        f = prog.find_free(fname)
        box = {'paths': 0}

        def run(ctx, which=which):
            si = ctx.concretize(ctx.fresh_bv('spelling', 8), range(len(spellings)))
            hi = ctx.concretize(ctx.fresh_bv('holder', 8), range(len(holders)))
            ctx.ghost['holder'] = holders[hi]
            # hg: the file that counts is the one next to .hg (the repository top); a stray .hgignore in the root directory itself, which
            # is not a repository top, must not be taken instead
            if which == 'hg' and holders[hi] not in (None, '/x/real/repo') and ctx.decide(ctx.fresh_bool('stray_hgignore_in_the_root')):
                ctx.ghost['stray'] = '/x/real/repo'
            ctx.call_fn(f, [Ref(Cell(Seq([]))), Ref(Cell(P(spellings[si])))])
            return spellings[si], holders[hi]

        def on_path(ctx, out, which=which):
            box['paths'] += 1
            nm = '%s %s' % (fam, which)
            if out[0] != 'ret':
                if not box.get('bad'):
                    box['bad'] = True; sess.inconclusive(nm, str(out)[:300], fam)
                return
            sp, holder = out[1]
            parsed = ctx.ghost.get('parsed', [])
            want = [] if holder is None else [holder]
            got = [b for _, b in parsed]
            if got == want or box.get('viol'):
                return
            box['viol'] = True
            stray = ctx.ghost.get('stray')
            sess.violated(nm, 'upstream/%s/%s' % (which, 'stray-ignore-file' if stray else 'noncanonical-root' if realpath(sp) != sp else 'canonical-root'),
                          'root spelled %r, ignore file in %r%s: patterns anchored at %r (expected %r)' % (sp, holder, (', a stray .hgignore without .hg in %r' % stray) if stray else '', got, want),
                          {'root': sp, 'holder': holder}, cli_replay_upstream(which, bool(stray)), fam)
        ex.explore(run, on_path)
        if not box.get('viol') and not box.get('bad'):
            sess.discharged('%s %s: the nearest ancestor of the real root location, anchored at its canonical path' % (fam, which), family=fam, queries=box['paths'])


def cli_replay_upstream(which, stray=False):
    def rep():
        if stray:
            return cli_replay_stray()

        exe = common.native_binary()
        d = tempfile.mkdtemp(prefix='verif-c20u-', dir=common.SCRATCH_ROOT)
        try:
            real = os.path.join(d, 'real', 'repo'); os.makedirs(os.path.join(real, 'sub'))
            os.symlink(os.path.join(d, 'real'), os.path.join(d, 'link'))
            open(os.path.join(real, 'keep.txt'), 'w').write('x'); open(os.path.join(real, 'drop.log'), 'w').write('x')
            if which == 'hg':
                os.makedirs(os.path.join(real, '.hg')); open(os.path.join(real, '.hgignore'), 'w').write('syntax: glob\n*.log\n')
            else:
                open(os.path.join(real, '.dockerignore'), 'w').write('*.log\n')
            env = {'PATH': os.environ['PATH'], 'HOME': d, 'TZ': 'UTC'}
            out = {}
            for label, root in (('canonical', real), ('through-link', os.path.join(d, 'link', 'repo')), ('dotdot', os.path.join(real, 'sub', '..'))):
                p = subprocess.run([exe, 'name', 'from', root, '%signore' % which, 'depth', '1'], env=env, stdout=subprocess.PIPE, stderr=subprocess.PIPE, timeout=20)
                out[label] = sorted(x for x in p.stdout.decode().split('\n')[:-1] if not x.startswith('.'))
            bad = any('drop.log' in v for v in out.values()) or any('keep.txt' not in v for v in out.values())
            return bad, 'name from <root> %signore, root spelled three ways: %r (drop.log must be omitted in all)' % (which, out)
        finally:
            shutil.rmtree(d, ignore_errors=True)
    return rep


def cli_replay_stray():
    """repository top <d>/top (.hg + .hgignore ignoring *.log); root <d>/top/work holds a stray .hgignore (no .hg) ignoring *.txt"""
    exe = common.native_binary()
    d = tempfile.mkdtemp(prefix='verif-c20s-', dir=common.SCRATCH_ROOT)
    try:
        top = os.path.join(d, 'top'); work = os.path.join(top, 'work'); os.makedirs(work); os.makedirs(os.path.join(top, '.hg'))
        open(os.path.join(top, '.hgignore'), 'w').write('syntax: glob\n*.log\n')
        open(os.path.join(work, '.hgignore'), 'w').write('syntax: glob\n*.txt\n')
        open(os.path.join(work, 'keep.txt'), 'w').write('x'); open(os.path.join(work, 'drop.log'), 'w').write('x')
        p = subprocess.run([exe, 'name', 'from', work, 'hgignore'], env={'PATH': os.environ['PATH'], 'HOME': d, 'TZ': 'UTC'}, stdout=subprocess.PIPE, stderr=subprocess.PIPE, timeout=20)
        rows = sorted(x for x in p.stdout.decode().split('\n')[:-1] if not x.startswith('.'))
        return rows != ['keep.txt'], 'name from top/work hgignore (top/.hgignore ignores *.log; a stray work/.hgignore without .hg ignores *.txt) -> %r, hg ignores drop.log only' % rows
    finally:
        shutil.rmtree(d, ignore_errors=True)


def fam_gitarg(sess):
    """gitignore: the verdict itself is libgit2's (FFI, outside); what IS fselect's is which path it asks about. The real walker with the
    `gitignore` option over the abstract file system (files, directories, links): Repository::is_path_ignored is asked once per listed
    entry about the entry ITSELF (a link is judged by its own name, not by its target's) by an ABSOLUTE path (libgit2 reads a relative one
    from the top of the work tree, not from the current directory), and exactly the entries it does not ignore are reported"""
    prog = sess.prog
    fam = 'gitarg'
    M = 4
    sess.bounds[fam] = {'nodes': M, 'entry kinds': 'file / directory / link (target any node or dangling)', 'verdict of libgit2': 'symbolic per path'}

    def ov():
        out = []

        def reg(pat, name):
            def deco(f):
                out.append((pat, f, name)); return f
            return deco

        @reg(r'^(git2::)?Repository::discover$', 'git2:Repository::discover (a repository is found)')
        def discover(ctx, args, callee):
            return ok(Agg([], 'Repository'))

        @reg(r'^(git2::)?Repository::is_path_ignored$', 'git2:is_path_ignored (symbolic verdict per path; the argument is recorded)')
        def ignored(ctx, args, callee):
            p = ctx.deref(args[1])
            fs = W.fs_of(ctx)
            canonical = isinstance(p, W.CanonPathV)
            ctx.ghost.setdefault('asked', []).append((p.node, p.text, canonical))
            key = ('own' if not canonical else 'canon', p.node)
            tbl = ctx.ghost.setdefault('verdicts', {})
            if key not in tbl:
                tbl[key] = ctx.fresh_bool('git_ignores_%s_%s' % key)
            return ok(tbl[key])

        @reg(r'matches_hgignore_filter$|matches_dockerignore_filter$', 'summary: matches_*ignore_filter(filters, path): symbolic verdict per path; the path text is recorded')
        def matches_filter(ctx, args, callee):
            t = ctx.deref(args[1])
            tool = 'hg' if 'hgignore' in callee else 'docker'
            canonical = isinstance(t, W.CanonStr)
            node = t.node if canonical else ctx.ghost.get('abs_text_node', {}).get(getattr(t, 's', None))
            ctx.ghost.setdefault('asked_' + tool, []).append((node, getattr(t, 's', repr(t)), canonical))
            tbl = ctx.ghost.setdefault('verdicts', {})
            key = (tool, 'canon' if canonical else 'own', node)
            if key not in tbl:
                tbl[key] = ctx.fresh_bool('%s_ignores_%s' % (tool, node))
            return tbl[key]

        @reg(r'search_upstream_hgignore$|search_upstream_dockerignore$', 'summary: search_upstream_*ignore (family upstream)')
        def upstream_noop(ctx, args, callee):
            return UNIT

        @reg(r'^(std::fs::)?DirEntry::file_name$', 'fs:DirEntry::file_name (the entry\'s own name)')
        def entry_file_name(ctx, args, callee):
            e = ctx.deref(args[0])
            fs = W.fs_of(ctx)
            nm = W.Str(fs.text[e.node].rsplit('/', 1)[-1])
            ctx.ghost.setdefault('name_of', {})[nm.s] = e.node
            return nm

        @reg(r'^(std::path::)?Path::join$', 'Path::join: <canonical directory> + <entry name> denotes that entry, absolutely')
        def join(ctx, args, callee):
            a = W.as_path(ctx, args[0]); b = ctx.deref(args[1])
            fs = W.fs_of(ctx)
            if isinstance(a, W.CanonPathV) and isinstance(b, W.Str) and b.s in ctx.ghost.get('name_of', {}):
                n = ctx.ghost['name_of'][b.s]
                if fs.known_parent.get(n) == a.node:
                    txt = '/<canonical dir of n%s>/%s' % (a.node, b.s)
                    ctx.ghost.setdefault('abs_text_node', {})[txt] = n
                    return W.PathV(n, txt)
            b = W.as_path(ctx, args[1])
            return W.PathV(b.node, a.text + '/' + b.text, b.via_link)

        @reg(r'^(std::fs::)?canonicalize$', 'fs:canonicalize (resolves a link to its target)')
        def canonicalize(ctx, args, callee):
            fs = W.fs_of(ctx)
            p = W.as_path(ctx, args[0])
            n = p.node
            if n is None:
                return W.err(W.IoError('not found'))
            if n >= fs.nroots and ctx.decide(fs.islink(n)):
                t = ctx.concretize(fs.target[n], range(fs.M + 1))
                if t == fs.M:
                    return W.err(W.IoError('dangling link'))
                n = t
            return ok(W.CanonPathV(n, fs.rootdepth[0] + BitVecVal(fs.rel_depth.get(n, 1), 32)))
        return out + W.models()
    ex = sess.executor(ov(), unwind=M + 6, maxsteps=400000)
    box = {'paths': 0}

    def run(ctx):
        fs = W.FS(ctx, M, roots=1, kinds=(W.FILE, W.DIR, W.LINK))
        ctx.ghost['fs'] = fs
        ctx.ghost['match_all'] = BoolVal(True)
        root = W.mk_root(prog, 'R0', BitVecVal(0, 32), BitVecVal(0, 32), False)
        Fo = E.struct_fields(prog, 'RootOptions'); Fr = E.struct_fields(prog, 'Root')
        root.f[Fr.index('options')].f[Fo.index('gitignore')] = some(BoolVal(True))
        # the hg and docker filters are asked about the same path text (their verdicts symbolic too: three independent mechanisms)
        root.f[Fr.index('options')].f[Fo.index('hgignore')] = some(BoolVal(True))
        root.f[Fr.index('options')].f[Fo.index('dockerignore')] = some(BoolVal(True))
        q = W.mk_query(prog, [root], BitVecVal(0, 32), ordered=False)
        return fs, W.run_exec_search(ctx, prog, q)

    def on_path(ctx, out):
        box['paths'] += 1
        if out[0] != 'ret':
            if not box.get('bad'):
                box['bad'] = True; sess.inconclusive(fam, str(out)[:300], fam)
            return
        fs, status = out[1]
        asked = ctx.ghost.get('asked', [])
        trace = [n for n, mem in ctx.ghost.get('trace', [])]
        # libgit2's contract: the path is taken from the top of the work tree unless it is absolute — a path relative to the current
        # directory (the spelling the walker uses for a relative root) names another file whenever the search does not start at the top,
        # and `./x` is no path of the index at all. The question must be about the entry ITSELF (a link's own name), absolutely.
        bad = [a for a in asked if a[2] or not a[1].startswith('/')]
        # every listed entry is asked about once, and reported iff not ignored
        ver = ctx.ghost.get('verdicts', {})
        cond = []
        for n in set(a[0] for a in asked):
            v = ver.get(('own', n))
            if v is not None:
                cond.append(If(v, BitVecVal(0, 8), BitVecVal(1, 8)) == BitVecVal(trace.count(n), 8))
        # an entry is reported exactly when none of the three mechanisms ignores it
        cond = []
        nodes = set(a[0] for a in asked) | {n_ for t_ in ('hg', 'docker') for (n_, _, c_) in ctx.ghost.get('asked_' + t_, []) if not c_ and n_ is not None}
        for n in nodes:
            vs = [ver.get(('own', n))] + [ver.get((t_, 'own', n)) for t_ in ('hg', 'docker')]
            vs = [v_ for v_ in vs if v_ is not None]
            if vs:
                cond.append(If(Or(vs), BitVecVal(0, 8), BitVecVal(1, 8)) == BitVecVal(trace.count(n), 8))
        okrows = (not cond) or ctx.check(Not(And(cond))) == z3.unsat
        for tool in ('hg', 'docker'):
            for (node, text, canonical) in ctx.ghost.get('asked_' + tool, []):
                if (canonical or not str(text).startswith('/')) and not box.get('viol_' + tool):
                    box['viol_' + tool] = True; box['viol'] = True
                    sess.violated('%s (%s)' % (fam, tool), 'gitarg/%s/%s' % (tool, 'canonical-path' if canonical else 'relative-path'),
                                  'the %s filter is asked about %r (%s)' % (tool, text, 'the fully resolved path: a link is judged by the name of its target' if canonical else 'not absolute'),
                                  {}, cli_replay_ownname(tool), fam)
        if (bad or not okrows) and not box.get('viol'):
            box['viol'] = True
            what = ('libgit2 is asked about %r (%s) for the entry %r' % (bad[0][1], 'the fully resolved path: a link is judged by its target' if bad[0][2] else 'relative to the current directory, not to the work tree', fs.text.get(bad[0][0]))) if bad else 'rows are not the entries libgit2 does not ignore'
            sess.violated(fam, 'gitarg/' + (('canonical-path' if bad[0][2] else 'relative-path') if bad else 'rows'), what, {}, cli_replay_gitarg(), fam)
    ex.explore(run, on_path, time_budget=400)
    if not box.get('viol') and not box.get('bad'):
        sess.discharged('gitarg: is_path_ignored is asked about each entry\'s own path; the rows are the entries it does not ignore', family=fam, queries=box['paths'])


def cli_replay_ownname(tool):
    """`*.log` ignored; link.log -> real.txt must be omitted (its own name), alias.txt -> a.log must stay"""
    def rep():
        exe = common.native_binary()
        d = os.path.realpath(tempfile.mkdtemp(prefix='verif-c20o-', dir=common.SCRATCH_ROOT))
        try:
            r = os.path.join(d, 'r'); os.makedirs(os.path.join(r, '.hg'))
            open(os.path.join(r, '.hgignore'), 'w').write('syntax: glob\n*.log\n'); open(os.path.join(r, '.dockerignore'), 'w').write('*.log\n')
            open(os.path.join(r, 'real.txt'), 'w').write('x'); open(os.path.join(r, 'a.log'), 'w').write('x')
            os.symlink('real.txt', os.path.join(r, 'link.log')); os.symlink('a.log', os.path.join(r, 'alias.txt'))
            p = subprocess.run([exe, 'name', 'from', r, tool + 'ignore'], env={'PATH': os.environ['PATH'], 'HOME': d, 'TZ': 'UTC'}, stdout=subprocess.PIPE, stderr=subprocess.PIPE, timeout=20)
            rows = sorted(x for x in p.stdout.decode().split('\n')[:-1] if not x.startswith('.'))
            return rows != ['alias.txt', 'real.txt'], 'name from r %signore (*.log ignored; link.log -> real.txt, alias.txt -> a.log) -> %r, by their own names: [alias.txt, real.txt]' % (tool, rows)
        finally:
            shutil.rmtree(d, ignore_errors=True)
    return rep


def cli_replay_gitarg():
    """a repository with *.log ignored and links whose own name and target name get different verdicts; oracle: git check-ignore"""
    def rep():
        exe = common.native_binary()
        if not shutil.which('git'):
            return False, 'git is not installed: cannot replay'
        d = os.path.realpath(tempfile.mkdtemp(prefix='verif-c20g-', dir=common.SCRATCH_ROOT))
        try:
            env = {'PATH': os.environ['PATH'], 'HOME': d, 'TZ': 'UTC', 'GIT_CONFIG_NOSYSTEM': '1'}
            repo = os.path.join(d, 'repo'); os.makedirs(os.path.join(repo, 'sub'))
            subprocess.run(['git', 'init', '-q', '.'], cwd=repo, env=env, check=True, stdout=subprocess.PIPE, stderr=subprocess.PIPE)
            open(os.path.join(repo, '.gitignore'), 'w').write('*.log\n')
            for f in ('a.log', 'data.txt', 'sub/b.log', 'sub/notes.txt'):
                open(os.path.join(repo, f), 'w').write('x')
            os.symlink('data.txt', os.path.join(repo, 'current.log')); os.symlink('../a.log', os.path.join(repo, 'sub', 'report.txt')); os.symlink('data.txt', os.path.join(repo, 'alias.txt'))
            allp = []
            for root, dirs, files in os.walk(repo):
                if '.git' in dirs:
                    dirs.remove('.git')
                for n in dirs + files:
                    allp.append(os.path.relpath(os.path.join(root, n), repo))
            ci = subprocess.run(['git', 'check-ignore', '--stdin'], cwd=repo, env=env, input='\n'.join(allp).encode(), stdout=subprocess.PIPE, stderr=subprocess.PIPE)
            ign = set(ci.stdout.decode().split('\n')[:-1])
            want = sorted(p for p in allp if p not in ign)
            # the root spelled absolutely, as `.` from the top, and as `..` from a sub-directory: the same entries every time
            for cwd, root in ((d, repo), (repo, '.'), (os.path.join(repo, 'sub'), '..')):
                r = subprocess.run([exe, "select path from '%s' gitignore" % root], cwd=cwd, env=env, stdout=subprocess.PIPE, stderr=subprocess.PIPE, timeout=20)
                rows = [os.path.normpath(os.path.join(cwd, p)) for p in r.stdout.decode().split('\n')[:-1]]
                got = sorted(os.path.relpath(p, repo) for p in rows if not (p == os.path.join(repo, '.git') or p.startswith(os.path.join(repo, '.git') + '/')))
                if got != want:
                    return True, 'path from %s gitignore (cwd %s) -> %r ; git check-ignore leaves %r' % (root, os.path.relpath(cwd, d), got, want)
            return False, 'path from <repo> gitignore with the root spelled three ways -> %r, as git check-ignore' % (want,)
        finally:
            shutil.rmtree(d, ignore_errors=True)
    return rep


def main(sess):
    sess.engines = ['mirsym + z3 (precedence, fold)', 'relang + z3 (translate)']
    sess.level = 'translation_validation'
    sess.assumptions += [
        'gitignore: the verdict is one call into libgit2 (FFI) — not covered; only its option precedence is',
        'translate: the reference is the tools\' documented rule for well-formed glob patterns (components separated by single slashes, optional trailing slash, `**` '
        'only as a whole leading / inner component): `*` / `?` within one component, `**/` zero or more directories, a match covers whole components and everything below; '
        'hg patterns may start at any directory, docker patterns at the context root; other pattern texts (empty components, `..`, a trailing `**`) are outside',
        'fold: Regex::is_match uninterpreted per filter; parse_hgignore / parse_dockerignore line handling (comments, syntax: sections, !) is not covered',
    ]
    only = getattr(sess, 'only', None)
    if not only or 'precedence' in only:
        fam_precedence(sess)
    if not only or 'upstream' in only:
        fam_upstream(sess)
    if not only or 'gitarg' in only:
        fam_gitarg(sess)
    if not only or 'fold' in only:
        fam_fold(sess)
    for tool in ('docker', 'hg'):
        if not only or 'translate' in only or tool in only:
            fam_translate(sess, tool)
    if not only or 'translate' in only or 'hg' in only:
        fam_translate_hgrx(sess)
