"""End-to-end family shared by several properties: the real main::exec_search — real Lexer, real Parser::parse, real
Searcher::new / list_search_results / visit_dir / check_file / conforms / get_column_expr_value / aggregates, real ResultsWriter and
formatters — executed from MIR on a CONCRETE query text over the abstract file system (tree shape and entry kinds symbolic, values
per entry concrete). What is written to stdout is decoded and compared with the rows a reference evaluation of the same query
over the visited entries gives. It exists for defects that live between components (a parser default meeting a searcher guard)."""
import z3
from z3 import BitVecVal, BoolVal, Not, And, Or
from mirsym.core import Agg, EnumV, Cell, Ref, some, none, ok, conc, Unmodelled, UNIT as UNIT_
from mirsym.models_std import Str, Seq, deep_clone
from drivers import evalcore as E, walker as W
import common

NAMES = ['r0', 'bb', 'c', 'dddd', 'ee', 'f']
SIZES = [0, 7, 12, 7, 300, 5]
# modification times (UTC = the local zone of model and replay): both edges of 2021-12-31 (a year boundary, month 12) and of its last
# hour / minute / second; MT_NS is the sub-second part (the last second of the day is stamped 23:59:59.5)
MTIMES = ['2021-12-30 23:59:59', '2021-12-31 00:00:00', '2021-12-31 23:59:59', '2022-01-01 00:00:00', '2021-12-31 23:00:00', '2021-12-31 22:59:59']
MT_NS = [0, 0, 500000000, 0, 999999999, 0]


def epoch(text):
    import calendar, time as _t
    return calendar.timegm(_t.strptime(text, '%Y-%m-%d %H:%M:%S'))


def gfv(ctx, args, callee):
    """get_field_value summary: name / size / ext / is_dir of node i (concrete per node; is_dir from the node's kind)"""
    fe = ctx.deref(args[-1])
    d = fe.d if isinstance(fe.d, int) else conc(fe.d)
    name = ctx.prog.src.variant_name('Field', d)
    node = ctx.deref(args[1]).node
    if name == 'Name':
        return E.mk_variant(ctx.prog, 'String', string_value=Str(NAMES[node]))
    if name == 'Path':
        return E.mk_variant(ctx.prog, 'String', string_value=Str(W.fs_of(ctx).text[node]))
    if name == 'Size':
        return E.mk_variant(ctx.prog, 'Int', string_value=Str(str(SIZES[node])), int_value=some(BitVecVal(SIZES[node], 64)))
    if name == 'IsDir':
        b = W.fs_of(ctx).isdir(node)
        isd = ctx.decide(b)
        return E.mk_variant(ctx.prog, 'Bool', string_value=Str('true' if isd else 'false'), int_value=some(BitVecVal(int(isd), 64)), bool_value=some(BoolVal(isd)))
    if name == 'Modified':
        from drivers import c13
        t = epoch(MTIMES[node])
        dt = c13.DateC(BitVecVal(t // 86400, 64), BitVecVal(t % 86400 // 3600, 32), BitVecVal(t % 3600 // 60, 32), BitVecVal(t % 60, 32))
        dt.ns = BitVecVal(MT_NS[node], 32)
        return ctx.call_fn(ctx.prog.find('Variant', 'from_datetime'), [dt])
    raise Unmodelled('e2e get_field_value summary: column ' + str(name))


def regex_models():
    """the regex crate on CONCRETE pattern and subject: Python's re stands in for it (the patterns fselect generates use only the common
    subset: literals, escapes, `.`, `.*`, anchors, the (?is) flag group); regex::escape by its documented character set"""
    import re as _re
    from mirsym.models_ext import RegexV
    from mirsym.models_std import as_str
    out = []

    def to_py(p):
        m = _re.match(r'^\^\(\?([a-zA-Z]+)\)', p)
        if m:
            return '(?%s)^' % m.group(1) + p[m.end():]
        return p

    def esc(ctx, args, callee):
        t = as_str(ctx, args[0]).s
        if t is None:
            raise Unmodelled('regex::escape of a symbolic text')
        return Str(''.join('\\' + c if c in '\\.+*?()|[]{}^$#&-~' else c for c in t))

    def new(ctx, args, callee):
        t = as_str(ctx, args[0]).s
        if t is None:
            raise Unmodelled('Regex::new of a symbolic text')
        try:
            _re.compile(to_py(t))
        except _re.error:
            return W.err(UNIT_)
        return ok(RegexV(Str(t)))

    def is_match(ctx, args, callee):
        rx = ctx.deref(args[0]); sub = as_str(ctx, args[1]).s
        if sub is None or rx.pat.s is None:
            raise Unmodelled('is_match on symbolic text')
        return BoolVal(_re.search(to_py(rx.pat.s), sub) is not None)
    return [(r'^regex::escape$', esc, 'regex::escape (documented meta-character set)'),
            (r'^regex::Regex::new$|^Regex::new$', new, 'regex:Regex::new on a concrete pattern (Python re as the engine)'),
            (r'^regex::Regex::is_match$|^Regex::is_match$', is_match, 'regex:is_match on concrete pattern and subject (Python re as the engine)')]


def overrides(extra=()):
    from drivers import c09, c11
    base = [o for o in W.models() if o[2] not in ('summary:check_file', 'summary:TopN::values(empty)', 'summary:ResultsWriter(token)',
                                                  "summary:Parser::parse(returns the driver's Query)") and 'write_fmt' not in o[0]]

    def check_file(ctx, args, callee):
        e = ctx.deref(args[1])
        ctx.ghost.setdefault('visited', []).append(e.node)
        return ctx.call_fn(ctx.prog.find('Searcher', 'check_file'), list(args))
    return (list(extra) + [(r'Searcher::check_file$', check_file, 'trace:check_file (records the entry, then runs the real function)')]
            + regex_models() + c09.writer_models(True) + c11.lexer_models() + base
            + [(r'Searcher::get_field_value$', gfv, 'summary:get_field_value(concrete values per entry)'),
               (r'^UserDirs::new$|^directories::UserDirs::new$', lambda ctx, a, c: none(), 'stub:UserDirs::new(None)')])


def run_query(ctx, prog, text, M, kinds=(W.FILE, W.DIR)):
    fs = W.FS(ctx, M, roots=1, kinds=kinds)
    ctx.ghost['fs'] = fs
    es = prog.find_free('exec_search')
    cfg = W.mk_config(prog)
    status = ctx.call_fn(es, [Seq([Str(text)]), Ref(Cell(cfg)), Ref(Cell(deep_clone(ctx, cfg))), BoolVal(True)])
    return fs, status


def stdout_text(ctx):
    out = []
    for p in ctx.ghost.get('stdout', []):
        if not isinstance(p, Str) or p.s is None:
            return None
        out.append(p.s)
    return ''.join(out)


def family(sess, fam, queries, M=None, extra=()):
    """queries: list of (query text with root R0, reference(list of visited node ids, kinds dict) -> list of rows (list of str), ordered: bool)"""
    prog = sess.prog
    M = M or (4 if sess.tier == 'quick' else 5)
    sess.bounds[fam] = {'nodes': M, 'entry kinds': 'file / directory (symbolic)', 'tree shape': 'symbolic', 'queries': [q[0] for q in queries],
                        'values': {'name': NAMES[:M], 'size': SIZES[:M], 'modified (UTC)': MTIMES[:M]}}
    for text, ref, ordered in queries:
        ex = sess.executor(overrides(extra), unwind=M + 400, maxsteps=4000000)
        box = {'paths': 0}
        nm = '%s `%s`' % (fam, text)

        def runp(ctx, text=text):
            return run_query(ctx, prog, text, M)

        def on_path(ctx, out, text=text, ref=ref, ordered=ordered, nm=nm):
            box['paths'] += 1
            if out[0] != 'ret':
                if not box.get('bad'):
                    box['bad'] = True; sess.inconclusive(nm, str(out)[:300], fam)
                return
            fs, status = out[1]
            txt = stdout_text(ctx)
            if txt is None:
                if not box.get('bad'):
                    box['bad'] = True; sess.inconclusive(nm, 'symbolic text on stdout', fam)
                return
            visited = ctx.ghost.get('visited', [])
            kinds = {}
            for n in visited:
                kinds[n] = ctx.check(Not(fs.isdir(n))) == z3.unsat
            want = ref(visited, kinds)
            got = [l.split('\t') for l in txt.split('\n')[:-1]] if txt else []
            st = ctx.check(status != 0) == z3.unsat
            if callable(want):           # a predicate on the printed rows (e.g. LIMIT without ORDER BY: any sub-multiset of that size)
                if want(got) and st:
                    return
                want = '<predicate>'
            else:
                if not ordered:
                    got, want = sorted(got), sorted(want)
                if got == want and st:
                    return
            if box.get('viol'):
                return
            box['viol'] = True
            sess.violated(nm, '%s/%s' % (fam, text.split(' from ')[0][:40]), 'visited entries %r: printed %r, reference %r' % ([NAMES[n] for n in visited], got, want),
                          {'query': text, 'visited': visited}, cli_replay(text, ref, ordered), fam)
        n, complete = ex.explore(runp, on_path, time_budget=300 if sess.tier == 'quick' else 900)
        if not complete:
            sess.inconclusive(nm, 'time budget exceeded after %d paths' % n, fam)
        elif not box.get('viol') and not box.get('bad'):
            sess.discharged(nm + ': stdout = reference rows over the visited entries', family=fam, queries=box['paths'])


def cli_replay(text, ref, ordered):
    """the query over a real flat directory R0 holding files of the model's names and sizes (and one sub-directory)"""
    def rep():
        exe = common.native_binary()
        # flat directories of files; an empty directory; a directory holding only (empty) sub-directories
        for k, only_dirs in ((2, False), (3, False), (5, False), (0, False), (2, True)):
            if only_dirs and 'size' in text.lower():
                continue            # the model gives every entry its table size; a real directory has its own
            tree = {'R0': {'kind': 'dir'}}
            visited = []; kinds = {}
            for i in range(1, k + 1):
                if only_dirs:
                    tree['R0/' + NAMES[i]] = {'kind': 'dir', 'mtime_ns': epoch(MTIMES[i]) * 10 ** 9 + MT_NS[i]}; kinds[i] = True
                else:
                    tree['R0/' + NAMES[i]] = {'size': SIZES[i], 'mtime_ns': epoch(MTIMES[i]) * 10 ** 9 + MT_NS[i]}; kinds[i] = False
                visited.append(i)
            r = common.run_cli(exe, [text], tree)
            got = [l.split('\t') for l in r['stdout'].split('\n')[:-1]]
            want = ref(visited, kinds)
            if callable(want):
                bad = not want(got); want = '<predicate>'
            else:
                if not ordered:
                    got, want = sorted(got), sorted(want)
                bad = got != want
            if bad or r['status'] != 0:
                return True, '`%s` over %d entries -> %r, reference %r (status %s)' % (text, k, got, want, r['status'])
        return False, '`%s` agrees with the reference on flat directories of 2, 3 and 5 files, an empty directory and a directory of 2 sub-directories' % text
    return rep


# ------------------------------------------------------------------------------------------------ query sets per property
def _rows(v, cols):
    return [[str(c(i)) for c in cols] for i in v]


def queries_for(pid):
    S, N = SIZES, NAMES
    name = lambda i: N[i]
    size = lambda i: S[i]
    if pid == 'C02':
        return [('name from R0 where size < 7.5 and size > 6.5 or size = 12.5', lambda v, k: _rows([i for i in v if 6.5 < S[i] < 7.5 or S[i] == 12.5], [name]), False),   # a fraction is not cut
                ('name from R0 where size between 7 and 12', lambda v, k: _rows([i for i in v if 7 <= S[i] <= 12], [name]), False),
                ("name from R0 where name === 'bb' or size >= 300", lambda v, k: _rows([i for i in v if N[i] == 'bb' or S[i] >= 300], [name]), False),
                ("name, '' from R0 where name !== '' and not name === ''", lambda v, k: [[N[i], ''] for i in v], False)]
    if pid == 'C03':
        return [('name from R0 where not (size > 6 or is_dir = true)', lambda v, k: _rows([i for i in v if not (S[i] > 6 or k[i])], [name]), False),
                ('name from R0 where not size > 6 and not is_dir', lambda v, k: _rows([i for i in v if not S[i] > 6 and not k[i]], [name]), False),
                ('name from R0 where size not between 7 and 12 or not not is_dir', lambda v, k: _rows([i for i in v if not (7 <= S[i] <= 12) or k[i]], [name]), False)]
    if pid == 'C05':
        return [('name, size from R0 order by size, name', lambda v, k: _rows(sorted(v, key=lambda i: (S[i], N[i].encode())), [name, size]), True),
                # a negated function that is both a printed column and (by position) an ordering key
                ('-length(name), name from R0 order by 1, 2', lambda v, k: _rows(sorted(v, key=lambda i: (-len(N[i]), N[i].encode())), [lambda i: -len(N[i]), name]), True),
                ('name from R0 order by size - 100 desc, name', lambda v, k: _rows(sorted(v, key=lambda i: (-(S[i] - 100), N[i].encode())), [name]), True),
                ('name from R0 order by 100 - size, 1', lambda v, k: _rows(sorted(v, key=lambda i: (100 - S[i], N[i].encode())), [name]), True),
                ('name from R0 order by length(name) desc, name desc', lambda v, k: _rows(sorted(sorted(v, key=lambda i: N[i].encode(), reverse=True), key=lambda i: -len(N[i])), [name]), True)]
    if pid == 'C06':
        def sub(nmax):
            return lambda v, k: (lambda got: len(got) == min(nmax, len(v)) and all(g in [[N[i]] for i in v] for g in got) and len({tuple(g) for g in got}) == len(got))
        return [('name from R0 limit 2', sub(2), False),
                ('name from R0 limit 1', sub(1), False),
                ('name, size from R0 order by size desc, name limit 2', lambda v, k: _rows(sorted(v, key=lambda i: (-S[i], N[i].encode()))[:2], [name, size]), True),
                ("name, 'x' from R0", lambda v, k: [[N[i], 'x'] for i in v], False),
                # LIMIT on group rows without ORDER BY: any one row of the unlimited grouped result, aggregated over ALL its members
                ('size, count(*) from R0 group by size limit 1', lambda v, k: (lambda got: len(got) == min(1, len(v)) and all(g in [[str(s_), str(len([i for i in v if S[i] == s_]))] for s_ in {S[i] for i in v}] for g in got)), False),
                ('size, count(*) from R0 group by size order by size limit 1', lambda v, k: [[str(min(S[i] for i in v)), str(len([i for i in v if S[i] == min(S[j] for j in v)]))]], True)]
    if pid == 'C08':
        def grp(keyf):
            def f(v, k):
                d = {}
                for i in v:
                    c, s_ = d.get(keyf(i), (0, 0)); d[keyf(i)] = (c + 1, s_ + S[i])
                return [[str(a), str(c), str(s_)] for a, (c, s_) in d.items()]
            return f
        def counts_only(v, k):
            d = {}
            for i in v:
                d[S[i]] = d.get(S[i], 0) + 1
            return [[str(c)] for c in d.values()]
        def counts_by_size_desc(v, k):
            d = {}
            for i in v:
                d[S[i]] = d.get(S[i], 0) + 1
            return [[str(d[s_])] for s_ in sorted(d, reverse=True)]
        def by_count_desc(v, k):
            d = {}
            for i in v:
                c, s_ = d.get(S[i], (0, 0)); d[S[i]] = (c + 1, s_ + S[i])
            return [[str(a), str(s_)] for a, (c, s_) in sorted(d.items(), key=lambda kv: (kv[1][0], kv[0]))]

        def spread(v, k):
            d = {}
            for i in v:
                d[S[i]] = d.get(S[i], 0) + 1
            return [[str(a), '0', str(c)] for a, c in d.items()]
        return [('size, count(*), sum(size) from R0 group by size', grp(size), False),
                # an aggregate that is an ordering key without being selected; arithmetic between two aggregates of the group
                ('size, sum(size) from R0 group by size order by count(*), size', by_count_desc, True),
                ('size, max(size) - min(size), count(*) from R0 group by size', spread, False),
                ('count(*) from R0 group by size order by size desc', counts_by_size_desc, True),       # an ordering key need not be selected
                ('count(*) from R0 group by size', counts_only, False),
                ('length(name), count(*), sum(size) from R0 group by length(name)', grp(lambda i: len(N[i])), False),
                # averages with a fraction and different digit counts (5 nodes: 153.5, 12, 7): ordered as numbers
                ('length(name), avg(size) from R0 group by length(name) order by avg(size)', lambda v, k: sorted([[str(l_), ('%g' % (sum(S[i] for i in v if len(N[i]) == l_) / len([i for i in v if len(N[i]) == l_])))] for l_ in {len(N[i]) for i in v}], key=lambda r: float(r[1])), True),
                ('size, count(*), sum(size) from R0 group by size order by sum(size) desc, size', lambda v, k: sorted(grp(size)(v, k), key=lambda r: (-int(r[2]), int(r[0]))), True)]
    if pid == 'C15':
        return [('name from R0 where size = 15 / 2 or 8 < size', lambda v, k: _rows([i for i in v if S[i] == 7.5 or 8 < S[i]], [name]), False),   # a fraction is not cut; a literal may stand on the left
                # a negated column twice in one row; a sign directly after a bracket and after a comparison operator
                ('name, -size, -size * 2, (-size + 3) * 2 from R0 where size - 30 < -size', lambda v, k: _rows([i for i in v if S[i] - 30 < -S[i]], [name, lambda i: -S[i], lambda i: -S[i] * 2, lambda i: (-S[i] + 3) * 2]), False),
                ('name, size * 2 + 1, -size, size - 100 from R0', lambda v, k: _rows(v, [name, lambda i: S[i] * 2 + 1, lambda i: -S[i], lambda i: S[i] - 100]), False),
                ('size - 1, size + 1, (size + 1) * 2, size + 1 * 2 from R0', lambda v, k: _rows(v, [lambda i: S[i] - 1, lambda i: S[i] + 1, lambda i: (S[i] + 1) * 2, lambda i: S[i] + 2]), False),
                ('name from R0 where size % 7 = 0 and size / 7 >= 1', lambda v, k: _rows([i for i in v if S[i] % 7 == 0 and S[i] / 7 >= 1], [name]), False)]
    if pid == 'C16':
        return [("substr(name, 1), substr(name, -1), least(4, 2), least(4, -2) from R0",       # calls that differ only in the sign of a literal argument
                 lambda v, k: _rows(v, [lambda i: N[i], lambda i: N[i][-1:], lambda i: 2, lambda i: -2]), False),
                ("upper(name), length(name), substr(name, 2, 2), concat(name, '-', size) from R0",
                 lambda v, k: _rows(v, [lambda i: N[i].upper(), lambda i: len(N[i]), lambda i: N[i][1:3], lambda i: N[i] + '-' + str(S[i])]), False),
                ("name, coalesce('', name), lower(upper(name)), substr(name, -1) from R0 where length(name) >= 2",
                 lambda v, k: _rows([i for i in v if len(N[i]) >= 2], [name, name, lambda i: N[i].lower(), lambda i: N[i][-1:]]), False)]
    if pid == 'C12':
        import re as _re

        def wild(p_, many, one):
            return '(?is)^' + ''.join('.*' if c == many else '.' if c == one else _re.escape(c) for c in p_) + '$'
        m = lambda rx: (lambda v, k: _rows([i for i in v if _re.search(rx, N[i])], [name]))
        nm = lambda rx: (lambda v, k: _rows([i for i in v if not _re.search(rx, N[i])], [name]))
        return [("name from R0 where name = 'b*' or name like '%d_d'", lambda v, k: _rows([i for i in v if _re.search(wild('b*', '*', '?'), N[i]) or _re.search(wild('%d_d', '%', '_'), N[i])], [name]), False),
                ("name from R0 where name = '?' or name = 'DDDD'", lambda v, k: _rows([i for i in v if len(N[i]) == 1 or N[i] == 'DDDD'], [name]), False),
                ("name from R0 where name != '*d' and name notlike 'b%'", nm(r'(?is)^(.*d|b.*)$'), False),
                ("name from R0 where name =~ '^[bc]+$' and name !=~ 'bb'", lambda v, k: _rows([i for i in v if _re.search('^[bc]+$', N[i]) and not _re.search('bb', N[i])], [name]), False),
                ("name from R0 where name === 'c' or name like 'c' or name = 'b?' and not name === 'b?'", lambda v, k: _rows([i for i in v if N[i] == 'c' or _re.search(wild('b?', '*', '?'), N[i])], [name]), False)]
    if pid == 'C11':
        ref1 = lambda v, k: _rows(sorted([i for i in v if S[i] >= 7], key=lambda i: (-S[i], N[i].encode())), [name, size])
        return [('name, size from R0 where size >= 7 order by size desc, name', ref1, True),
                ('SELECT NAME, SIZE FROM R0 WHERE SIZE GTE 7 ORDER BY 2 DESC, 1 ASC', ref1, True),
                ('select name size from R0 where {size ge 7} order by size desc name', ref1, True),
                ('name, size from R0 where not size lt 7 order by 2 desc, name', ref1, True)]
    raise KeyError(pid)


def family_for(sess, pid, quick_n=2):
    qs = queries_for(pid)
    if sess.tier == 'quick':
        qs = qs[:quick_n]
    family(sess, 'e2e', qs)
