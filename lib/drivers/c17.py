"""C17 — one failing directory, file or reader never spoils the rest of the search.

Families (the real main::exec_search -> Searcher::new -> list_search_results -> visit_dir [-> check_file] from MIR):
  faults   directories that cannot be listed, entries whose type cannot be read, paths that cannot be canonicalised — all
           symbolic: rows = the entries outside the failed directories, status 1 iff something failed, the failing path is named
  pipe     the consumer closes stdout: every write to stdout (header, rows, separators, footer) may fail with BrokenPipe once
           the pipe is closed (monotone, LineWriter semantics): no panic, status 0 or 1 — streamed, ordered and aggregate paths,
           formats with and without newline-terminated rows; check_file runs from its real MIR here
  readers  content readers return an empty value when the file cannot be opened (see c17_readers)
"""
import z3
from z3 import BitVecVal, BoolVal, Not, And, Or, If, ULT, ULE, UGE
from mirsym.core import conc, Agg, Ref, Cell
from mirsym.models_std import Str
from drivers import evalcore as E, walker as W
from drivers.c01 import tree_from_model
import common, os, subprocess, tempfile, shutil


def fam_faults(sess):
    prog = sess.prog
    fam = 'faults'
    quick = sess.tier == 'quick'
    M = 4 if quick else 5
    sess.bounds[fam] = {'nodes': M, 'roots': '1 and 2', 'faults': 'read_dir per directory (incl. the roots), file_type per entry, canonicalize per directory', 'modes': 'bfs and dfs'}
    for nroots, dfs in ((1, False), (1, True), (2, False)):
        ex = sess.executor(W.models(), unwind=M + 4, maxsteps=400000)
        viol = {}; st = {'paths': 0}

        def runp(ctx, nroots=nroots, dfs=dfs):
            fs = W.FS(ctx, M, roots=nroots, kinds=(W.FILE, W.DIR), faults=True)
            ctx.ghost['fs'] = fs
            ctx.ghost['match_all'] = BoolVal(True)
            ctx.ghost['canon_fault'] = {i: ctx.fresh_bool('canonfault%d' % i) for i in range(M)}
            roots = [W.mk_root(prog, 'R%d' % r, BitVecVal(0, 32), BitVecVal(0, 32), dfs) for r in range(nroots)]
            q = W.mk_query(prog, roots, BitVecVal(0, 32), ordered=False)
            status = W.run_exec_search(ctx, prog, q)
            return fs, status

        def on_path(ctx, out, nroots=nroots, dfs=dfs):
            st['paths'] += 1
            name = '%s roots=%d %s' % (fam, nroots, 'dfs' if dfs else 'bfs')
            if out[0] != 'ret':
                if out[0] == 'panic':
                    if not viol.get('panic'):
                        viol['panic'] = True
                        sess.violated(name, 'faults/panic', out[1], {}, None, fam)
                else:
                    st['bad'] = True; sess.inconclusive(name, str(out), fam)
                return
            fs, status = out[1]
            trace = [n for n, mem in ctx.ghost.get('trace', [])]
            faulted = ctx.ghost.get('faulted', [])
            named = ctx.ghost.get('stderr_paths', [])
            cf = ctx.ghost['canon_fault']
            # specification: node i is reported iff its parent chain consists of directories that could be listed,
            # canonicalised and whose type could be read
            reach = [None] * M
            for r in range(nroots):
                reach[r] = BoolVal(True)
            listable = lambda c: And(fs.isdir(c), Not(fs.rd_fault[c]), Not(cf[c]))
            entered = [None] * M     # directory c is entered (its entries are read)
            for r in range(nroots):
                entered[r] = listable(r)
            for i in range(nroots, M):
                rc = BoolVal(False); en = BoolVal(False)
                for c in range(i - 1, -1, -1):
                    cond = fs.parent[i] == BitVecVal(c, 8)
                    rc = If(cond, entered[c], rc)
                reach[i] = rc
                entered[i] = And(rc, Not(fs.ft_fault[i]), listable(i))
            cnt = {}
            for n in trace:
                cnt[n] = cnt.get(n, 0) + 1
            conds = []
            for i in range(nroots, M):
                conds.append(If(reach[i], BitVecVal(1, 8), BitVecVal(0, 8)) == BitVecVal(cnt.get(i, 0), 8))
            # some fault was hit  <=>  status 1 ; nothing failed <=> status 0 and nothing on stderr
            anyfault = BoolVal(len(faulted) > 0)
            conds.append(status == If(anyfault, BitVecVal(1, 8), BitVecVal(0, 8)))
            conds.append(BoolVal((len(named) > 0) == (len(faulted) > 0)))
            # every failing directory / entry is named on stderr
            fnodes = sorted({f[1] for f in faulted})
            conds.append(BoolVal(len(named) >= len(faulted)))
            r = ctx.check(Not(And(conds)))
            if r == z3.unsat:
                return
            if r != z3.sat:
                st['bad'] = True; sess.inconclusive(name, 'solver unknown', fam); return
            m = ctx.model(Not(And(conds)))
            stv = m.eval(status, model_completion=True).as_long()
            rootfault = any(f[1] < nroots for f in faulted)
            role = 'faults/' + ('root' if rootfault else 'inner') + ('/status' if stv != (1 if faulted else 0) or (len(named) > 0) != (len(faulted) > 0) else '/rows')
            if viol.get(role):
                return
            viol[role] = True
            sess.violated(name, role, 'faults %r: reported %r, status %d, stderr names %r' % (faulted, trace, stv, named),
                          {'faults': [list(f) for f in faulted], 'trace': trace, 'status': stv},
                          cli_replay_faults(fs, m, faulted, nroots, dfs), fam)

        n, complete = ex.explore(runp, on_path, time_budget=400 if quick else 1500)
        name = '%s roots=%d %s' % (fam, nroots, 'dfs' if dfs else 'bfs')
        if not complete:
            sess.inconclusive(name, 'time budget exceeded after %d paths' % n, fam)
        elif not viol and not st.get('bad'):
            sess.discharged(name + ': rows = entries outside failed directories; status 1 iff a failure was hit; failures named on stderr',
                            family=fam, queries=st['paths'])


def cli_replay_faults(fs, m, faulted, nroots, dfs):
    """unlistable directories are realised as mode 000 directories searched as an unprivileged user (setpriv), a root that is
    not a directory as a regular file; file_type / canonicalize faults have no portable realisation and are replayed as read_dir faults"""
    def rep():
        exe = common.native_binary()
        tree, path, par, kind, usable = tree_from_model(fs, m)
        bad_dirs = sorted({path[f[1]] for f in faulted if f[0] in ('read_dir', 'canon', 'file_type') and (f[1] < nroots or kind.get(f[1]) == 1)})
        for f in faulted:
            if f[0] == 'notdir' and f[1] < nroots:
                tree[path[f[1]]] = {'size': 1}
                for p in list(tree):
                    if p.startswith(path[f[1]] + '/'):
                        del tree[p]
        d = tempfile.mkdtemp(prefix='verif-c17-', dir=common.SCRATCH_ROOT)
        try:
            os.chmod(d, 0o755)
            common.build_tree(d, tree)
            subprocess.run(['chmod', '-R', 'a+rX', d])
            for b in bad_dirs:
                if os.path.isdir(os.path.join(d, b)):
                    os.chmod(os.path.join(d, b), 0)
            shutil.copy2(exe, os.path.join(d, 'fselect')); os.chmod(os.path.join(d, 'fselect'), 0o755)
            argv = ['path', 'from'] + sum([([','] if r else []) + ['R%d' % r] + (['dfs'] if dfs else []) for r in range(nroots)], [])
            cmd = ['setpriv', '--reuid=65534', '--regid=65534', '--clear-groups', os.path.join(d, 'fselect')] + argv
            p = subprocess.run(cmd, cwd=d, stdout=subprocess.PIPE, stderr=subprocess.PIPE, timeout=20,
                               env={'PATH': os.environ['PATH'], 'HOME': '/nonexistent', 'TZ': 'UTC'})
            got = sorted(p.stdout.decode().split('\n')[:-1])
            # expected rows: everything not strictly inside a bad dir / a non-directory root
            want = []
            for q_ in tree:
                if q_ in ['R%d' % r for r in range(nroots)]:
                    continue
                if any(q_.startswith(b + '/') for b in bad_dirs):
                    continue
                want.append(q_)
            nfail = len([b for b in bad_dirs if os.path.isdir(os.path.join(d, b))]) + len([1 for f in faulted if f[0] == 'notdir' and f[1] < nroots])
            st_want = 1 if nfail else 0
            err = p.stderr.decode()
            bad = got != sorted(want) or p.returncode != st_want or (nfail > 0) != (len(err) > 0)
            return bad, 'fselect %s (uid 65534; unlistable: %r) -> rows %r status %s stderr %r ; expected rows %r status %d' % (
                ' '.join(argv), bad_dirs, got, p.returncode, err[:200], sorted(want), st_want)
        finally:
            subprocess.run(['chmod', '-R', 'u+rwx', d], stderr=subprocess.DEVNULL)
            shutil.rmtree(d, ignore_errors=True)
    return rep


def fam_pipe(sess):
    prog = sess.prog
    fam = 'pipe'
    quick = sess.tier == 'quick'
    M = 3
    sess.bounds[fam] = {'nodes': M, 'writes': 'every stdout write may fail once the pipe is closed (monotone)', 'result paths': 'streamed, ordered, aggregate',
                        'formats': 'newline-terminated rows (tabs/lines/csv) and not (json/html/list)'}
    base = [o for o in W.models() if o[2] not in ('summary:check_file', 'summary:TopN::values(empty)')]
    ov = base + [E.GFV_OVERRIDE]
    for mode in ('streamed', 'ordered', 'aggregate', 'grouped'):
        for newline in (True, False):
            ex = sess.executor(ov, unwind=M + 6, maxsteps=400000)
            viol = {}; st = {'paths': 0}

            def runp(ctx, mode=mode, newline=newline):
                fs = W.FS(ctx, M, roots=1, kinds=(W.FILE,))
                ctx.ghost['fs'] = fs
                ctx.ghost['fields'] = {'Path': E.mk_variant(prog, 'String', string_value=Str('p')), 'Name': E.mk_variant(prog, 'String', string_value=Str('n'))}
                ctx.ghost['pipe'] = {'n': 0, 'closed': [], 'failed': []}
                ctx.ghost['format_newlines'] = {'row': newline, 'write_header': False, 'write_footer': False, 'write_row_separator': False}
                roots = [W.mk_root(prog, 'R0', BitVecVal(0, 32), BitVecVal(0, 32), False)]
                q = W.mk_query(prog, roots, BitVecVal(0, 32), ordered=(mode == 'ordered'), aggregate=(mode in ('aggregate', 'grouped')), grouped=(mode == 'grouped'))
                return W.run_exec_search(ctx, prog, q)

            def on_path(ctx, out, mode=mode, newline=newline):
                st['paths'] += 1
                name = '%s %s %s' % (fam, mode, 'newline rows' if newline else 'no newlines')
                failed = ctx.ghost.get('pipe', {}).get('failed', [])
                if out[0] == 'panic':
                    role = 'pipe/panic/' + (failed[-1] if failed else 'none')
                    if not viol.get(role):
                        viol[role] = True
                        sess.violated(name, role, 'a BrokenPipe on %r escapes as a panic (status 101): %s' % (failed, out[1][:120]),
                                      {'failed_writes': failed, 'tokens': ctx.ghost.get('tokens')}, cli_replay_pipe(mode, failed[-1] if failed else ''), fam)
                    return
                if out[0] != 'ret':
                    st['bad'] = True; sess.inconclusive(name, str(out), fam); return
                status = out[1]
                r = ctx.check(Not(Or(status == 0, status == 1)))
                if r == z3.unsat:
                    return
                if not viol.get('pipe/status'):
                    viol['pipe/status'] = True
                    sess.violated(name, 'pipe/status', 'status outside {0,1}', {}, None, fam)
            n, complete = ex.explore(runp, on_path, time_budget=400 if quick else 900)
            name = '%s %s %s' % (fam, mode, 'newline rows' if newline else 'no newlines')
            if not complete:
                sess.inconclusive(name, 'time budget exceeded after %d paths' % n, fam)
            elif not viol and not st.get('bad'):
                sess.discharged(name + ': whatever write fails with BrokenPipe, no panic and status in {0,1}', family=fam, queries=st['paths'])


def cli_replay_pipe(mode, failed_write):
    """run the real binary with stdout connected to a pipe whose reader closes early; several formats / close offsets"""
    def rep():
        exe = common.native_binary()
        d = tempfile.mkdtemp(prefix='verif-c17p-', dir=common.SCRATCH_ROOT)
        try:
            for i in range(400):
                open(os.path.join(d, 'file-with-a-rather-long-name-%04d.txt' % i), 'w').close()
            q = {'streamed': 'path, abspath from .', 'ordered': 'path, abspath from . order by name', 'aggregate': 'count(name), max(name) from .', 'grouped': 'name, count(name) from . group by name'}[mode]
            worst = None
            for fmt in ('html', 'json', 'tabs', 'csv', 'list', 'lines'):
                for nbytes in (0, 1, 100, 1023, 1024, 1025, 5000):
                    cmd = '%s "%s into %s" 2>%s/err | head -c %d >/dev/null; echo ${PIPESTATUS[0]}' % (exe, q, fmt, d, nbytes)
                    p = subprocess.run(['bash', '-c', cmd], cwd=d, stdout=subprocess.PIPE, stderr=subprocess.PIPE, timeout=60,
                                       env={'PATH': os.environ['PATH'], 'HOME': d, 'TZ': 'UTC'})
                    st = p.stdout.decode().strip()
                    err = open(os.path.join(d, 'err')).read()
                    if st not in ('0', '1') or 'panicked' in err:
                        return True, '`%s into %s | head -c %d`: status %s, stderr %r' % (q, fmt, nbytes, st, err[:200])
                    worst = (fmt, nbytes, st)
            return False, 'no crash for any format / close offset tried (last: %r)' % (worst,)
        finally:
            shutil.rmtree(d, ignore_errors=True)
    return rep


def main(sess):
    sess.engines = ['mirsym (MIR symbolic execution) + z3']
    sess.assumptions += [
        'abstract file system as in C01 plus fault bits; Parser::parse summarised (returns the driver query; the parser is C10)',
        'stdout is a LineWriter over a pipe: a write reaches the pipe (and can fail with BrokenPipe) iff it contains a newline or the buffer cannot take it; '
        'closing is monotone; SIGPIPE is ignored (Rust runtime default); print!-family panics inside std are outside the claim',
        'get_field_value summarised in the pipe family (constant texts); ResultsWriter::* summarised as writes of tokens',
    ]
    only = getattr(sess, 'only', None)
    for name, f in (('faults', fam_faults), ('pipe', fam_pipe)):
        if not only or name in only:
            f(sess)
    if not only or 'readers' in only:
        # content readers under failure: open / read errors are symbolic in the reader families of C04 — an unreadable file gives an
        # empty value (line_count: no value, is_shebang: false, digests: empty text), never a panic, and the other columns are unaffected
        from drivers import c04_wiring
        c04_wiring.fam_readers(sess)
        c04_wiring.fam_digests(sess)
