"""C15 — expressions follow arithmetic rules and each column is evaluated on its own.

Families (real MIR, z3):
  tree    symbolic token sequences over three columns, + - * / %, ( ) -> real Parser::parse_expr: the parsed tree is the
          precedence-climbing tree of the textbook (* / % over + -, left-associative, brackets)
  calc    ArithmeticOp::calc on symbolic operands (f64 / integer Variants): the IEEE result of the operator named, no panic
  cache   Searcher::get_column_expr_value with the per-row value cache: the value of an expression evaluated after an
          arbitrary other expression into the same row map equals its value in an empty map
  minus   a leading minus negates its operand, for literals and for columns
"""
import itertools
import z3
from z3 import BitVecVal, BoolVal, Not, And, Or, If, ULT
from mirsym.core import Agg, EnumV, Cell, Ref, BoxV, some, none, conc, Unmodelled
from mirsym.models_std import Str, Seq, Map
from mirsym.models_fmt import NumStr, FloatStr
from drivers import evalcore as E, parsecore as P
import common

COLS = ['size', 'uid', 'gid']
COLF = {'size': 'Size', 'uid': 'Uid', 'gid': 'Gid'}
OPSYM = {'Add': '+', 'Subtract': '-', 'Multiply': '*', 'Divide': '/', 'Modulo': '%'}
ALPHA = COLS + ['+', '-', '*', '/', '%', '(', ')']


class Bad(Exception):
    pass


def textbook(tokens):
    """-> nested tuple AST: ('col', name) | (op, l, r) | ('neg', x); raises Bad"""
    pos = [0]

    def peek():
        return tokens[pos[0]] if pos[0] < len(tokens) else None

    def eat():
        pos[0] += 1

    def add():
        l = mul()
        while peek() in ('+', '-'):
            o = peek(); eat(); r = mul(); l = (o, l, r)
        return l

    def mul():
        l = prim()
        while peek() in ('*', '/', '%'):
            o = peek(); eat(); r = prim(); l = (o, l, r)
        return l

    def prim():
        t = peek()
        if t in COLS:
            eat(); return ('col', t)
        if t == '(':
            eat(); r = add()
            if peek() != ')':
                raise Bad()
            eat(); return r
        if t == '-':
            eat()
            t2 = peek()
            if t2 in COLS:
                eat(); return ('neg', ('col', t2))
            raise Bad()
        raise Bad()
    r = add()
    if pos[0] != len(tokens):
        raise Bad()
    return r


def expr_to_ast(ctx, prog, e):
    F = E.struct_fields(prog, 'Expr')
    g = lambda n: e.f[F.index(n)]

    def optv(ev):
        d = ev.d if isinstance(ev.d, int) else conc(ev.d)
        return None if d == 0 else ev.p[1][0]
    aop, l, r, fld = optv(g('arithmetic_op')), optv(g('left')), optv(g('right')), optv(g('field'))
    sub = lambda b: expr_to_ast(ctx, prog, b.cell.v if isinstance(b, BoxV) else ctx.deref(b))
    if aop is not None:
        d = aop.d if isinstance(aop.d, int) else conc(aop.d)
        return (OPSYM[prog.src.variant_name('ArithmeticOp', d)], sub(l), sub(r))
    if fld is not None:
        d = fld.d if isinstance(fld.d, int) else conc(fld.d)
        a = ('col', prog.src.variant_name('Field', d).lower())
        return ('neg', a) if conc(g('minus')) else a
    if l is not None:
        return sub(l)
    return ('?',)


def show(ast):
    if ast[0] == 'col':
        return ast[1]
    if ast[0] == 'neg':
        return '-' + show(ast[1])
    if ast[0] == '?':
        return '?'
    return '(%s %s %s)' % (show(ast[1]), ast[0], show(ast[2]))


def pyeval(ast, env):
    import math
    if ast[0] == 'col':
        return float(env[ast[1]])
    if ast[0] == 'neg':
        return -pyeval(ast[1], env)
    a, b = pyeval(ast[1], env), pyeval(ast[2], env)
    if ast[0] == '+': return a + b
    if ast[0] == '-': return a - b
    if ast[0] == '*': return a * b
    if ast[0] == '/': return a / b if b != 0 else float('inf')
    return math.fmod(a, b) if b != 0 else float('nan')


def cli_value_replay(expr_text, ast, sizes=(12,)):
    """select <expr> over one file: compare with the reference value (uid/gid of the file are read back from the same binary)"""
    def rep():
        exe = common.native_binary()
        tree = {'f': {'size': sizes[0]}}
        r0 = common.run_cli(exe, ['uid,', 'gid', 'from', '.', 'where', 'name', '=', 'f'], tree)
        try:
            uid, gid = [int(x) for x in r0['stdout'].split('\n')[0].split('\t')]
        except Exception:
            return False, 'could not read uid/gid: %r' % (r0,)
        r = common.run_cli(exe, [expr_text, 'from', '.', 'where', 'name', '=', 'f'], tree)
        got = r['stdout'].strip()
        want = pyeval(ast, {'size': sizes[0], 'uid': uid, 'gid': gid})
        try:
            okv = abs(float(got) - want) <= 1e-9 * max(1.0, abs(want))
        except ValueError:
            okv = False
        return (not okv or r['status'] != 0), 'select %s over a %d-byte file (uid %d gid %d) -> %r ; arithmetic value %r (status %s %s)' % (
            expr_text, sizes[0], uid, gid, got, want, r['status'], r['stderr'][:120])
    return rep


def fam_tree(sess):
    prog = sess.prog
    fam = 'tree'
    maxn = 5 if sess.tier == 'quick' else 7
    sess.bounds[fam] = {'tokens': '1..%d' % maxn, 'alphabet': ALPHA}
    ex = sess.executor(P.table_overrides(), unwind=maxn + 4)
    parse_expr = prog.find('Parser', 'parse_expr')
    F = E.struct_fields(prog, 'Parser')
    seen = {}
    st = {'paths': 0, 'ok': 0}
    for n in range(1, maxn + 1):
        def run(ctx, n=n):
            lex = []; tv = []
            for i in range(n):
                l, t = P.sym_lexem(ctx, prog, ALPHA, 't%d' % i)
                lex.append(l); tv.append(t)
            parser = P.mk_parser(prog, lex, roots_parsed=False)
            res = ctx.call_fn(parse_expr, [Ref(Cell(parser))])
            return tv, res, conc(parser.f[F.index('index')])

        def on_path(ctx, out, n=n):
            st['paths'] += 1
            if out[0] in ('panic', 'end'):
                return
            if out[0] != 'ret':
                st['bad'] = True; sess.inconclusive('tree n=%d' % n, str(out), fam); return
            tv, res, idx = out[1]
            block = []
            for _ in range(64):
                m = ctx.model(*block)
                if m is None:
                    break
                toks = [ALPHA[m.eval(t, model_completion=True).as_long()] for t in tv]
                block.append(Or([t != m.eval(t, model_completion=True) for t in tv]))
                try:
                    ref = textbook(toks)
                except Bad:
                    continue
                key = tuple(toks)
                d = res.d if isinstance(res.d, int) else conc(res.d)
                if d != 0 or idx != n:
                    seen[key] = ('viol', 'a well-formed expression is rejected or not consumed (index %s)' % idx, ref)
                    continue
                opt = res.p[0][0]
                if conc(opt.d) != 1:
                    seen[key] = ('viol', 'parsed to nothing', ref); continue
                got = expr_to_ast(ctx, prog, opt.p[1][0])
                if got == ref:
                    seen.setdefault(key, ('ok', '', ref)); st['ok'] += 1
                else:
                    seen[key] = ('viol', 'parsed as %s, textbook %s' % (show(got), show(ref)), ref)
        ex.explore(run, on_path, time_budget=480 if sess.tier == 'quick' else 1500)
    bad = {k: v for k, v in seen.items() if v[0] == 'viol'}
    shapes = {}
    for k, v in bad.items():
        shape = ' '.join('c' if t in COLS else t for t in k)
        if len(shapes) < 12:
            shapes.setdefault(shape, (k, v))
    for shape, (k, v) in shapes.items():
        has_neg = 'neg' in repr(v[2])
        role = 'tree/' + ('unary-minus' if has_neg else shape)
        sess.violated('tree: ' + ' '.join(k), role, v[1], {'tokens': list(k)}, cli_value_replay(' '.join(k), v[2]), fam)
    if not bad and not st.get('bad'):
        sess.discharged('tree: %d well-formed expressions (<= %d tokens) parse to the textbook tree' % (st['ok'], maxn), family=fam, queries=max(1, st['ok']))
    sess.sample({'family': fam, 'examples': [' '.join(k) for k in list(seen)[:6]], 'paths': st['paths']})


def fam_calc(sess):
    prog = sess.prog
    fam = 'calc'
    ex = sess.executor(unwind=6)
    calc = prog.find('ArithmeticOp', 'calc')
    RNE = z3.RNE(); F64 = z3.Float64()
    for opname in OPSYM:
        for lk, rk in (('float', 'float'), ('int', 'int')):
            box = {}

            def run(ctx, opname=opname, lk=lk, rk=rk):
                def operand(kind, tag):
                    if kind == 'float':
                        x = ctx.fresh(tag, F64)
                        ctx.assume(Not(z3.fpIsNaN(x)))
                        return E.mk_variant(prog, 'Float', float_value=some(x), int_value=some(ctx.cast(x, 'i64', 'FloatToInt', 'f64'))), x
                    i = ctx.fresh_bv(tag, 64)
                    ctx.assume(And(i >= -(1 << 40), i <= (1 << 40)))
                    return E.mk_variant(prog, 'Int', int_value=some(i), float_value=some(z3.fpToFP(RNE, i, F64))), z3.fpToFP(RNE, i, F64)
                L, lf = operand(lk, 'l'); R, rf = operand(rk, 'r')
                op = EnumV(prog.src.variant_index('ArithmeticOp', opname), {}, 'ArithmeticOp')
                res = ctx.call_fn(calc, [Ref(Cell(op)), Ref(Cell(L)), Ref(Cell(R))])
                return lf, rf, res

            def on_path(ctx, out, opname=opname, lk=lk):
                name = 'calc %s (%s operands)' % (opname, lk)
                Fv = E.struct_fields(prog, 'Variant')
                if out[0] == 'panic':
                    if not box.get('viol'):
                        box['viol'] = True
                        sym = OPSYM[opname]
                        sess.violated(name, 'calc/panic/' + opname, out[1][:160], {'op': opname},
                                      cli_crash_replay(['size %s 0' % sym, 'size %s name' % sym, 'size %s -2' % sym, 'size %s 0.5' % sym]), fam)
                    return
                if out[0] != 'ret':
                    box['bad'] = True; sess.inconclusive(name, str(out), fam); return
                lf, rf, res = out[1]
                box['paths'] = box.get('paths', 0) + 1
                fv = res.f[Fv.index('float_value')]
                got = fv.p[1][0] if conc(fv.d) == 1 else None
                if got is None:
                    box['viol'] = True
                    sess.violated(name, 'calc/' + opname, 'the result carries no number', {}, None, fam); return
                want = {'Add': lambda: z3.fpAdd(RNE, lf, rf), 'Subtract': lambda: z3.fpSub(RNE, lf, rf), 'Multiply': lambda: z3.fpMul(RNE, lf, rf),
                        'Divide': lambda: z3.fpDiv(RNE, lf, rf), 'Modulo': lambda: ctx.fp_rem(lf, rf)}[opname]()
                if z3.simplify(got).eq(z3.simplify(want)) or got.eq(want):
                    return
                r = ctx.check(Not(Or(z3.fpEQ(got, want), And(z3.fpIsNaN(got), z3.fpIsNaN(want)))))
                if r == z3.unsat:
                    return
                if box.get('viol'):
                    return
                box['viol'] = True
                sym = OPSYM[opname]
                battery = [('9 / 2 %s 2' % sym, None), ('7 %s ( 5 / 2 )' % sym, None), ('size %s 5' % sym, None), ('( size / 8 ) %s 3' % sym, None)]
                sess.violated(name, 'calc/' + opname, 'the result is not the IEEE %s of the operands' % opname.lower(), {'op': opname},
                              cli_battery_replay([b[0] for b in battery]), fam)
            ex.explore(run, on_path)
            if not box.get('viol') and not box.get('bad'):
                sess.discharged('calc %s on %s operands = IEEE double %s; no panic' % (opname, lk, OPSYM[opname]), family=fam, queries=box.get('paths', 1))


def cli_crash_replay(exprs):
    def rep():
        exe = common.native_binary()
        for e in exprs:
            r = common.run_cli(exe, [e, 'from', '.'], {'f': {'size': 12}}, timeout=5)
            if r['timed_out'] or r['status'] not in (0, 1, 2):
                return True, 'select %s -> status %s %s' % (e, r['status'], r['stderr'].strip()[:160])
        return False, 'no crash for %r' % (exprs,)
    return rep


def cli_battery_replay(exprs):
    def rep():
        import math
        exe = common.native_binary()
        for e in exprs:
            r = common.run_cli(exe, [e, 'from', '.'], {'f': {'size': 12}}, timeout=5)
            got = r['stdout'].strip()
            py = e.replace('size', '12.0')
            try:
                want = eval(py.replace('%', ' % '), {'__builtins__': {}}, {})
                want = math.fmod(*[float(x) for x in []]) if False else want
            except Exception:
                continue
            # python % is floored, Rust % is truncated: operands here are positive
            try:
                okv = abs(float(got) - want) < 1e-9 * max(1.0, abs(want))
            except ValueError:
                okv = False
            if not okv:
                return True, 'select %s over a 12-byte file -> %r ; arithmetic value %r' % (e, got, want)
        return False, 'all of %r evaluate correctly' % (exprs,)
    return rep


def exprs_for_cache(prog):
    fe = lambda c: E.expr_field(prog, COLF[c])
    val = lambda s: E.expr_value(prog, s)
    ao = lambda n: EnumV(prog.src.variant_index('ArithmeticOp', n), {}, 'ArithmeticOp')
    fn = lambda n: EnumV(prog.src.variant_index('Function', n), {}, 'Function')
    def arith(l, op, r):
        return E.mk_expr(prog, left=some(BoxV(l)), arithmetic_op=some(ao(op), 'Option'), right=some(BoxV(r)))
    return {
        'size + 1': lambda: arith(fe('size'), 'Add', val('1')),
        'size - 1': lambda: arith(fe('size'), 'Subtract', val('1')),
        'size * 1': lambda: arith(fe('size'), 'Multiply', val('1')),
        '1 + size': lambda: arith(val('1'), 'Add', fe('size')),
        'size + uid': lambda: arith(fe('size'), 'Add', fe('uid')),
        'size': lambda: fe('size'),
        '(size + 1) * 2': lambda: arith(arith(fe('size'), 'Add', val('1')), 'Multiply', val('2')),
        'size + 1 * 2': lambda: arith(fe('size'), 'Add', arith(val('1'), 'Multiply', val('2'))),
        # the same operator twice, differing only in bracket placement
        'size - (uid - 1)': lambda: arith(fe('size'), 'Subtract', arith(fe('uid'), 'Subtract', val('1'))),
        'size - uid - 1': lambda: arith(arith(fe('size'), 'Subtract', fe('uid')), 'Subtract', val('1')),
        # a negated function call that occurs in two columns
        '-length(name) + 1': lambda: arith(E.mk_expr(prog, function=some(fn('Length')), left=some(BoxV(E.expr_field(prog, 'Name'))), args=some(Seq([])), minus=BoolVal(True)), 'Add', val('1')),
        '-length(name) + 2': lambda: arith(E.mk_expr(prog, function=some(fn('Length')), left=some(BoxV(E.expr_field(prog, 'Name'))), args=some(Seq([])), minus=BoolVal(True)), 'Add', val('2')),
    }


def fam_cache(sess):
    prog = sess.prog
    fam = 'cache'
    ex = sess.executor([E.GFV_OVERRIDE], unwind=8, solver_timeout_ms=10000)
    gcev = prog.find('Searcher', 'get_column_expr_value')
    exprs = exprs_for_cache(prog)
    names = list(exprs)
    pairs = [(a, b) for a in names for b in names if a != b]
    if sess.tier == 'quick':
        special = ('size - (uid - 1)', 'size - uid - 1', '-length(name) + 1', '-length(name) + 2')
        pairs = [p for p in pairs if (p[0] in ('size + 1', 'size', '(size + 1) * 2') or p[1] in ('size + 1',)) and p[0] not in special and p[1] not in special] + [
            ('size - (uid - 1)', 'size - uid - 1'), ('size - uid - 1', 'size - (uid - 1)'), ('-length(name) + 1', '-length(name) + 2')]
    sess.bounds[fam] = {'expressions': names, 'pairs': len(pairs), 'columns': '16-bit symbolic integers'}
    viol_roles = {}
    npaths = [0]
    for first, second in pairs:
        def run(ctx, first=first, second=second):
            sz = ctx.fresh_bv('size', 64); uid = ctx.fresh_bv('uid', 64)
            ctx.assume(ULT(sz, BitVecVal(1 << 16, 64))); ctx.assume(ULT(uid, BitVecVal(1 << 16, 64)))
            ctx.ghost['fields'] = {'Size': E.mk_variant(prog, 'Int', int_value=some(sz), float_value=some(z3.fpToFP(z3.RNE(), sz, z3.Float64())), string_value=NumStr(sz, True)),
                                   'Uid': E.mk_variant(prog, 'Int', int_value=some(uid), float_value=some(z3.fpToFP(z3.RNE(), uid, z3.Float64())), string_value=NumStr(uid, True)),
                                   'Name': E.mk_variant(prog, 'String', string_value=Str('abcd'))}
            s = E.mk_searcher(prog)
            sref = Ref(Cell(s))

            def ev(e, fm):
                return ctx.call_fn(gcev, [sref, some(Ref(Cell('DIRENTRY'))), Ref(Cell(none())), Ref(Cell(fm)), none(), Ref(Cell(e))])
            fm = Map('HashMap')
            ev(exprs[first](), fm)
            v_after = ev(exprs[second](), fm)
            v_alone = ev(exprs[second](), Map('HashMap'))
            return v_after, v_alone, sz, uid

        def on_path(ctx, out, first=first, second=second):
            npaths[0] += 1
            name = 'cache: %s after %s' % (second, first)
            if out[0] != 'ret':
                if out[0] == 'panic':
                    sess.violated(name, 'cache/panic', out[1][:160], {}, None, fam)
                else:
                    sess.inconclusive(name, str(out), fam); viol_roles['bad'] = True
                return
            a, b, sz, uid = out[1]
            Fv = E.struct_fields(prog, 'Variant')

            def num(v):
                fv = v.f[Fv.index('float_value')]
                if conc(fv.d) == 1:
                    return fv.p[1][0]
                sv = v.f[Fv.index('string_value')]
                if isinstance(sv, FloatStr):
                    return sv.fp
                if isinstance(sv, NumStr):
                    return z3.fpToFP(z3.RNE(), sv.bv, z3.Float64())
                if isinstance(sv, Str) and sv.s is not None:
                    try:
                        return z3.FPVal(float(sv.s), z3.Float64())
                    except ValueError:
                        return None
                return None
            x, y = num(a), num(b)
            if x is None or y is None:
                sess.inconclusive(name, 'no numeric value: %r / %r' % (a, b), fam); viol_roles['bad'] = True; return
            if x.eq(y) or z3.simplify(x).eq(z3.simplify(y)):
                return
            r = ctx.check(Not(z3.fpEQ(x, y)))
            if r == z3.unsat:
                return
            role = 'cache/collision'
            if viol_roles.get(role):
                return
            viol_roles[role] = True

            def rep(first=first, second=second):
                exe = common.native_binary()
                tree = {'f': {'size': 12}}
                r1 = common.run_cli(exe, ['%s, %s' % (first, second), 'from', '.'], tree)
                r2 = common.run_cli(exe, [second, 'from', '.'], tree)
                both = r1['stdout'].strip().split('\t'); alone = r2['stdout'].strip()
                bad = len(both) != 2 or both[1] != alone
                return bad, 'select %s, %s -> %r ; select %s alone -> %r' % (first, second, both, second, alone)
            sess.violated(name, role, 'the value of `%s` depends on `%s` having been evaluated before it' % (second, first), {'first': first, 'second': second}, rep, fam)
        ex.explore(run, on_path)
    if not viol_roles:
        sess.discharged('cache: %d ordered pairs of expressions: the value of the second does not depend on the first' % len(pairs), family=fam, queries=npaths[0])


def fam_cache_literals(sess):
    """the same question as `cache` for TEXT-valued columns whose key texts could coincide: a quoted literal that spells a column,
    a function of a literal vs. the same function of the column, one literal containing the argument separator vs. two literals"""
    prog = sess.prog
    fam = 'cache_literals'
    ex = sess.executor([E.GFV_OVERRIDE], unwind=12)
    gcev = prog.find('Searcher', 'get_column_expr_value')
    fe = lambda c: E.expr_field(prog, c)
    val = lambda t: E.expr_value(prog, t)
    fn = lambda n: EnumV(prog.src.variant_index('Function', n), {}, 'Function')
    call = lambda f, left, *args: E.mk_expr(prog, function=some(fn(f)), left=some(BoxV(left)), args=some(Seq(list(args))))
    exprs = {"name": lambda: fe('Name'), "'Name'": lambda: val('Name'), "upper(name)": lambda: call('Upper', fe('Name')), "upper('Name')": lambda: call('Upper', val('Name')),
             "concat('a, b')": lambda: call('Concat', val('a, b')), "concat('a', 'b')": lambda: call('Concat', val('a'), val('b')),
             "size": lambda: fe('Size'), "length('Size')": lambda: call('Length', val('Size')), "'Size'": lambda: val('Size')}
    pairs = [("name", "'Name'"), ("name", "upper('Name')"), ("upper(name)", "upper('Name')"), ("upper('Name')", "upper(name)"), ("concat('a, b')", "concat('a', 'b')"),
             ("concat('a', 'b')", "concat('a, b')"), ("size", "length('Size')"), ("size", "'Size'")]
    sess.bounds[fam] = {'pairs': ['%s ; %s' % p for p in pairs], 'name': 'abcd', 'size': 12}
    roles = {}
    npaths = [0]
    for first, second in pairs:
        def run(ctx, first=first, second=second):
            ctx.ghost['fields'] = {'Size': E.mk_variant(prog, 'Int', int_value=some(BitVecVal(12, 64)), string_value=Str('12')), 'Name': E.mk_variant(prog, 'String', string_value=Str('abcd'))}
            sref = Ref(Cell(E.mk_searcher(prog)))

            def ev(e, fm):
                return ctx.call_fn(gcev, [sref, some(Ref(Cell('DIRENTRY'))), Ref(Cell(none())), Ref(Cell(fm)), none(), Ref(Cell(e))])
            fm = Map('HashMap')
            ev(exprs[first](), fm)
            return ev(exprs[second](), fm), ev(exprs[second](), Map('HashMap'))

        def on_path(ctx, out, first=first, second=second):
            npaths[0] += 1
            name = 'cache_literals: %s after %s' % (second, first)
            if out[0] != 'ret':
                sess.inconclusive(name, str(out)[:300], fam); roles['bad'] = True; return
            Fv = E.struct_fields(prog, 'Variant')
            a, b = [v.f[Fv.index('string_value')] for v in out[1]]
            if isinstance(a, Str) and isinstance(b, Str) and a.s is not None and a.s == b.s:
                return
            role = 'cache/collision/' + ('literal-spells-column' if 'Name' in first + second or 'Size' in first + second else 'literal-with-separator')
            if roles.get(role):
                return
            roles[role] = True

            def rep(first=first, second=second):
                exe = common.native_binary()
                tree = {'abcd': {'size': 12}}
                r1 = common.run_cli(exe, ['%s, %s from .' % (first, second)], tree)
                both = r1['stdout'].rstrip('\n').split('\t')
                alone = [common.run_cli(exe, ['%s from .' % e], tree)['stdout'].rstrip('\n') for e in (first, second)]
                return both != alone, 'select %s, %s -> %r ; each of them alone -> %r' % (first, second, both, alone)
            sess.violated(name, role, 'the value of `%s` is %r after `%s` and %r alone' % (second, a, first, b), {'first': first, 'second': second}, rep, fam)
        ex.explore(run, on_path)
    if not roles:
        sess.discharged('cache_literals: %d ordered pairs: a literal never reads a column\'s cached value, literals with separators stay distinct' % len(pairs), family=fam, queries=npaths[0])


def fam_minus(sess):
    prog = sess.prog
    fam = 'minus'
    ex = sess.executor([E.GFV_OVERRIDE], unwind=8)
    gcev = prog.find('Searcher', 'get_column_expr_value')
    for label in ('literal', 'column'):
        box = {}

        def run(ctx, label=label):
            sz = ctx.fresh_bv('size', 64); ctx.assume(ULT(sz, BitVecVal(1 << 16, 64)))
            ctx.assume(sz != 0)
            ctx.ghost['fields'] = {'Size': E.mk_variant(prog, 'Int', int_value=some(sz), float_value=some(z3.fpToFP(z3.RNE(), sz, z3.Float64())), string_value=NumStr(sz, True))}
            if label == 'literal':
                e = E.expr_value(prog, NumStr(sz, False), minus=True)
            else:
                e = E.expr_field(prog, 'Size'); e.f[E.struct_fields(prog, 'Expr').index('minus')] = BoolVal(True)
            v = ctx.call_fn(gcev, [Ref(Cell(E.mk_searcher(prog))), some(Ref(Cell('DIRENTRY'))), Ref(Cell(none())), Ref(Cell(Map('HashMap'))), none(), Ref(Cell(e))])
            to_float = prog.find('Variant', 'to_float')
            f = ctx.call_fn(to_float, [Ref(Cell(v))])
            return sz, f

        def on_path(ctx, out, label=label):
            name = 'minus: -<%s>' % label
            if out[0] != 'ret':
                box['bad'] = True; sess.inconclusive(name, str(out), fam); return
            sz, f = out[1]
            want = z3.fpNeg(z3.fpToFP(z3.RNE(), sz, z3.Float64()))
            r = ctx.check(Not(z3.fpEQ(f, want)))
            if r == z3.unsat:
                return
            if box.get('viol'):
                return
            box['viol'] = True

            def rep(label=label):
                exe = common.native_binary()
                q = '-size' if label == 'column' else '-12'
                r_ = common.run_cli(exe, ['0 + %s' % q, 'from', '.'], {'f': {'size': 12}})
                got = r_['stdout'].strip()
                return got != '-12', 'select 0 + %s over a 12-byte file -> %r, expected -12' % (q, got)
            sess.violated(name, 'minus/' + label, 'a leading minus does not negate a %s' % label, {}, rep, fam)
        ex.explore(run, on_path)
        if not box.get('viol') and not box.get('bad'):
            sess.discharged('minus: -<%s> evaluates to the negated value' % label, family=fam)


def main(sess):
    sess.engines = ['mirsym (MIR symbolic execution) + z3']
    sess.assumptions += [
        'the lexer decides which characters are operators (outside; C11); get_field_value summarised as symbolic integers per column',
        'f64 % is fmod; operands of calc are non-NaN',
    ]
    only = getattr(sess, 'only', None)
    for name, f in (('tree', fam_tree), ('calc', fam_calc), ('cache', fam_cache), ('cache_literals', fam_cache_literals), ('minus', fam_minus)):
        if not only or name in only:
            f(sess)

    if not only or 'e2e' in only:
        from drivers import e2e
        e2e.family_for(sess, 'C15', quick_n=4)
