"""C18 (outside) — the same walker and link model as c18.py, with the SEARCH ROOT AN INNER NODE of the abstract file system:
node 0 is /abs (the root's parent directory), node 1 is /abs/R0 (the search root, a directory); the other nodes live anywhere below
node 0 — inside the root or beside it. Links can therefore lead above the root, to directories outside it, and through chains whose
intermediate link lies outside; rows from outside appear exactly when a reported link (chain) leads there.

Original header: C18 — following symlinks finds what is behind them, once, and always terminates.

The real walker (exec_search -> list_search_results -> visit_dir -> ok_to_visit_dir) runs from MIR with the `symlinks`
root option over an abstract file system with symbolic links: every non-root node may be a link whose target is any
node (or dangling), spelled absolutely or relative to the link's own directory; the root is given as an absolute path or
as `.` (cwd = root).  Path *spellings* are modelled (visited_dirs compares spellings, the OS resolves a relative spelling
against the cwd), inodes are per node (visited_inodes holds the inode of the entry itself)."""
import os
import z3
from z3 import BitVecVal, BoolVal, Not, And, Or, If, ULT, ULE, UGE
from mirsym.core import conc, Unmodelled, ok, err, UNIT
from drivers import evalcore as E, walker as W
from drivers.walker import PathV, CanonStr, IoError, FILE, DIR, LINK
import common


class LinkFS(W.FS):
    """adds spelling-aware resolution on top of the base abstract file system"""

    def __init__(self, ctx, M, root_is_dot):
        W.FS.__init__(self, ctx, M, roots=1, kinds=(FILE, DIR, LINK), follow=True)
        self.root_is_dot = root_is_dot
        # node 0 = /abs (never searched itself), node 1 = /abs/R0 = the search root
        ctx.assume(And(self.parent[1] == BitVecVal(0, 8), self.isdir(1)))
        self.known_parent[1] = 0; self.rel_depth[1] = 1; self.root_of[1] = 0
        self.text[0] = '/abs'
        self.text[1] = '.' if root_is_dot else '/abs/R0'
        self.canon = {0: '/abs', 1: '/abs/R0'}
        self.to_up = [BoolVal(False)] * M

    def chain(self, ctx, i):
        """decide the real parent chain of node i; -> canonical text"""
        if i in self.canon:
            return self.canon[i]
        if i not in self.known_parent:
            d = ctx.concretize(self.parent[i], range(i))
            self.known_parent[i] = d
        d = self.known_parent[i]
        pc = self.chain(ctx, d)
        self.rel_depth[i] = self.rel_depth[d] + 1
        self.root_of[i] = 0
        self.text.setdefault(i, pc + '/n%d' % i)
        self.canon[i] = pc + '/n%d' % i
        return self.canon[i]

    def real_depth(self, ctx, i):
        return self.chain(ctx, i).count('/') - '/abs'.count('/')

    def children(self, ctx, d):
        out = W.FS.children(self, ctx, d)
        if d == 0 and 1 not in out:
            out = [1] + out
        for c in out:
            self.canon.setdefault(c, self.chain(ctx, d) + '/n%d' % c)
        return out

    def node_by_canon(self, ctx, text):
        """which node has this canonical text (deciding parent relations as needed); None if no such node"""
        if text == '/abs':
            return 0
        if text == '/abs/R0':
            return 1
        if not text.startswith('/abs/'):
            return None
        comps = text[len('/abs/'):].split('/')
        cur = 0
        if comps and comps[0] == 'R0':
            cur = 1; comps = comps[1:]
        for c in comps:
            if not c.startswith('n') or not c[1:].isdigit():
                return None
            i = int(c[1:])
            if i >= self.M or i <= 1:
                return None
            if i in self.known_parent:
                if self.known_parent[i] != cur:
                    return None
            else:
                if i <= cur or not ctx.decide(self.parent[i] == BitVecVal(cur, 8)):
                    return None
                self.known_parent[i] = cur
                self.canon[i] = self.canon[cur] + '/n%d' % i
                self.rel_depth[i] = self.rel_depth[cur] + 1
                self.root_of[i] = 0
                self.text.setdefault(i, self.canon[i])
            cur = i
        return cur

    def resolve_text(self, ctx, text):
        """OS resolution of a path text produced by read_link: absolute canonical text, or relative (against the cwd)"""
        if text.startswith('/'):
            return self.node_by_canon(ctx, os.path.normpath(text))
        cwd = '/abs/R0' if self.root_is_dot else '/abs'
        return self.node_by_canon(ctx, os.path.normpath(cwd + '/' + text))

    def final(self, ctx, n):
        """follow links at the final component (opendir / canonicalize semantics); None = dangling / loop"""
        for _ in range(self.M + 1):
            if n is None:
                return None
            if n in (0, 1) or not ctx.decide(self.islink(n)):
                return n
            t = ctx.concretize(self.target[n], range(self.M + 1))
            n = None if t == self.M else t
        return None


def link_models():
    base = W.models()
    out = []

    def reg(pat, name):
        def deco(f):
            out.append((pat, f, name)); return f
        return deco

    @reg(r'^(std::path::)?Path::new$', 'fs:path_new(link-aware)')
    def path_new(ctx, args, callee):
        from mirsym.core import Ref, Cell
        v = ctx.deref(args[0])
        if isinstance(v, PathV):
            return Ref(Cell(v))
        fs = W.fs_of(ctx)
        t = v.s
        if t == fs.text[1]:
            return Ref(Cell(PathV(1, t)))
        return Ref(Cell(PathV(None, t)))

    @reg(r'(^|::)canonical_path$', 'fs:canonical_path(link-aware)')
    def canonical_path(ctx, args, callee):
        fs = W.fs_of(ctx)
        p = W.as_path(ctx, args[0])
        n = fs.final(ctx, p.node)
        if n is None:
            ctx.ghost.setdefault('faulted', []).append(('canon', p.text))
            return err(W.Str('No such file or directory'))
        fs.chain(ctx, n)
        return ok(CanonStr(n, fs.rootdepth[0] + BitVecVal(fs.real_depth(ctx, n), 32)))

    @reg(r'^(std::fs::)?read_dir$|^(std::path::)?Path::read_dir$', 'fs:read_dir(link-aware)')
    def read_dir(ctx, args, callee):
        from mirsym.models_std import ListIter
        fs = W.fs_of(ctx)
        p = W.as_path(ctx, args[0])
        n = fs.final(ctx, p.node)
        if n is None:
            ctx.ghost.setdefault('faulted', []).append(('read_dir', p.text))
            return err(IoError('not found'))
        if not ctx.decide(fs.isdir(n)):
            ctx.ghost.setdefault('faulted', []).append(('notdir', p.text))
            return err(IoError('not a directory'))
        kids = fs.children(ctx, n)
        ctx.ghost.setdefault('listed', []).append((p.text, n))
        ents = []
        for c in kids:
            e_text = p.text + ('/R0' if c == 1 else '/n%d' % c)
            ents.append(ok(EntryT(c, e_text)))
        return ok(ListIter(ents))

    @reg(r'^DirEntry::path$|^(std::fs::)?DirEntry::path$', 'fs:entry_path(link-aware)')
    def entry_path(ctx, args, callee):
        e = ctx.deref(args[0])
        return PathV(e.node, e.text)

    @reg(r'^(std::fs::)?read_link$', 'fs:read_link(link-aware)')
    def read_link(ctx, args, callee):
        fs = W.fs_of(ctx)
        p = W.as_path(ctx, args[0])
        L = p.node
        t = ctx.concretize(fs.target[L], range(fs.M + 1))
        if t == fs.M:
            text = '/abs/dangling-%d' % L
            return ok(PathV(None, text, via_link=L))
        tcanon = fs.chain(ctx, t)
        if ctx.decide(fs.relative[L]):
            dcanon = os.path.dirname(fs.chain(ctx, L))
            text = os.path.relpath(tcanon, dcanon)
        else:
            text = tcanon
        node = fs.resolve_text(ctx, text)
        return ok(PathV(node, text, via_link=L))

    @reg(r'^(std::fs::)?symlink_metadata$|^(std::path::)?Path::metadata$|^(std::fs::)?metadata$', 'fs:metadata(link-aware)')
    def metadata(ctx, args, callee):
        fs = W.fs_of(ctx)
        p = W.as_path(ctx, args[0])
        n = p.node if 'symlink_metadata' in callee else fs.final(ctx, p.node)
        if n is None:
            return err(IoError('not found'))
        return ok(W.EntryV(n))

    @reg(r'^(std::fs::)?Metadata::(is_dir|is_file|is_symlink)$', 'fs:Metadata::is_dir / is_file / is_symlink (of the node the metadata was taken from)')
    def meta_is(ctx, args, callee):
        fs = W.fs_of(ctx)
        e = ctx.deref(args[0])
        k = callee.rsplit('::', 1)[1]
        if e.node in (0, 1):
            return BoolVal(k == 'is_dir')
        return fs.kind[e.node] == BitVecVal({'is_dir': DIR, 'is_file': FILE, 'is_symlink': LINK}[k], 8)

    return out + base


class EntryT(W.EntryV):
    __slots__ = ('text',)

    def __init__(self, node, text):
        W.EntryV.__init__(self, node)
        self.text = text


def run_family(sess, M, dot, dfs, fam, focus=None):
    prog = sess.prog
    ex = sess.executor(link_models(), unwind=3 * M + 6, maxsteps=800000)
    viol = {}; st = {'paths': 0}

    def runp(ctx):
        fs = LinkFS(ctx, M, dot)
        ctx.ghost['fs'] = fs
        ctx.ghost['follow'] = True
        ctx.ghost['match_all'] = BoolVal(True)

        def join_hook(ctx, a, b):
            pn = fs.final(ctx, a.node)
            text = a.text + '/' + b.text
            if b.text.startswith('/'):
                return PathV(fs.resolve_text(ctx, b.text), b.text, b.via_link)
            if pn is None:
                return PathV(None, text, b.via_link)
            node = fs.node_by_canon(ctx, os.path.normpath(fs.chain(ctx, pn) + '/' + b.text))
            return PathV(node, text, b.via_link)

        def is_dir_hook(ctx, p, callee):
            n = fs.final(ctx, p.node)
            if n is None:
                return BoolVal(False)
            return BoolVal(True) if 'exists' in callee else fs.isdir(n)
        ctx.ghost['join_hook'] = join_hook
        ctx.ghost['is_dir_hook'] = is_dir_hook
        # a link can only point at something that exists (all ancestors directories), never at itself; chains of at most two links
        _d, real, _r = fs.terms()
        for i in range(2, M):
            ctx.assume(Or(Not(fs.islink(i)), fs.target[i] != i))
            for t in range(2, M):
                ctx.assume(Or(Not(fs.islink(i)), fs.target[i] != t, real[t]))
                for u in range(2, M):
                    ctx.assume(Or(Not(fs.islink(i)), fs.target[i] != t, Not(fs.islink(t)), fs.target[t] != u, Not(fs.islink(u))))
        if focus == 'chain':
            # a focused six-node scenario: a link inside the root, a link and a directory outside it, something inside that directory
            ctx.assume(And(fs.parent[2] == 1, fs.islink(2), fs.parent[3] == 0, fs.islink(3), fs.parent[4] == 0, fs.isdir(4), fs.parent[5] == 4, Not(fs.islink(5))))
        roots = [W.mk_root(prog, fs.text[1], BitVecVal(0, 32), BitVecVal(0, 32), dfs, symlinks=BoolVal(True))]
        q = W.mk_query(prog, roots, BitVecVal(0, 32), ordered=False)
        status = W.run_exec_search(ctx, prog, q)
        return fs, status

    def on_path(ctx, out):
        st['paths'] += 1
        name = '%s M=%d' % (fam, M)
        if out[0] == 'end' and 'UNWIND' in out[1]:
            if not viol.get('links/nontermination'):
                viol['links/nontermination'] = True
                sess.violated(name, 'outside/nontermination', 'the walk does not terminate within the bound: ' + out[1], {}, None, fam)
            return
        if out[0] == 'panic':
            if not viol.get('panic'):
                viol['panic'] = True
                sess.violated(name, 'outside/panic', out[1][:200], {}, cli_replay(ctx.ghost['fs'], ctx.model(), dot, dfs), fam)
            return
        if out[0] != 'ret':
            st['bad'] = True; sess.inconclusive(name, str(out), fam); return
        fs, status = out[1]
        trace = [n for n, mem in ctx.ghost.get('trace', [])]

        def leads_to(l, d):
            one = fs.target[l] == BitVecVal(d, 8)
            two = Or([And(fs.target[l] == BitVecVal(t, 8), fs.islink(t), fs.target[t] == BitVecVal(d, 8)) for t in range(2, M) if t not in (l, d)] or [BoolVal(False)])
            return Or(one, two)
        # specification: listed(d) = least fixed point; the search root (node 1) is listed; node 0 (/abs) only through a link
        listed = [BoolVal(i == 1) for i in range(M)]
        for _ in range(M + 1):
            rep = [BoolVal(False)] * M
            for i in range(1, M):
                rep[i] = Or([And(fs.parent[i] == BitVecVal(c, 8), listed[c]) for c in range(i)])
            new = [BoolVal(i == 1) for i in range(M)]
            for d in range(M):
                if d == 1:
                    continue
                via_entry = And(rep[d], fs.isdir(d)) if d >= 2 else BoolVal(False)
                via_link = Or([And(rep[l], fs.islink(l), leads_to(l, d), fs.isdir(d) if d >= 2 else BoolVal(True)) for l in range(2, M) if l != d] or [BoolVal(False)])
                new[d] = Or(via_entry, via_link)
            listed = new
        reported = [BoolVal(False)] * M
        for i in range(1, M):
            reported[i] = Or([And(fs.parent[i] == BitVecVal(c, 8), listed[c]) for c in range(i)])
        cnt = {}
        for n in trace:
            cnt[n] = cnt.get(n, 0) + 1
        conds_rows = [If(reported[i], BitVecVal(1, 8), BitVecVal(0, 8)) == BitVecVal(cnt.get(i, 0), 8) for i in range(1, M)]
        conds_rows.append(BoolVal(cnt.get(0, 0) == 0))
        for label, cs in (('rows', conds_rows), ('status', [status == 0])):
            r = ctx.check(Not(And(cs)))
            if r == z3.unsat:
                continue
            if r != z3.sat:
                st['bad'] = True; sess.inconclusive(name, 'solver unknown', fam); continue
            m = None
            for k in (1, 2):
                m = ctx.model(Not(And(cs)), z3.Sum([If(fs.islink(i), 1, 0) for i in range(2, M)]) <= k)
                if m is not None:
                    break
            if m is None:
                m = ctx.model(Not(And(cs)))
            dup = any(v > 1 for v in cnt.values())
            par = {i: m.eval(fs.parent[i], model_completion=True).as_long() for i in range(2, M)}
            outside = any(z3.is_true(m.eval(fs.islink(l), model_completion=True)) and (lambda t: t == 0 or (t < M and t >= 2 and _outside(par, t)))(m.eval(fs.target[l], model_completion=True).as_long()) for l in range(2, M))
            role = 'outside/%s/%s%s' % (label, 'to-outside' if outside else 'inside', '/duplicates' if dup and label == 'rows' else '')
            if viol.get(role):
                continue
            viol[role] = True
            sess.violated(name, role, 'reported %r, status %s, faults %r' % (trace, m.eval(status, model_completion=True), ctx.ghost.get('faulted')),
                          {'trace': trace}, cli_replay(fs, m, dot, dfs), fam)

    n, complete = ex.explore(runp, on_path, time_budget=(600 if sess.tier == 'quick' else 2400))
    if not complete:
        sess.inconclusive('%s M=%d' % (fam, M), 'time budget exceeded after %d paths' % n, fam)
    elif not viol and not st.get('bad'):
        sess.discharged('%s: %d nodes (search root an inner node): terminates, rows from outside exactly through reported links, every real directory once, status 0' % (fam, M),
                        family=fam, queries=st['paths'])


def _outside(par, t):
    while t >= 2:
        t = par[t]
    return t == 0


def cli_replay(fs, m, dot, dfs):
    def rep():
        exe = common.native_binary()
        M = fs.M
        par = {1: 0}; kind = {1: DIR}
        for i in range(2, M):
            par[i] = m.eval(fs.parent[i], model_completion=True).as_long()
            kind[i] = m.eval(fs.kind[i], model_completion=True).as_long()
        tgt = {i: m.eval(fs.target[i], model_completion=True).as_long() for i in range(2, M)}
        rel = {i: z3.is_true(m.eval(fs.relative[i], model_completion=True)) for i in range(2, M)}
        path = {0: '', 1: 'R0'}
        usable = {0: True, 1: True}
        for i in range(2, M):
            path[i] = (path[par[i]] + '/' if path[par[i]] else '') + 'n%d' % i
            usable[i] = usable[par[i]] and (par[i] in (0, 1) or kind[par[i]] == DIR)
        import tempfile, shutil, subprocess
        d = os.path.realpath(tempfile.mkdtemp(prefix='verif-c18o-', dir=common.SCRATCH_ROOT))
        try:
            os.makedirs(os.path.join(d, 'R0'))
            for i in range(2, M):
                if usable[i]:
                    p = os.path.join(d, path[i])
                    if kind[i] == DIR:
                        os.makedirs(p, exist_ok=True)
                    elif kind[i] == FILE:
                        open(p, 'w').write('x')
            for i in range(2, M):
                if usable[i] and kind[i] == LINK:
                    p = os.path.join(d, path[i])
                    if tgt[i] == M or not usable.get(tgt[i], False):
                        t = os.path.join(d, 'dangling-%d' % i)
                    else:
                        t = os.path.join(d, path[tgt[i]]) if path[tgt[i]] else d
                    if rel[i]:
                        t = os.path.relpath(t, os.path.dirname(p))
                    os.symlink(t, p)
            want = []
            seen = set()

            def walk(real):
                rp = os.path.realpath(real)
                if rp in seen:
                    return
                seen.add(rp)
                for nme in sorted(os.listdir(real)):
                    q = os.path.join(real, nme)
                    want.append(nme)
                    if os.path.isdir(q):
                        walk(q)
            walk(os.path.join(d, 'R0'))
            cwd, root = (os.path.join(d, 'R0'), '.') if dot else (d, os.path.join(d, 'R0'))
            argv = ['name', 'from', root, 'symlinks'] + (['dfs'] if dfs else [])
            p_ = subprocess.run([exe] + argv, cwd=cwd, stdout=subprocess.PIPE, stderr=subprocess.PIPE, timeout=20, env={'PATH': os.environ['PATH'], 'HOME': d, 'TZ': 'UTC'})
            got = sorted(p_.stdout.decode().split('\n')[:-1])
            bad = got != sorted(want) or p_.returncode != 0
            desc = {path[i]: ('dir' if kind[i] == DIR else 'file' if kind[i] == FILE else 'link->%s%s' % ('DANGLING' if tgt[i] == M else ('<parent of R0>' if tgt[i] == 0 else path.get(tgt[i])), ' (relative)' if rel[i] else ''))
                    for i in range(2, M) if usable[i]}
            return bad, 'fselect %s (cwd %s) on %r -> names %r status %s stderr %r ; expected names %r status 0' % (
                ' '.join(argv).replace(d, '<tmp>'), 'R0' if dot else '<tmp>', desc, got, p_.returncode, p_.stderr.decode()[:200].replace(d, '<tmp>'), sorted(want))
        except subprocess.TimeoutExpired:
            return True, 'the real binary did not terminate within 20 s'
        finally:
            shutil.rmtree(d, ignore_errors=True)
    return rep


def run(sess):
    quick = sess.tier == 'quick'
    M = 4 if quick else 5
    sess.bounds['outside'] = {'nodes': M, 'layout': 'node 0 = parent of the root, node 1 = the search root, the rest anywhere below node 0', 'chains': 'at most two links',
                              'spelling': 'absolute / relative', 'modes': 'bfs, dfs'}
    only = getattr(sess, 'only', None)
    for dfs in (False, True):
        fam = 'outside/%s' % ('dfs' if dfs else 'bfs')
        if not only or fam in only:
            run_family(sess, M, False, dfs, fam)
    fam = 'outside/chain'
    if not only or fam in only:
        run_family(sess, 6, False, False, fam, focus='chain')
