"""C19 — archive search lists each zip member exactly once and changes nothing else.

Families:
  walk      the real walker (via the real main::exec_search) over the abstract file system with `archives`: every file may be
            a zip with 0..2 members, ZipArchive::new may fail (corrupt archive), single members may fail to open; rows and
            exit status are decided against the specification; ordinary rows are exactly those of the run without archives
  fileinfo  get_field_value arms that take a zip member's FileInfo (name, size, is_dir, mode, modified ...)
"""
import z3
from z3 import BitVecVal, BoolVal, Not, And, Or, If, ULT, ULE, UGE
from mirsym.core import conc
from drivers import evalcore as E, walker as W
from drivers.c06_walker import make_zip
from drivers.c01 import tree_from_model
import common


def run_walk(sess):
    prog = sess.prog
    fam = 'walk'
    quick = sess.tier == 'quick'
    M = 4 if quick else 5
    sess.bounds[fam] = {'nodes': '%d (with member / open faults), 4 (with a symbolic upper end of the depth window)' % M, 'roots': 1, 'zip members': '0..2', 'corrupt archives': 'symbolic', 'member open failures': 'symbolic',
                        'depth window': 'mindepth symbolic 0..2; maxdepth symbolic 0..3 in the runs without faults', 'traversal': 'bfs (with and without the option) and dfs'}
    for archives, dfs, faults in ((True, False, True), (False, False, False), (True, True, False)):
        # the runs whose depth window has a symbolic upper end keep 4 nodes in the thorough tier too (5 nodes x two window ends x archives
        # does not finish in the budget: 49 000 paths in 25 minutes)
        M = 4 if (quick or not faults) else 5
        ex = sess.executor(W.models(), unwind=3 * M + 6, maxsteps=400000)
        viol = {}; st = {'paths': 0}

        def runp(ctx, archives=archives, dfs=dfs, faults=faults):
            fs = W.FS(ctx, M, roots=1, kinds=(W.FILE, W.DIR), archives=True)
            ctx.ghost['fs'] = fs
            ctx.ghost['match_all'] = BoolVal(True)
            for i in range(1, M):
                # a directory may be NAMED like an archive (libs.jar/): it cannot be parsed as one and is walked like any directory
                if faults or not archives:
                    ctx.assume(Or(Not(fs.is_zip[i]), fs.kind[i] == BitVecVal(W.FILE, 8)))
                else:
                    ctx.assume(Or(Not(fs.is_zip[i]), fs.kind[i] == BitVecVal(W.FILE, 8), Not(fs.zip_ok[i])))
            # member open failures and archive files that cannot be opened at all (permissions, a dangling link named like an archive):
            # symbolic in the breadth-first run with the option, absent in the other two runs
            ctx.ghost['member_fault'] = {(i, j): (ctx.fresh_bool('mfault_%d_%d' % (i, j)) if faults else BoolVal(False)) for i in range(1, M) for j in range(fs.max_members + 1)}
            ctx.ghost['open_fault'] = {i: (ctx.fresh_bool('openfault%d' % i) if faults else BoolVal(False)) for i in range(1, M)}
            mind = ctx.fresh_bv('mindepth', 32); ctx.assume(ULE(mind, BitVecVal(2, 32)))
            # the depth window has an upper end too (an archive lying exactly at the limit still shows its members): in the run without
            # faults, so that the number of paths stays what it was
            # (these runs keep 4 nodes in the thorough tier)
            maxd = ctx.fresh_bv('maxdepth', 32) if not faults else BitVecVal(0, 32)
            if not faults:
                ctx.assume(Or(maxd == 0, And(ULE(maxd, BitVecVal(3, 32)), UGE(maxd, mind))))
            ctx.ghost['maxd'] = maxd
            roots = [W.mk_root(prog, 'R0', mind, maxd, dfs, archives=BoolVal(archives))]
            q = W.mk_query(prog, roots, BitVecVal(0, 32), ordered=False)
            status = W.run_exec_search(ctx, prog, q)
            return fs, mind, status

        def on_path(ctx, out, archives=archives, dfs=dfs):
            st['paths'] += 1
            name = '%s archives=%s%s' % (fam, archives, ' dfs' if dfs else '')
            if out[0] != 'ret':
                if out[0] == 'panic':
                    if not viol.get('panic'):
                        viol['panic'] = True
                        sess.violated(name, 'archives/panic', out[1], {}, None, fam)
                else:
                    st['bad'] = True; sess.inconclusive(name, str(out), fam)
                return
            fs, mind, status = out[1]
            depth, reach, root = fs.terms()
            trace = ctx.ghost.get('trace', [])
            mf = ctx.ghost['member_fault']
            cnt = {}
            for t in trace:
                cnt[t] = cnt.get(t, 0) + 1
            maxd = ctx.ghost['maxd']
            win = lambda d: And(Or(mind == 0, UGE(d, mind)), Or(maxd == 0, ULE(d, maxd)))
            conds = []
            for i in range(1, M):
                exp = And(reach[i], win(depth[i]))
                conds.append(If(exp, BitVecVal(1, 8), BitVecVal(0, 8)) == BitVecVal(cnt.get((i, None), 0), 8))
                for j in range(fs.max_members):
                    mexp = And(exp, fs.is_zip[i], fs.zip_ok[i], Not(ctx.ghost['open_fault'][i]), Not(fs.isdir(i)), ULT(BitVecVal(j, 8), fs.members[i])) if archives else BoolVal(False)      # a member whose DATA cannot be read (mf: unsupported method, encrypted) is a member all the same
                    conds.append(If(mexp, BitVecVal(1, 8), BitVecVal(0, 8)) == BitVecVal(cnt.get((i, j), 0), 8))
            for t in cnt:
                if t[1] is not None and t[1] >= fs.max_members:
                    conds.append(BoolVal(False))
            conds.append(status == 0)       # corrupt archives are skipped silently
            r = ctx.check(Not(And(conds)))
            if r == z3.unsat:
                return
            if r != z3.sat:
                st['bad'] = True; sess.inconclusive(name, 'solver unknown', fam); return
            m = ctx.model(Not(And(conds)))
            faulty = any(z3.is_true(m.eval(b, model_completion=True)) for b in mf.values())
            role = 'archives/rows' + ('/member-fault' if faulty else '') + ('' if archives else '/without-option')
            if viol.get(role):
                return
            viol[role] = True
            sess.violated(name, role, 'mindepth=%s maxdepth=%s: reported %r' % (m.eval(mind, model_completion=True), m.eval(maxd, model_completion=True), trace), {'trace': [list(t) for t in trace]},
                          cli_replay(fs, m, m.eval(mind, model_completion=True).as_long(), mf, archives, dfs, m.eval(maxd, model_completion=True).as_long()), fam)

        n, complete = ex.explore(runp, on_path, time_budget=480 if quick else 1500)
        name = '%s archives=%s%s' % (fam, archives, ' dfs' if dfs else '')
        if not complete:
            sess.inconclusive(name, 'time budget exceeded after %d paths' % n, fam)
        elif not viol and not st.get('bad'):
            sess.discharged(name + ': members of every readable archive exactly once (also those whose data cannot be read), corrupt archives skipped, ordinary rows unchanged, status 0',
                            family=fam, queries=st['paths'])


def make_zip_with_bad(n, bad):
    """stored zip with members m0..; members in `bad` get an unsupported compression method (by_index fails, by_index_raw does not)"""
    import struct
    out = b''; cd = b''; off = 0
    for i in range(n):
        name = ('m%d' % i).encode()
        method = 7 if i in bad else 0
        lh = struct.pack('<IHHHHHIIIHH', 0x04034b50, 20, 0, method, 0, 0x21, 0, 0, 0, len(name), 0) + name
        cd += struct.pack('<IHHHHHHIIIHHHHHII', 0x02014b50, 20, 20, 0, method, 0, 0x21, 0, 0, 0, len(name), 0, 0, 0, 0, 0, off) + name
        out += lh; off += len(lh)
    return out + cd + struct.pack('<IHHHHIIH', 0x06054b50, 0, 0, n, n, len(cd), off, 0)


def cli_replay(fs, m, mind, mf, archives, dfs=False, maxd=0):
    def rep():
        exe = common.native_binary()
        tree, path, par, kind, usable = tree_from_model(fs, m)
        want = []
        depth = {0: 0}
        for i in range(1, fs.M):
            if not usable[i]:
                continue
            depth[i] = depth[par[i]] + 1
            zipname = z3.is_true(m.eval(fs.is_zip[i], model_completion=True))
            iszip = zipname and kind[i] == 0
            zok = z3.is_true(m.eval(fs.zip_ok[i], model_completion=True))
            ofault = hasattr(fs, 'ctx') and z3.is_true(m.eval(fs.ctx.ghost.get('open_fault', {}).get(i, BoolVal(False)), model_completion=True))
            nm = m.eval(fs.members[i], model_completion=True).as_long()
            newp = path[i] + ('.zip' if (iszip or (zipname and kind[i] == 1)) else '')
            ent = tree.pop(path[i]); path[i] = newp
            bad = {j for j in range(nm) if z3.is_true(m.eval(mf[(i, j)], model_completion=True))}
            if iszip and ofault:
                ent = {'kind': 'symlink', 'target': '/nonexistent/archive'}      # an archive name that cannot be opened
                zok = False
            elif iszip:
                ent = {'content': make_zip_with_bad(nm, bad) if zok else b'PK\x03\x04garbage'}
            tree[newp] = ent
            inwin = (mind == 0 or depth[i] >= mind) and (maxd == 0 or depth[i] <= maxd)
            if inwin:
                want.append(newp)
                if iszip and zok and archives:
                    want += ['[%s] m%d' % (newp, j) for j in range(nm)]       # also those whose data cannot be read: name, size, mode and date are in the directory of the archive
        for i in range(1, fs.M):
            if usable[i] and not path[i].startswith(path[par[i]] + '/'):
                old = path[i]; path[i] = path[par[i]] + '/' + old.rsplit('/', 1)[1]
                tree[path[i]] = tree.pop(old)
                want = [w.replace(old, path[i]) for w in want]
        argv = ['path', 'from', 'R0'] + (['archives'] if archives else []) + (['mindepth', str(mind)] if mind else []) + (['maxdepth', str(maxd)] if maxd else []) + (['dfs'] if dfs else [])
        r = common.run_cli(exe, argv, tree)
        got = r['stdout'].split('\n')[:-1]
        bad_ = sorted(got) != sorted(want) or r['status'] != 0
        return bad_, 'fselect %s on %r -> %r ; expected %r (status %s, stderr %r)' % (' '.join(argv), sorted(tree), sorted(got), sorted(want), r['status'], r['stderr'][:200])
    return rep


def main(sess):
    sess.engines = ['mirsym (MIR symbolic execution) + z3']
    sess.assumptions += [
        'abstract file system as in C01; zip archives by contract: ZipArchive::new Ok/Err, len, by_index Ok/Err per member (Err = the DATA of the member cannot be read: unsupported method, encrypted), by_index_raw Ok for every member of an archive that opened; which names count as archives '
        '(is_zip_archive / has_extension with the configured list) is summarised as a symbolic flag per file (the extension test is decided under C04)',
        'the zip crate itself (central directory parsing, truncated files) is trusted; member attributes (to_file_info, get_field_value arms) see family fileinfo',
        'check_file summarised as a ghost trace; LIMIT / ORDER BY interplay with archives is decided under C06',
    ]
    only = getattr(sess, 'only', None)
    if not only or 'walk' in only:
        run_walk(sess)
    if not only or 'limit' in only:
        from drivers import c06_walker
        c06_walker.run(sess, configs=[(4, 1, False), (4, 1, True)] if sess.tier == 'quick' else [(4, 1, False, True), (4, 1, True, True), (5, 1, False, False)], fam='limit')
    try:
        from drivers import c19_fileinfo
        if not only or 'fileinfo' in only:
            c19_fileinfo.run(sess)
    except ImportError:
        pass
