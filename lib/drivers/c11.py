"""C11 — documented alternative spellings of a query denote the same query.

  alias        Op::from / ArithmeticOp::from / Field::from_str / Function::from_str / OutputFormat::from (real MIR) on a symbolic
               choice of alias-group member and letter case (TableSym; z3 decides which entries reach which result): every
               member of a documented group, in every case variant, yields the same value
  lexer_words  the real Lexer::next_lexem (MIR) on every operator / arithmetic / keyword word in context: each word is lexed as
               the lexem kind of its group
  lexer_pairs  the real lexer on pairs of spellings of one query (round vs curly brackets, one argument vs shell words, letter
               case of keywords): identical lexem sequences (modulo the bracket kind)
  parse_pairs  the real Parser::parse on pairs of lexem vectors (optional `select`, commas, `asc`, `()` after an argument-less
               function, letter case of `group`): structurally identical queries
The lexer families run the MIR on concrete words (no symbolic input there); invariance under arbitrary whitespace split points
is covered only for the listed pairs."""
import re, itertools
import z3
from z3 import BitVecVal, BoolVal, Not, And, Or
from mirsym.core import Agg, EnumV, Cell, Ref, UNIT, some, none, conc, Unmodelled
from mirsym.models_std import Str, Seq, ListIter, table_str, as_str, generic_eq
from drivers import evalcore as E, parsecore as P
import common

OP_GROUPS = [['=', '==', 'eq'], ['!=', '<>', 'ne'], ['===', 'eeq'], ['!==', 'ene'], ['>', 'gt'], ['>=', 'gte', 'ge'], ['<', 'lt'], ['<=', 'lte', 'le'],
             ['=~', '~=', 'regexp', 'rx'], ['!=~', '!~=', 'notrx'], ['like'], ['notlike']]
ARITH_GROUPS = [['+', 'plus'], ['-', 'minus'], ['*', 'mul'], ['/', 'div'], ['%', 'mod']]
FIELD_GROUPS = [['ext', 'extension'], ['dir', 'dirname', 'directory'], ['name'], ['path'], ['size'], ['fsize', 'hsize'], ['is_dir'], ['modified'], ['uid'], ['gid'],
                ['is_char', 'is_character'], ['hardlinks'], ['mode']]
FUNC_GROUPS = [['lower', 'lowercase', 'lcase'], ['upper', 'uppercase', 'ucase'], ['length', 'len'], ['substr', 'substring'], ['count'], ['min'], ['max'],
               ['concat'], ['concat_ws'], ['coalesce'], ['power', 'pow'], ['format_size'], ['trim']]
FORMAT_GROUPS = [['tabs'], ['lines'], ['list'], ['csv'], ['json'], ['html']]


def case_variants(w):
    out = [w, w.upper(), w.capitalize(), ''.join(c.upper() if i % 2 else c for i, c in enumerate(w))]
    seen = []
    for x in out:
        if x not in seen:
            seen.append(x)
    return seen


def doc_groups():
    """alias groups from docs/usage.md: cells like `a` or `b` in the first column of a table"""
    import os
    out = []
    try:
        for line in open(os.path.join(common.REPO, 'docs', 'usage.md'), encoding='utf-8'):
            m = re.match(r'^\|\s*((?:`[\w]+`(?:\s*(?:or|,)\s*)?){2,})\s*\|', line)
            if m:
                out.append(re.findall(r'`(\w+)`', m.group(1)))
    except OSError:
        pass
    return out


def fam_alias(sess):
    prog = sess.prog
    fam = 'alias'
    tables = [('Op::from', lambda: prog.find('Op', 'from'), OP_GROUPS, True), ('ArithmeticOp::from', lambda: prog.find('ArithmeticOp', 'from'), ARITH_GROUPS, True),
              ('Field::from_str', lambda: prog.find('Field', 'from_str', 'FromStr'), FIELD_GROUPS, False),
              ('Function::from_str', lambda: prog.find('Function', 'from_str', 'FromStr'), FUNC_GROUPS, False),
              ('OutputFormat::from', lambda: prog.find('OutputFormat', 'from'), FORMAT_GROUPS, False)]
    docg = doc_groups()
    sess.bounds[fam] = {'letter cases': 'lower, UPPER, Capitalised, aLtErNaTiNg', 'groups from docs/usage.md': len(docg)}
    ex = sess.executor(unwind=6)
    for tname, getf, groups, owned in tables:
        f = getf()
        extra = []
        if tname.startswith('Field'):
            # documented column alias groups whose every member is a column name
            for g in docg:
                if g not in groups and len(g) > 1:
                    extra.append(g)
        for group in groups + extra:
            entries = []
            for w in group:
                entries += case_variants(w)
            box = {'results': {}}

            def run(ctx, entries=entries, f=f):
                s = table_str(ctx, 'alias', entries)
                h = P.pure_lift(lambda p: f, tname)
                return s, h(ctx, [s], tname)

            def on_path(ctx, out, entries=entries, group=group):
                name = 'alias %s %r' % (tname, group)
                if out[0] != 'ret':
                    box['bad'] = True; sess.inconclusive(name, str(out), fam); return
                s, r = out[1]
                ks = []
                if s.tab is None:
                    ks = [0]
                else:
                    for k in s.tab:
                        if ctx.check(s.var == k) != z3.unsat:
                            ks.append(k)
                box['results'].setdefault(repr(r), []).extend(entries[k] for k in ks)
            ex.explore(run, on_path)
            res = box['results']
            name = 'alias %s %r' % (tname, group)
            if box.get('bad'):
                continue
            okkeys = [k for k in res if ("Enum<Option>(1" in k or "Enum<Result>(0" in k)]
            if len(res) == 1 and okkeys:
                sess.discharged(name + ': %d spellings -> one value' % len(entries), family=fam, queries=len(entries))
            elif group in extra and not okkeys:
                continue        # a documentation table row that is not a column alias group
            else:
                bad = {k[:60]: v for k, v in res.items()}
                rejected = [w for k, v in res.items() if k not in okkeys for w in v]
                role = 'alias/%s/%s' % (tname.split('::')[0], '+'.join(sorted({w.lower() for w in rejected})) or 'split')
                sess.violated(name, role, 'the spellings do not denote one value: %r' % (bad,), {'group': group, 'results': bad},
                              cli_replay_alias(tname, group, rejected), fam)


def cli_replay_alias(tname, group, rejected):
    def rep():
        exe = common.native_binary()
        tree = {'a.txt': {'size': 5}, 'b.log': {'size': 7}}
        base = group[0]
        outs = {}
        words = [base] + [w for w in list(rejected)[:4] if w != base]
        if len(words) == 1:
            words = list(group)[:6]         # no spelling is rejected: the group's members denote different things
        for w in words:
            if tname.startswith('Op'):
                # rejected spellings: a numeric comparison; members that denote different operators: a text comparison with a
                # wildcard (the pattern operators differ from the strict ones only on `*` / `?`)
                argv = ['name', 'from', '.', 'where', 'size', w, '5'] if rejected else ['name', 'from', '.', 'where', 'name', w, "'b*'"]
            elif tname.startswith('Arithmetic'):
                argv = ['size ' + w + ' 1', 'from', '.']
            elif tname.startswith('Field'):
                argv = [w, 'from', '.']
            elif tname.startswith('Function'):
                argv = [w + '(name)', 'from', '.']
            else:
                argv = ['name', 'from', '.', 'into', w]
            r = common.run_cli(exe, argv, tree)
            outs[w] = (r['status'], sorted(r['stdout'].split('\n')))
        bad = len({repr(v) for v in outs.values()}) > 1
        return bad, 'spellings %r -> %r' % (list(outs), outs)
    return rep


# ------------------------------------------------------------------------------------------------ lexer
def lexer_models():
    out = []

    def reg(pat, name):
        def deco(f):
            out.append((pat, f, name)); return f
        return deco

    # static regexes (DATE_ALIKE_REGEX): the generic models of mirsym.models_ext — pattern text read from the tree's sources, Python re as the engine
    @reg(r'^(core::)?str::<impl str>::split$', 'str::split(closure) on concrete text')
    def split(ctx, args, callee):
        s = as_str(ctx, args[0])
        if s.s is None:
            raise Unmodelled('split of symbolic text')
        pieces = ['']
        pat = args[1]
        if z3.is_bv(pat):
            return ListIter([Str(p_) for p_ in s.s.split(chr(conc(pat)))])
        for ch in s.s:
            if ctx.decide(ctx.call_closure(args[1], [BitVecVal(ord(ch), 32)])):
                pieces.append('')
            else:
                pieces[-1] += ch
        return ListIter([Str(p) for p in pieces])

    @reg(r'^(core::)?(char::methods::)?<impl char>::is_ascii_alphanumeric$|^char::is_ascii_alphanumeric$', 'char::is_ascii_alphanumeric')
    def is_alnum(ctx, args, callee):
        c = conc(ctx.deref(args[0]))
        return BoolVal(chr(c).isascii() and chr(c).isalnum())

    return out


def lex_all(ctx, prog, parts):
    new = prog.find('Lexer', 'new'); nxt = prog.find('Lexer', 'next_lexem')
    lx = ctx.call_fn(new, [Seq([Str(p) for p in parts])])
    cell = Cell(lx)
    out = []
    for _ in range(200):
        r = ctx.call_fn(nxt, [Ref(cell)])
        d = r.d if isinstance(r.d, int) else conc(r.d)
        if d == 0:
            return out
        le = r.p[1][0]
        kind = prog.src.variant_name('Lexem', le.d if isinstance(le.d, int) else conc(le.d))
        pay = le.p.get(le.d if isinstance(le.d, int) else conc(le.d), [])
        out.append((kind, pay[0].s if pay else None))
    raise Unmodelled('lexer does not terminate')


def fam_lexer_words(sess):
    prog = sess.prog
    fam = 'lexer_words'
    ex = sess.executor(lexer_models(), unwind=400, maxsteps=2000000)
    groups = [('Operator', [w for g in OP_GROUPS for w in g]), ('ArithmeticOperator', [w for g in ARITH_GROUPS for w in g if w.isalpha()]),
              ('Keyword', ['and', 'or', 'not', 'order', 'by', 'desc', 'limit', 'into'])]
    sess.bounds[fam] = {'context': 'name from . where x <WORD> y', 'words': sum(len(g[1]) for g in groups), 'letter cases': 4}
    kwkind = {'and': 'And', 'or': 'Or', 'not': 'Not', 'order': 'Order', 'by': 'By', 'desc': 'DescendingOrder', 'limit': 'Limit', 'into': 'Into'}
    for kind, words in groups:
        for w in words:
            for v in (case_variants(w) if w.isalpha() else [w]):
                box = {}

                def run(ctx, v=v):
                    return lex_all(ctx, prog, ['name', 'from', '.', 'where', 'x', v, 'y'])

                def on_path(ctx, out, v=v, w=w, kind=kind):
                    name = 'lexer word %r' % v
                    if out[0] != 'ret':
                        box['bad'] = True; sess.inconclusive(name, str(out), fam); return
                    lex = out[1]
                    got = lex[5] if len(lex) > 5 else None
                    want = kwkind.get(w, kind)
                    if got is None or got[0] != want:
                        box['viol'] = True
                        if not sess.__dict__.setdefault('_c11_roles', {}).get(w):
                            sess._c11_roles[w] = True
                            sess.violated(name, 'lexer/word:' + w, 'the word is lexed as %r, its alias group is lexed as %s' % (got, want), {'word': v},
                                          cli_replay_word(w, v, kind), fam)
                ex.explore(run, on_path)
                if not box.get('viol') and not box.get('bad'):
                    sess.discharged('lexer word %r -> %s' % (v, kwkind.get(w, kind)), family=fam)


def cli_replay_word(w, v, kind):
    def rep():
        exe = common.native_binary()
        tree = {'a.txt': {'size': 5}, 'b.log': {'size': 7}}
        group = [g for g in OP_GROUPS + ARITH_GROUPS if w in g]
        base = group[0][0] if group else w
        rhs = {'like': '%.txt', 'notlike': '%.txt', '=~': 'txt', '!=~': 'txt', '===': 'a.txt', '!==': 'a.txt'}
        lit = rhs.get(base, 'a.txt')
        if kind == 'Operator':
            basew = ['not', 'like'] if base == 'notlike' else [base]
            a = common.run_cli(exe, ['name', 'from', '.', 'where', 'name'] + basew + [lit], tree)
            b = common.run_cli(exe, ['name', 'from', '.', 'where', 'name', v, lit], tree)
        else:
            a = common.run_cli(exe, ['size ' + base + ' 1', 'from', '.'], tree)
            b = common.run_cli(exe, ['size ' + v + ' 1', 'from', '.'], tree)
        bad = (a['status'], sorted(a['stdout'].split('\n'))) != (b['status'], sorted(b['stdout'].split('\n')))
        return bad, 'with %r: status %s rows %r ; with %r: status %s rows %r %s' % (base, a['status'], sorted(a['stdout'].split()), v, b['status'], sorted(b['stdout'].split()), b['stderr'][:100])
    return rep


LEX_PAIRS = [
    (['name, size from . where (size > 1)'], ['name, size from . where {size > 1}']),
    (['count(*) from .'], ['count{*} from .']),
    (['name from . where name = (*.txt)'], ['name from . where name = {*.txt}']),
    (['max(size / 2) from .'], ['max{size / 2} from .']),
    (['name, size from . where size > 1 order by size desc limit 3'], ['name,', 'size', 'from', '.', 'where', 'size', '>', '1', 'order', 'by', 'size', 'desc', 'limit', '3']),
    (['name from . where size gt 1'], ['NAME FROM . WHERE SIZE GT 1']),
    (['select name from . order by size asc'], ['select name from . order by size']),
    (['name from . where name like %.txt and size > 1'], ['name', 'from', '.', 'where', 'name', 'like', '%.txt', 'and', 'size', '>', '1']),
]


def norm_lex(seq, fold_case=False):
    out = []
    for k, p in seq:
        k2 = {'CurlyOpen': 'Open', 'CurlyClose': 'Close'}.get(k, k)
        out.append((k2, p.lower() if (p is not None and fold_case) else p))
    return out


def fam_lexer_pairs(sess):
    prog = sess.prog
    fam = 'lexer_pairs'
    ex = sess.executor(lexer_models(), unwind=600, maxsteps=3000000)
    sess.bounds[fam] = {'pairs': len(LEX_PAIRS)}
    for a, b in LEX_PAIRS:
        box = {}

        def run(ctx, a=a, b=b):
            return lex_all(ctx, prog, a), lex_all(ctx, prog, b)

        def on_path(ctx, out, a=a, b=b):
            name = 'lexer pair %r ~ %r' % (a, b)
            if out[0] != 'ret':
                box['bad'] = True; sess.inconclusive(name, str(out), fam); return
            la, lb = out[1]
            fold = any(x.isupper() for x in ''.join(b))
            if norm_lex(la, fold) != norm_lex(lb, fold):
                box['viol'] = True
                sess.violated(name, 'lexer/pair:' + ' '.join(a)[:40], 'lexed differently: %r vs %r' % (la, lb), {'a': a, 'b': b}, cli_replay_pair(a, b), fam)
        ex.explore(run, on_path)
        if not box.get('viol') and not box.get('bad'):
            sess.discharged('lexer pair %r ~ %r' % (' '.join(a)[:50], ' '.join(b)[:50]), family=fam)


def cli_replay_pair(a, b):
    def rep():
        exe = common.native_binary()
        tree = {'a.txt': {'size': 5}, 'b.log': {'size': 7}, 'c.txt': {'size': 1}, 'd': {'kind': 'dir'}, 'd/e.txt': {'size': 2}, 'd/f': {'kind': 'dir'}, 'd/f/g.txt': {'size': 3},
                'l': {'kind': 'symlink', 'target': 'd'}}
        ra = common.run_cli(exe, a, tree); rb = common.run_cli(exe, b, tree)
        bad = (ra['status'], sorted(ra['stdout'].lower().split('\n'))) != (rb['status'], sorted(rb['stdout'].lower().split('\n')))
        return bad, '%r -> status %s %r ; %r -> status %s %r %s' % (a, ra['status'], ra['stdout'][:120], b, rb['status'], rb['stdout'][:120], rb['stderr'][:100])
    return rep


SPLIT_QUERIES = [
    'name from /r1, /r2 where size > 1',
    'name from d,d/f where size > 1',
    'path from /home/u/old, /home/u/new where name = x',
    'name from /r1 depth 2, /r2 sym, /r3',
    'name, size from . where size gt 1 and name ne x order by size desc, name limit 3',
    'select lower(name), size from . into json',
    'count(*), max(size) from /r1 where is_dir = false',
    'name from . where name like %.txt or (size > 1 and size < 9)',
    'concat(name, ext) from /r1, /r2',
    'name from /donn\u00e9es, /logs\u65e5 where name ne \u00e9t\u00e9',
]


def fam_lexer_splits(sess):
    """the same query as one argument and split into shell words at ANY subset of its whitespace positions: identical lexem
    sequences. The subset is a solver bit-vector (one bit per whitespace position); the lexer is run on the argv it denotes."""
    prog = sess.prog
    fam = 'lexer_splits'
    ex = sess.executor(lexer_models(), unwind=800, maxsteps=4000000)
    quick = sess.tier == 'quick'
    sess.bounds[fam] = {'queries': SPLIT_QUERIES, 'split sets': 'every subset of the whitespace positions (<= %d free positions per query) in which every search-root word is a shell word of its own' % (5 if quick else 8)}
    for q in SPLIT_QUERIES:
        words = q.split(' ')
        k = len(words) - 1
        # a search-root word: the word after `from` and after a comma-terminated word of the root list. With several shell
        # words fselect takes the rest of the shell word as the root (paths with blanks), so whenever the query is split at
        # all it must be split right after every root word; a root word carrying blanks denotes another path: outside.
        root_after = set()
        in_roots = False
        for i, w in enumerate(words):
            lw = w.lower()
            if lw == 'from':
                in_roots = True
                if i + 1 < len(words):
                    root_after.add(i + 1)
                continue
            if lw in ('where', 'order', 'group', 'limit', 'into'):
                in_roots = False
            if in_roots and w.endswith(',') and i + 1 < len(words):
                root_after.add(i + 1)
        free = [i for i in range(k) if i not in root_after][:(5 if quick else 8)]
        box = {'paths': 0}

        def run(ctx, q=q, words=words, free=free, root_after=root_after, k=k):
            mask = ctx.fresh_bv('split_mask', len(free) + 1)
            mv = ctx.concretize(mask, range(1 << (len(free) + 1)))
            cut = {p for j, p in enumerate(free) if (mv >> j) & 1}
            if mv:
                cut |= {p for p in root_after if p < k}
            parts = [words[0]]
            for i, w in enumerate(words[1:]):
                if i in cut:
                    parts.append(w)
                else:
                    parts[-1] += ' ' + w
            if 'single' not in box:
                box['single'] = lex_all(ctx, prog, [q])      # concrete and deterministic: computed once per query
            return parts, box['single'], lex_all(ctx, prog, parts)

        def on_path(ctx, out, q=q):
            name = 'lexer splits of %r' % q
            box['paths'] += 1
            if out[0] != 'ret':
                if not box.get('bad'):
                    box['bad'] = True; sess.inconclusive(name, str(out)[:300], fam)
                return
            parts, la, lb = out[1]
            if la != lb and not box.get('viol'):
                box['viol'] = True
                i = next((j for j in range(min(len(la), len(lb))) if la[j] != lb[j]), min(len(la), len(lb)))
                sess.violated(name, 'lexer/split:' + q[:40], 'argv %r is lexed differently from the one-argument form at lexem %d: %r vs %r' % (
                    parts, i, lb[i:i + 2], la[i:i + 2]), {'argv': parts, 'query': q}, cli_replay_pair([q], parts), fam)
        ex.explore(run, on_path)
        if not box.get('viol') and not box.get('bad'):
            sess.discharged('lexer splits of %r (%d split sets)' % (q[:50], box['paths']), family=fam, queries=box['paths'])


PARSE_PAIRS = [
    (['name', 'size', 'from', '.'], ['select', 'name', ',', 'size', 'from', '.']),
    (['name', 'from', '.', 'order', 'by', 'size'], ['name', 'from', '.', 'order', 'by', 'size', ',']),
    (['name', 'from', '.', 'where', '(', 'size', '>', '1', ')'], ['name', 'from', '.', 'where', '{', 'size', '>', '1', '}']),
    (['name', 'from', '.', 'depth', '1', 'group', 'by', 'name'], ['name', 'from', '.', 'depth', '1', 'GROUP', 'by', 'name']),
    (['name', 'from', '.', 'depth', '1', 'group', 'by', 'name'], ['name', 'from', '.', 'maxdepth', '1', 'Group', 'by', 'name']),
    (['name', 'from', '.', 'sym', 'arc'], ['name', 'from', '.', 'symlinks', 'archives']),
    (['name', 'from', '.', 'where', 'size', 'op:gte', '1'], ['name', 'from', '.', 'where', 'size', 'op:>=', '1']),
    (['name', 'from', '.', 'where', 'name', 'not', 'like', 'x'], ['name', 'from', '.', 'where', 'name', 'op:notlike', 'x']),
    (['Name', 'FROM' if False else 'from', '.', 'where', 'SIZE', '>', '1'], ['name', 'from', '.', 'where', 'size', '>', '1']),
    # root options of a query without FROM (the default root): every alias is recognised as an option, not as a column
    (['name', 'depth', '1'], ['name', 'maxdepth', '1']),
    (['name', 'from', '.', 'depth', '1'], ['name', 'depth', '1']),
    (['name', 'from', '.', 'mindepth', '2'], ['name', 'mindepth', '2']),
    (['name', 'sym'], ['name', 'symlinks']),
    (['name', 'arc'], ['name', 'archives']),
    (['name', 'from', '.', 'dfs'], ['name', 'dfs']),
    (['name', 'from', '.', 'bfs'], ['name', 'bfs']),
    (['name', 'from', '.', 'nogit', 'nohg', 'nodock'], ['name', 'nogitignore', 'nohgignore', 'nodockerignore']),
    (['name', 'from', '.', 'git', 'hg', 'dock'], ['name', 'gitignore', 'hgignore', 'dockerignore']),
]


CASE_BASES = [
    ['name', ',', 'size', 'from', '.', 'where', 'size', 'op:between', '1', 'and', '5', 'order', 'by', 'size', 'desc', ',', 'name', 'limit', '5', 'into', 'json'],
    ['name', 'from', '.', 'where', 'not', 'name', 'op:like', 'x', 'or', 'size', 'op:lt', '3'],
    ['name', 'from', '.', 'mindepth', '1', 'maxdepth', '2', 'sym', 'arc', 'dfs', 'gitignore', 'where', 'name', 'op:rx', 'x', 'and', 'size', 'op:gte', '1', 'and', 'is_dir', 'op:ne', 'true'],
    ['name', 'from', '.', 'depth', '1', 'op:rx'],
    ['upper', '(', 'name', ')', ',', 'min', '(', 'size', ')', 'from', '.', 'where', 'size', 'not', 'op:between', '1', 'and', '2', 'group', 'by', 'name'],
    ['name', 'from', '.', 'where', 'name', 'op:notlike', 'x', 'and', 'name', 'op:regexp', 'y', 'and', 'name', 'op:notrx', 'z', 'and', 'name', 'op:eeq', 'a', 'and', 'name', 'op:ene', 'b'],
    ['size', 'ar:plus', '1', ',', 'size', 'ar:mul', '2', 'from', '.'],
]
CASE_EXTRA_PAIRS = [
    # `()` after an argument-less function changes nothing
    (['curdate', 'from', '.'], ['curdate', '(', ')', 'from', '.']),
    (['name', ',', 'curdate', 'from', '.'], ['name', ',', 'curdate', '(', ')', 'from', '.']),
    (['name', 'from', '.', 'where', 'modified', 'op:=', 'curdate'], ['name', 'from', '.', 'where', 'modified', 'op:=', 'curdate', '(', ')']),
]


def case_pairs(quick):
    out = []
    for base in CASE_BASES:
        for i, t in enumerate(base):
            w = t.split(':', 1)[-1]
            if not w.isalpha() or t in P.KW or t.startswith('q:') or w in ('x', 'y', 'z', 'a', 'b', 'true'):
                continue
            pre = t[:len(t) - len(w)]
            for v in ((w.upper(),) if quick else (w.upper(), w.capitalize())):
                out.append((base, base[:i] + [pre + v] + base[i + 1:]))
    return out + CASE_EXTRA_PAIRS


def fam_case(sess):
    """letter case of every word the PARSER sees (column, function, operator word, root option, format, arithmetic word; the clause
    keywords are the lexer's: lexer_words) and the optional `()` of argument-less functions: one token changed at a time"""
    fam_parse_pairs(sess, case_pairs(sess.tier == 'quick'), 'case')


def fam_parse_pairs(sess, pairs=None, fam='parse_pairs'):
    prog = sess.prog
    PARSE_PAIRS = pairs or globals()['PARSE_PAIRS']
    ov = P.table_overrides() + P.lexer_stub_overrides() + [(r'^UserDirs::new$|^directories::UserDirs::new$', lambda ctx, a, c: none(), 'stub:UserDirs::new(None)')]
    ex = sess.executor(ov, unwind=30)
    parse = prog.find('Parser', 'parse')
    sess.bounds[fam] = {'pairs': len(PARSE_PAIRS)}
    for a, b in PARSE_PAIRS:
        box = {}

        def run(ctx, a=a, b=b):
            res = []
            for toks in (a, b):
                parser = P.mk_parser(prog, [P.mk_lexem(prog, t) for t in toks], roots_parsed=False, where_parsed=False)
                res.append(ctx.call_fn(parse, [Ref(Cell(parser)), Seq([]), BoolVal(False)]))
            return res

        def on_path(ctx, out, a=a, b=b):
            name = 'parse pair %r ~ %r' % (' '.join(a), ' '.join(b))
            if out[0] != 'ret':
                box['bad'] = True; sess.inconclusive(name, str(out), fam); return
            ra, rb = out[1]
            try:
                eq = generic_eq(ctx, ra, rb)
            except Unmodelled as e:
                box['bad'] = True; sess.inconclusive(name, 'cannot compare the queries: %s' % e, fam); return
            if ctx.check(Not(eq)) != z3.unsat:
                box['viol'] = True
                sess.violated(name, 'parse/pair:' + ' '.join(b)[:40], 'the two spellings parse to different queries', {'a': a, 'b': b}, cli_replay_pair([' '.join(t.split(':')[-1] for t in a)], [' '.join(t.split(':')[-1] for t in b)]), fam)
        ex.explore(run, on_path)
        if not box.get('viol') and not box.get('bad'):
            sess.discharged('%s %r ~ %r' % (fam, ' '.join(a)[:50], ' '.join([y for x, y in zip(a, b) if x != y] or b)[:50]), family=fam)


def main(sess):
    sess.engines = ['mirsym (MIR symbolic execution) + z3']
    sess.assumptions += [
        'alias groups: the tables of the property statement plus multi-name rows of docs/usage.md (parsed at run time)',
        'the lexer families execute the real lexer MIR on concrete words / queries; lexer_splits: the split-point set is a solver bit-vector, every subset of the whitespace positions of the listed queries is explored (root paths without blanks)',
    ]
    only = getattr(sess, 'only', None)
    for name, f in (('alias', fam_alias), ('lexer_words', fam_lexer_words), ('lexer_pairs', fam_lexer_pairs), ('lexer_splits', fam_lexer_splits), ('parse_pairs', fam_parse_pairs), ('case', fam_case)):
        if not only or name in only:
            f(sess)
    if not only or 'e2e' in only:
        from drivers import e2e
        e2e.family_for(sess, 'C11', quick_n=4)
