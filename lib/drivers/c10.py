"""C10 — any command line terminates with status 0, 1 or 2: never a crash or a hang.

The whole real parser (Parser::parse with parse_fields, parse_roots, parse_root_options, parse_where ... parse_output_format,
Field::from_str, Function::from_str, Op::from ...) runs from MIR on *symbolic lexem vectors* (each position a solver variable
over an alphabet of lexems).  On every path z3 has decided the branch conditions; a path that ends in a panic obligation
(index, subtraction, unwrap / expect) or exceeds every loop bound derivable from the token count (no progress = hang) yields a
token vector, which is rendered to an argument vector and run through the real binary.  Only what reproduces there (status 101
or no termination) is a violation; parser-level-only findings (token vectors the lexer cannot produce) are noted, not reported."""
import itertools, subprocess, os
import z3
from z3 import BitVecVal, BoolVal, Not, And, Or
from mirsym.core import Ref, Cell, conc, none
from drivers import evalcore as E, parsecore as P
import common

FULL = ['name', 'size', 'x', '0', '1', '17', ',', 'from', 'where', '=', '=!', '+', '-', '/', '(', ')', 'and', 'or', 'not', 'order', 'by',
        'desc', 'limit', 'into', 'group', 'depth', 'length', 'q:x', 'between', 'json', 'is_dir', '.']
FAMILIES = {
    # name: (fixed prefix, alphabet, max symbolic tokens quick, thorough)
    'full': ([], FULL, 2, 4),
    'select': ([], ['name', 'size', '+', '-', '*', '/', '(', ')', '}', ',', 'length', 'x', '1', 'from', '.'], 3, 5),
    'where': (['name', 'where'], ['name', 'size', '=', '=!', 'between', 'and', 'or', 'not', '(', ')', '}', '+', '1', 'x', 'q:x', 'is_dir'], 3, 5),
    'orderby': (['name', 'order', 'by'], ['name', 'size', '0', '1', '2', 'desc', ',', '+', 'x', 'asc'], 3, 4),
    'groupby': (['name', 'group', 'by'], ['name', 'size', '+', ',', '(', ')', 'x', 'order', 'by'], 3, 4),
    'tail': (['name'], ['limit', '1', 'x', '-1', 'into', 'json', 'nope', 'q:2', 'from', '.', 'depth', 'mindepth'], 3, 5),
}


def render_argv(tokens):
    out = []
    for t in tokens:
        if t.startswith('q:'):
            out.append("'%s'" % t[2:])
        elif t.startswith(('op:', 'ar:')):
            out.append(t[3:])
        else:
            out.append(t)
    return out


def cli_replay(tokens):
    def rep():
        exe = common.native_binary()
        argv = render_argv(tokens)
        tree = {'a.txt': {'size': 3}, 'd': {'kind': 'dir'}, 'd/b': {'size': 17}}
        for args in (argv, [' '.join(argv)]):
            r = common.run_cli(exe, args, tree, timeout=5)
            if r['timed_out']:
                return True, 'fselect %r does not terminate (killed after 5 s)' % (args,)
            if r['status'] not in (0, 1, 2):
                return True, 'fselect %r exits with status %s: %s' % (args, r['status'], r['stderr'].strip()[:200])
        return False, 'fselect %r: status %s (also as one argument)' % (argv, r['status'])
    return rep


FORMATS = ('tabs', 'lines', 'list', 'csv', 'json', 'html')
OPERATORS = ('=', '=!', 'between', '==', '!=', '>', '<')


def malformed(tokens, ncols_known=None):
    """-> category or None: token vectors that the property statement names as malformed (only shapes that are malformed
    whatever else the query contains): unbalanced or mismatched brackets, a dangling or unknown operator, an ORDER BY position
    outside 1..number of columns, a non-numeric LIMIT, an unknown output format, no column"""
    stack = []
    for t in tokens:
        if t in ('(', '{'):
            stack.append(t)
        elif t in (')', '}'):
            if not stack or (stack[-1], t) not in (('(', ')'), ('{', '}')):
                return 'bracket'
            stack.pop()
    if stack:
        return 'bracket'
    if not tokens or tokens[0] in ('from', 'where', 'order', 'limit', 'into'):
        return 'no-column'
    kw = ('from', 'where', 'order', 'by', 'limit', 'into', 'group', 'and', 'or', 'desc')
    for i, t in enumerate(tokens):
        nxt = tokens[i + 1] if i + 1 < len(tokens) else None
        if t == '=!' and 'where' in tokens[:i]:
            return 'unknown-operator'
        if t in OPERATORS and 'where' in tokens[:i] and (nxt is None or nxt in kw or nxt == ')'):
            return 'dangling-operator'
        if t == 'limit' and (nxt is None or not nxt.lstrip('q:').isdigit()):
            return 'limit'
        if t == 'into' and (nxt is None or nxt.lstrip('q:').lower() not in FORMATS):
            return 'format'
    if 'order' in tokens:
        i = tokens.index('order')
        if i + 1 < len(tokens) and tokens[i + 1] == 'by':
            ncols = ncols_known
            for t in tokens[i + 2:]:
                if t in ('limit', 'into'):
                    break
                j = tokens.index(t, i + 2)
                prev = tokens[j - 1]; nxt = tokens[j + 1] if j + 1 < len(tokens) else None
                if t.isdigit() and ncols is not None and not (1 <= int(t) <= ncols) and prev in ('by', ',') and nxt in (None, ',', 'desc', 'asc', 'limit', 'into'):
                    return 'order-position'
    return None


def cli_replay_reject(tokens):
    def rep():
        exe = common.native_binary()
        argv = render_argv(tokens)
        tree = {'a.txt': {'size': 3}, 'd': {'kind': 'dir'}, 'd/b': {'size': 17}}
        for args in (argv, [' '.join(argv)]):
            r = common.run_cli(exe, args, tree, timeout=5)
            if r['timed_out'] or r['status'] not in (0, 1, 2):
                return True, 'fselect %r: status %s' % (args, r['status'])
            if r['status'] != 2 or r['stdout']:
                return True, 'fselect %r is malformed but ends with status %s and %d result row(s) (stderr %r)' % (args, r['status'], len(r['stdout'].split(chr(10))) - 1, r['stderr'][:80])
        return False, 'fselect %r: rejected with status 2 and no rows' % (argv,)
    return rep


def run_family(sess, fam):
    prog = sess.prog
    prefix, alpha, nq, nt = FAMILIES[fam]
    maxn = nq if sess.tier == 'quick' else nt
    sess.bounds['parse/' + fam] = {'prefix': prefix, 'alphabet': alpha, 'symbolic tokens': '0..%d' % maxn}
    ov = P.table_overrides() + P.lexer_stub_overrides() + [
        (r'^UserDirs::new$|^directories::UserDirs::new$', lambda ctx, a, c: none(), 'stub:UserDirs::new(None)'),
    ]
    parse = prog.find('Parser', 'parse')
    findings = {}      # role -> (tokens, kind, detail)
    accepted = {}      # role -> tokens of a malformed vector the parser accepts
    st = {'paths': 0, 'ok': 0, 'err': 0, 'panic': 0, 'hang': 0}
    budget = 60 if sess.tier == 'quick' else 1500
    import time
    t0 = time.time()
    complete_all = True
    for n in range(0, maxn + 1):
        total = len(prefix) + n
        ex = sess.executor(ov, unwind=total + 4, maxsteps=300000)

        def runp(ctx, n=n):
            lex = [P.mk_lexem(prog, t) for t in prefix]; tv = []
            for i in range(n):
                l, t = P.sym_lexem(ctx, prog, alpha, 't%d' % i)
                lex.append(l); tv.append(t)
            parser = P.mk_parser(prog, lex, roots_parsed=False, where_parsed=False)
            from mirsym.models_std import Seq
            res = ctx.call_fn(parse, [Ref(Cell(parser)), Seq([]), BoolVal(False)])
            return tv, res

        def witness(ctx, tv):
            m = ctx.model()
            return prefix + [alpha[m.eval(t, model_completion=True).as_long()] for t in tv]

        def on_path(ctx, out, n=n):
            st['paths'] += 1
            if out[0] == 'ret':
                tv, res = out[1]
                d = res.d if isinstance(res.d, int) else conc(res.d)
                st['ok' if d == 0 else 'err'] += 1
                if d == 0 and tv:
                    # an accepted vector: must not be one of the malformed shapes (up to 6 assignments per path)
                    block = []
                    for _ in range(6):
                        if ctx.check(*block) != z3.sat:
                            break
                        m = ctx.model(*block)
                        idx = [m.eval(t, model_completion=True).as_long() for t in tv]
                        toks = prefix + [alpha[i] for i in idx]
                        cat = malformed(toks, ncols_known=(1 if fam in ('orderby',) else None))
                        if cat:
                            accepted.setdefault('parse/accepts/' + cat, toks)
                        block.append(Or([t != i for t, i in zip(tv, idx)]))
                return
            if out[0] == 'panic':
                st['panic'] += 1
                toks = witness(ctx, ctx.ghost.get('tv') or _tv(ctx))
                msg = out[1]
                import re as _re
                mm = _re.search(r'\[in (\S+) (bb\d+)\]', msg)
                fn = mm.group(1) if mm else '?'
                kind = ('sub-overflow' if '`{} - {}`' in msg else 'add-overflow' if '`{} + {}`' in msg else 'index' if 'index out of bounds' in msg
                        else 'unwrap-err' if 'Result::unwrap' in msg else 'unwrap-none' if 'Option::unwrap' in msg else 'expect' if 'expect' in msg else 'panic')
                role = 'parse/panic/%s/%s' % (fn, kind)
                findings.setdefault(role, (toks, 'panic', msg))
                return
            if out[0] == 'end' and 'UNWIND' in out[1]:
                st['hang'] += 1
                toks = witness(ctx, _tv(ctx))
                fn = out[1].split('>::')[-1].split(' ')[0]
                role = 'parse/hang/' + fn
                findings.setdefault(role, (toks, 'hang', out[1]))
                return
            if out[0] == 'end' and out[1] == 'STEPS':
                st['hang'] += 1
                toks = witness(ctx, _tv(ctx))
                findings.setdefault('parse/hang/steps', (toks, 'hang', 'step budget exhausted'))
                return
            st['bad'] = True
            sess.inconclusive('parse/%s n=%d' % (fam, n), str(out), 'parse/' + fam)

        def _tv(ctx):
            return ctx.ghost.get('tv_list', [])

        # remember the token variables on the context for witnesses of abnormal ends
        def runp_wrapped(ctx, n=n):
            lex = [P.mk_lexem(prog, t) for t in prefix]; tv = []
            for i in range(n):
                l, t = P.sym_lexem(ctx, prog, alpha, 't%d' % i)
                lex.append(l); tv.append(t)
            ctx.ghost['tv_list'] = tv
            parser = P.mk_parser(prog, lex, roots_parsed=False, where_parsed=False)
            from mirsym.models_std import Seq
            res = ctx.call_fn(parse, [Ref(Cell(parser)), Seq([]), BoolVal(False)])
            return tv, res

        left = budget - (time.time() - t0)
        if left <= 5:
            complete_all = False; break
        cnt, complete = ex.explore(runp_wrapped, on_path, time_budget=left)
        if not complete:
            complete_all = False
            sess.notes.append('parse/%s: %d symbolic tokens not exhausted within the budget (%d paths)' % (fam, n, cnt))
            break
        st['max_n_done'] = n
    # replay: one witness per role; only CLI-reproducible ones are violations
    parser_only = []
    for role, (toks, kind, detail) in sorted(findings.items()):
        rep = cli_replay(toks)
        repro, det = rep()
        if repro:
            sess.violated('parse/%s: %s' % (fam, ' '.join(toks)), role, '%s: %s' % (kind, detail[:160]), {'tokens': toks}, (lambda r=repro, d=det: (r, d)), 'parse/' + fam)
        else:
            parser_only.append((' '.join(toks), kind, det[:120]))
    for role, toks in sorted(accepted.items()):
        rep = cli_replay_reject(toks)
        repro, det = rep()
        if repro:
            sess.violated('parse/%s: %s' % (fam, ' '.join(toks)), role, 'a malformed query (%s) is accepted by Parser::parse' % role.rsplit('/', 1)[1], {'tokens': toks},
                          (lambda r=repro, d=det: (r, d)), 'parse/' + fam)
        else:
            parser_only.append((' '.join(toks), 'accepted', det[:120]))
    if parser_only:
        sess.notes.append('parse/%s: %d parser-level findings do not reproduce through the command line (token vectors the lexer does not produce): %r'
                          % (fam, len(parser_only), parser_only[:6]))
    if not st.get('bad'):
        sess.discharged('parse/%s: token vectors with up to %d symbolic tokens: %d paths (Ok %d, Err %d); abnormal ends (panic %d, no-progress %d) are reported separately'
                        % (fam, st.get('max_n_done', 0), st['paths'], st['ok'], st['err'], st['panic'], st['hang']), family='parse/' + fam, queries=max(1, st['paths']))
    sess.sample({'family': 'parse/' + fam, 'stats': st, 'example_findings': [(' '.join(v[0]), v[1]) for v in list(findings.values())[:5]]})


def _shape(toks):
    out = []
    for t in toks:
        if t in ('name', 'size', 'is_dir'):
            out.append('F')
        elif t.lstrip('-').isdigit():
            out.append('N' if t not in ('0',) else '0')
        elif t in ('x', '.', 'nope', 'json'):
            out.append('w')
        else:
            out.append(t)
    return ' '.join(out)


def main(sess):
    sess.engines = ['mirsym (MIR symbolic execution) + z3']
    sess.assumptions += [
        'the lexer is replaced by the symbolic lexem vector (Lexer::new / next_lexem stubbed; the lexer loop over raw bytes is not covered); '
        'UserDirs::new returns None (no home directory expansion)',
        'a hang is a path on which some parser loop runs more often than (number of tokens + 4) times',
        'evaluation-time crashes (function arguments, date / boolean literals) are decided by the drivers of C13 / C16 and included here by reference',
    ]
    only = getattr(sess, 'only', None)
    fams = list(FAMILIES) if sess.tier != 'quick' else ['full', 'where', 'orderby', 'groupby', 'tail', 'select']
    for fam in fams:
        if not only or fam in only:
            run_family(sess, fam)
    if not only or 'eval' in only:
        # evaluation-time crashes: arithmetic on arbitrary operands (driver of C15)
        from drivers import c15, c16
        c15.fam_calc(sess)
        # scalar functions on ill-typed / out-of-range arguments (driver of C16)
        c16.fam_args(sess)
        c16.fam_args_all(sess)
