"""C10 — any command line terminates with status 0, 1 or 2: never a crash or a hang.

The whole real parser (Parser::parse with parse_fields, parse_roots, parse_root_options, parse_where ... parse_output_format,
Field::from_str, Function::from_str, Op::from ...) runs from MIR on *symbolic lexem vectors* (each position a solver variable
over an alphabet of lexems).  On every path z3 has decided the branch conditions; a path that ends in a panic obligation
(index, subtraction, unwrap / expect) or exceeds every loop bound derivable from the token count (no progress = hang) yields a
token vector, which is rendered to an argument vector and run through the real binary.  Only what reproduces there (status 101
or no termination) is a violation; parser-level-only findings (token vectors the lexer cannot produce) are noted, not reported."""
import itertools, subprocess, os
import z3
from z3 import BitVecVal, BoolVal, Not, And, Or
from mirsym.core import Ref, Cell, conc, none
from drivers import evalcore as E, parsecore as P
import common

FULL = ['name', 'size', 'x', '0', '1', '17', ',', 'from', 'where', '=', '=!', '+', '-', '/', '(', ')', 'and', 'or', 'not', 'order', 'by',
        'desc', 'limit', 'into', 'group', 'depth', 'length', 'q:x', 'between', 'json', 'is_dir', '.']
FAMILIES = {
    # name: (fixed prefix, alphabet, max symbolic tokens quick, thorough)
    'full': ([], FULL, 2, 4),
    'select': ([], ['name', 'size', '+', '-', '*', '/', '(', ')', '}', ',', 'length', 'x', '1', 'from', '.'], 3, 5),
    'where': (['name', 'where'], ['name', 'size', '=', '=!', 'between', 'and', 'or', 'not', '(', ')', '}', '+', '1', 'x', 'q:x', 'is_dir'], 3, 5),
    'orderby': (['name', 'order', 'by'], ['name', 'size', '0', '1', '2', 'desc', ',', '+', 'x', 'asc'], 3, 4),
    'groupby': (['name', 'group', 'by'], ['name', 'size', '+', ',', '(', ')', 'x', 'order', 'by'], 3, 4),
    'tail': (['name'], ['limit', '1', 'x', '-1', 'into', 'json', 'nope', 'q:2', 'from', '.', 'depth', 'mindepth'], 3, 5),
}


def render_argv(tokens):
    out = []
    for t in tokens:
        if t.startswith('q:'):
            out.append("'%s'" % t[2:])
        elif t.startswith(('op:', 'ar:')):
            out.append(t[3:])
        else:
            out.append(t)
    return out


def cli_replay(tokens):
    def rep():
        exe = common.native_binary()
        argv = render_argv(tokens)
        tree = {'a.txt': {'size': 3}, 'd': {'kind': 'dir'}, 'd/b': {'size': 17}}
        for args in (argv, [' '.join(argv)]):
            r = common.run_cli(exe, args, tree, timeout=5)
            if r['timed_out']:
                return True, 'fselect %r does not terminate (killed after 5 s)' % (args,)
            if r['status'] not in (0, 1, 2):
                return True, 'fselect %r exits with status %s: %s' % (args, r['status'], r['stderr'].strip()[:200])
        return False, 'fselect %r: status %s (also as one argument)' % (argv, r['status'])
    return rep


FORMATS = ('tabs', 'lines', 'list', 'csv', 'json', 'html')
OPERATORS = ('=', '=!', 'between', '==', '!=', '>', '<')


def malformed(tokens, ncols_known=None):
    """-> category or None: token vectors that the property statement names as malformed (only shapes that are malformed
    whatever else the query contains): unbalanced or mismatched brackets, a dangling or unknown operator, an ORDER BY position
    outside 1..number of columns, a non-numeric LIMIT, an unknown output format, no column"""
    stack = []
    for t in tokens:
        if t in ('(', '{'):
            stack.append(t)
        elif t in (')', '}'):
            if not stack or (stack[-1], t) not in (('(', ')'), ('{', '}')):
                return 'bracket'
            stack.pop()
    if stack:
        return 'bracket'
    if not tokens or tokens[0] in ('from', 'where', 'order', 'limit', 'into'):
        return 'no-column'
    kw = ('from', 'where', 'order', 'by', 'limit', 'into', 'group', 'and', 'or', 'desc')
    for i, t in enumerate(tokens):
        nxt = tokens[i + 1] if i + 1 < len(tokens) else None
        if t == '=!' and 'where' in tokens[:i]:
            return 'unknown-operator'
        if t in OPERATORS and 'where' in tokens[:i] and (nxt is None or nxt in kw or nxt == ')'):
            return 'dangling-operator'
        if t == 'limit' and (nxt is None or not nxt.lstrip('q:').isdigit()):
            return 'limit'
        if t == 'into' and (nxt is None or nxt.lstrip('q:').lower() not in FORMATS):
            return 'format'
    if 'order' in tokens:
        i = tokens.index('order')
        if i + 1 < len(tokens) and tokens[i + 1] == 'by':
            ncols = ncols_known
            for t in tokens[i + 2:]:
                if t in ('limit', 'into'):
                    break
                j = tokens.index(t, i + 2)
                prev = tokens[j - 1]; nxt = tokens[j + 1] if j + 1 < len(tokens) else None
                if t.isdigit() and ncols is not None and not (1 <= int(t) <= ncols) and prev in ('by', ',') and nxt in (None, ',', 'desc', 'asc', 'limit', 'into'):
                    return 'order-position'
    return None


def cli_replay_reject(tokens):
    def rep():
        exe = common.native_binary()
        argv = render_argv(tokens)
        tree = {'a.txt': {'size': 3}, 'd': {'kind': 'dir'}, 'd/b': {'size': 17}}
        for args in (argv, [' '.join(argv)]):
            r = common.run_cli(exe, args, tree, timeout=5)
            if r['timed_out'] or r['status'] not in (0, 1, 2):
                return True, 'fselect %r: status %s' % (args, r['status'])
            if r['status'] != 2 or r['stdout']:
                return True, 'fselect %r is malformed but ends with status %s and %d result row(s) (stderr %r)' % (args, r['status'], len(r['stdout'].split(chr(10))) - 1, r['stderr'][:80])
        return False, 'fselect %r: rejected with status 2 and no rows' % (argv,)
    return rep


def run_family(sess, fam):
    prog = sess.prog
    prefix, alpha, nq, nt = FAMILIES[fam]
    maxn = nq if sess.tier == 'quick' else nt
    sess.bounds['parse/' + fam] = {'prefix': prefix, 'alphabet': alpha, 'symbolic tokens': '0..%d' % maxn}
    ov = P.table_overrides() + P.lexer_stub_overrides() + [
        (r'^UserDirs::new$|^directories::UserDirs::new$', lambda ctx, a, c: none(), 'stub:UserDirs::new(None)'),
    ]
    parse = prog.find('Parser', 'parse')
    findings = {}      # role -> (tokens, kind, detail)
    accepted = {}      # role -> tokens of a malformed vector the parser accepts
    st = {'paths': 0, 'ok': 0, 'err': 0, 'panic': 0, 'hang': 0}
    budget = 60 if sess.tier == 'quick' else 1500
    import time
    t0 = time.time()
    complete_all = True
    for n in range(0, maxn + 1):
        total = len(prefix) + n
        ex = sess.executor(ov, unwind=total + 4, maxsteps=300000)

        def runp(ctx, n=n):
            lex = [P.mk_lexem(prog, t) for t in prefix]; tv = []
            for i in range(n):
                l, t = P.sym_lexem(ctx, prog, alpha, 't%d' % i)
                lex.append(l); tv.append(t)
            parser = P.mk_parser(prog, lex, roots_parsed=False, where_parsed=False)
            from mirsym.models_std import Seq
            res = ctx.call_fn(parse, [Ref(Cell(parser)), Seq([]), BoolVal(False)])
            return tv, res

        def witness(ctx, tv):
            m = ctx.model()
            return prefix + [alpha[m.eval(t, model_completion=True).as_long()] for t in tv]

        def on_path(ctx, out, n=n):
            st['paths'] += 1
            if out[0] == 'ret':
                tv, res = out[1]
                d = res.d if isinstance(res.d, int) else conc(res.d)
                st['ok' if d == 0 else 'err'] += 1
                if d == 0 and tv:
                    # an accepted vector: must not be one of the malformed shapes (up to 6 assignments per path)
                    block = []
                    for _ in range(6):
                        if ctx.check(*block) != z3.sat:
                            break
                        m = ctx.model(*block)
                        idx = [m.eval(t, model_completion=True).as_long() for t in tv]
                        toks = prefix + [alpha[i] for i in idx]
                        cat = malformed(toks, ncols_known=(1 if fam in ('orderby',) else None))
                        if cat:
                            accepted.setdefault('parse/accepts/' + cat, toks)
                        block.append(Or([t != i for t, i in zip(tv, idx)]))
                return
            if out[0] == 'panic':
                st['panic'] += 1
                toks = witness(ctx, ctx.ghost.get('tv') or _tv(ctx))
                msg = out[1]
                import re as _re
                mm = _re.search(r'\[in (\S+) (bb\d+)\]', msg)
                fn = mm.group(1) if mm else '?'
                kind = ('sub-overflow' if '`{} - {}`' in msg else 'add-overflow' if '`{} + {}`' in msg else 'index' if 'index out of bounds' in msg
                        else 'unwrap-err' if 'Result::unwrap' in msg else 'unwrap-none' if 'Option::unwrap' in msg else 'expect' if 'expect' in msg else 'panic')
                role = 'parse/panic/%s/%s' % (fn, kind)
                findings.setdefault(role, (toks, 'panic', msg))
                return
            if out[0] == 'end' and 'UNWIND' in out[1]:
                st['hang'] += 1
                toks = witness(ctx, _tv(ctx))
                fn = out[1].split('>::')[-1].split(' ')[0]
                role = 'parse/hang/' + fn
                findings.setdefault(role, (toks, 'hang', out[1]))
                return
            if out[0] == 'end' and out[1] == 'STEPS':
                st['hang'] += 1
                toks = witness(ctx, _tv(ctx))
                findings.setdefault('parse/hang/steps', (toks, 'hang', 'step budget exhausted'))
                return
            st['bad'] = True
            sess.inconclusive('parse/%s n=%d' % (fam, n), str(out), 'parse/' + fam)

        def _tv(ctx):
            return ctx.ghost.get('tv_list', [])

        # remember the token variables on the context for witnesses of abnormal ends
        def runp_wrapped(ctx, n=n):
            lex = [P.mk_lexem(prog, t) for t in prefix]; tv = []
            for i in range(n):
                l, t = P.sym_lexem(ctx, prog, alpha, 't%d' % i)
                lex.append(l); tv.append(t)
            ctx.ghost['tv_list'] = tv
            parser = P.mk_parser(prog, lex, roots_parsed=False, where_parsed=False)
            from mirsym.models_std import Seq
            res = ctx.call_fn(parse, [Ref(Cell(parser)), Seq([]), BoolVal(False)])
            return tv, res

        left = budget - (time.time() - t0)
        if left <= 5:
            complete_all = False; break
        cnt, complete = ex.explore(runp_wrapped, on_path, time_budget=left)
        if not complete:
            complete_all = False
            sess.notes.append('parse/%s: %d symbolic tokens not exhausted within the budget (%d paths)' % (fam, n, cnt))
            break
        st['max_n_done'] = n
    # replay: one witness per role; only CLI-reproducible ones are violations
    parser_only = []
    for role, (toks, kind, detail) in sorted(findings.items()):
        rep = cli_replay(toks)
        repro, det = rep()
        if repro:
            sess.violated('parse/%s: %s' % (fam, ' '.join(toks)), role, '%s: %s' % (kind, detail[:160]), {'tokens': toks}, (lambda r=repro, d=det: (r, d)), 'parse/' + fam)
        else:
            parser_only.append((' '.join(toks), kind, det[:120]))
    for role, toks in sorted(accepted.items()):
        rep = cli_replay_reject(toks)
        repro, det = rep()
        if repro:
            sess.violated('parse/%s: %s' % (fam, ' '.join(toks)), role, 'a malformed query (%s) is accepted by Parser::parse' % role.rsplit('/', 1)[1], {'tokens': toks},
                          (lambda r=repro, d=det: (r, d)), 'parse/' + fam)
        else:
            parser_only.append((' '.join(toks), 'accepted', det[:120]))
    if parser_only:
        sess.notes.append('parse/%s: %d parser-level findings do not reproduce through the command line (token vectors the lexer does not produce): %r'
                          % (fam, len(parser_only), parser_only[:6]))
    if not st.get('bad'):
        sess.discharged('parse/%s: token vectors with up to %d symbolic tokens: %d paths (Ok %d, Err %d); abnormal ends (panic %d, no-progress %d) are reported separately'
                        % (fam, st.get('max_n_done', 0), st['paths'], st['ok'], st['err'], st['panic'], st['hang']), family='parse/' + fam, queries=max(1, st['paths']))
    sess.sample({'family': 'parse/' + fam, 'stats': st, 'example_findings': [(' '.join(v[0]), v[1]) for v in list(findings.values())[:5]]})


def _shape(toks):
    out = []
    for t in toks:
        if t in ('name', 'size', 'is_dir'):
            out.append('F')
        elif t.lstrip('-').isdigit():
            out.append('N' if t not in ('0',) else '0')
        elif t in ('x', '.', 'nope', 'json'):
            out.append('w')
        else:
            out.append(t)
    return ' '.join(out)


# ------------------------------------------------------------------------------------------------ literals that cannot be interpreted
BAD_LITERALS = {
    # column type -> (column, its registered value, literals)
    'Bool': ('IsDir', ['maybe', '2', 'TRUE', 'tru', '-1', 'yes ', 'on', 'nul']),
    'DateTime': ('Modified', ['-ab', '+x', '-', '+', '٢٠٢٣-01-01', '2021-01-01 ٢٣', '2021-13-45', '2021-02-30', '2021-01-01 25', '2021-01-01 10:61', '2021-01-01 10:10:61', '0000-00-00', '-99999999999999999', '+99999999999', '-100000000',
                              'garbage', 'yesterdayx', '+1', '-999', '1969-12-31', '9999-12-31', 'x']),
    'Int': ('Size', ['abc', '1.5.5k', '-', '٣', '99999999999999999999', 'nan', '9999999999999999999999k', 'kb', '.', '-k']),
    'String': ('Name', ['[', '(', '(?P<', '\\', '*[', '%[', 'a{2', '**', '']),
}


def fam_literals(sess):
    """a well-formed comparison whose literal cannot be interpreted (boolean, date, number, pattern): the real Searcher::conforms from
    MIR on column OP literal for every operator — every path ends in a verdict or in error_exit (status 2), never in a panic"""
    from drivers import c13
    from mirsym.models_std import Str
    from mirsym.core import some, none, EnumV
    from mirsym.models_fmt import NumStr
    prog = sess.prog
    fam = 'literals'
    pds = (r'^parse_date_string$|^chrono_english::parse_date_string$',
           lambda ctx, args, callee: (c13.ok(c13.DateC(ctx.fresh_bv('ce_day', 64) & 0xffff, c13.u32(0), c13.u32(0), c13.u32(0))) if ctx.decide(ctx.fresh_bool('chrono_english_ok')) else c13.err(Str('bad date'))),
           'chrono-english:parse_date_string (Ok(any instant) | Err; contract: does not panic)')
    ov = [pds] + c13.concrete_chrono() + [E.GFV_OVERRIDE, E.CONVERT_OVERRIDE]
    ex = sess.executor(ov, unwind=40)
    sess.bounds[fam] = {t: {'column': c, 'literals': l} for t, (c, l) in BAD_LITERALS.items()}
    sess.bounds[fam]['operators'] = E.OPS[:12]
    viol = {}
    st = {'paths': 0, 'exits': 0, 'bad': {}}
    for ty, (col, lits) in BAD_LITERALS.items():
        for op in E.OPS[:12]:
            for lit in lits:
                def run(ctx, ty=ty, col=col, op=op, lit=lit):
                    d = c13.DateC(BitVecVal(18000, 64), c13.u32(1), c13.u32(2), c13.u32(3))
                    vals = {'IsDir': E.mk_variant(prog, 'Bool', bool_value=some(BoolVal(True)), string_value=Str('true')),
                            'Modified': E.mk_variant(prog, 'DateTime', string_value=Str('2019-04-14 01:02:03'), int_value=some(BitVecVal(0, 64)), dt_from=some(d), dt_to=some(d)),
                            'Size': E.mk_variant(prog, 'Int', int_value=some(BitVecVal(12, 64)), string_value=Str('12')),
                            'Name': E.mk_variant(prog, 'String', string_value=Str('a.txt'))}
                    ctx.ghost['fields'] = vals
                    e = E.expr_cmp(prog, E.expr_field(prog, col), E.op_enum(prog, op), E.expr_value(prog, lit))
                    return E.run_conforms(ctx, prog, e)

                def on_path(ctx, out, ty=ty, col=col, op=op, lit=lit):
                    st['paths'] += 1
                    if out[0] == 'ret':
                        return
                    if out[0] == 'exit':
                        st['exits'] += 1
                        if out[1] != 2:
                            sess.violated('%s: %s %s %r' % (fam, col, op, lit), 'literals/exit-status/' + ty, 'exits with status %r' % (out[1],), {}, None, fam)
                        return
                    if out[0] == 'panic':
                        where_ = str(out[1]).split('[in ')[-1].rstrip(']').replace(' ', ':') if '[in ' in str(out[1]) else 'x'
                        role = 'literals/panic/%s/%s' % (ty, where_)
                        if viol.get(role):
                            return
                        viol[role] = True
                        q = "name from . where %s %s '%s'" % (col_sql(col), E.OP_TEXT.get(op, op.lower()), lit)

                        def rep(q=q):
                            exe = common.native_binary()
                            r = common.run_cli(exe, [q], {'a.txt': {'size': 12}, 'd': {'kind': 'dir'}}, timeout=5)
                            return r['status'] not in (0, 1, 2), 'fselect "%s" exits with status %s: %s' % (q, r['status'], r['stderr'].strip()[:160])
                        sess.violated('%s: %s %s %r' % (fam, col, op, lit), role, str(out[1])[:200], {'query': q}, rep, fam)
                        return
                    st['bad'].setdefault(str(out)[:160], (col, op, lit))
                ex.explore(run, on_path)
    for what, (col, op, lit) in list(st['bad'].items())[:6]:
        sess.inconclusive('%s: %s %s %r' % (fam, col, op, lit), what, fam)
    if not viol and not st['bad']:
        sess.discharged('literals: %d column / operator / literal combinations end in a verdict or a status-2 diagnostic (%d paths, %d of them error_exit)' % (
            sum(len(l) for _, l in BAD_LITERALS.values()) * 12, st['paths'], st['exits']), family=fam, queries=st['paths'])


def col_sql(c):
    import re as _re
    return _re.sub(r'(?<!^)([A-Z])', r'_\1', c).lower()


# queries that must be REJECTED (status 2, no row): a bracket closed by the other kind
E2E_REJECT = ["lower{name) from R0", "lower(name} from R0", "substr{name, 1, 2) from R0", "name from R0 where (size > 1}", "name from R0 where {size > 1)"]
E2E_BAD = ["name from 't[' depth 1 rx", "size, count(*) from R0 group by size limit 9", "name from R0 order by (size + 1) * 2, -size", "name from 'R0/(' rx", "name from R0 where name =~ '['", "name from R0 where name like '%['", "name from R0 where is_dir = maybe",
           "name from R0 where size = 'abc'", "name, substr(name, 'x') from R0", "name from R0 order by 7", "name from R0 limit x", "name from R0 into nope",
           "name from R0 where name = 'a' and", "name from R0 where (size > 1", "min(name), name from R0 group by", "name from R0 where size between 1"]


def fam_e2e_bad(sess):
    """whole program (real main::exec_search from MIR: lexer, parser, searcher, writer) on concrete query texts that are malformed or
    carry a literal / root pattern that cannot be interpreted: every path returns a status in {0, 1, 2} or calls exit(2); none panics"""
    from drivers import e2e
    prog = sess.prog
    fam = 'e2e_bad'
    qs = (E2E_BAD if sess.tier != 'quick' else E2E_BAD[:10]) + (E2E_REJECT if sess.tier != 'quick' else E2E_REJECT[:3])
    sess.bounds[fam] = {'queries': qs, 'nodes': 3, 'must be rejected with status 2': E2E_REJECT}
    for text in qs:
        ex = sess.executor(e2e.overrides(), unwind=403, maxsteps=4000000)
        box = {'paths': 0}

        def runp(ctx, text=text):
            return e2e.run_query(ctx, prog, text, 3)

        def on_path(ctx, out, text=text):
            box['paths'] += 1
            nm = '%s `%s`' % (fam, text)
            if text in E2E_REJECT and (out[0] == 'ret' or (out[0] == 'exit' and out[1] != 2)):
                st_ = out[1][1] if out[0] == 'ret' else None
                if (st_ is None or ctx.check(st_ != 2) != z3.unsat or ctx.ghost.get('stdout')) and not box.get('viol'):
                    box['viol'] = True
                    sess.violated(nm, 'e2e_bad/accepted', 'a malformed query is not rejected with status 2 (printed %r)' % (ctx.ghost.get('stdout'),), {'query': text}, cli_replay_reject(text), fam)
                return
            if out[0] == 'ret':
                fs, status = out[1]
                if ctx.check(And(status != 0, status != 1, status != 2)) != z3.unsat and not box.get('viol'):
                    box['viol'] = True
                    sess.violated(nm, 'e2e_bad/status', 'returns a status outside 0..2', {'query': text}, cli_replay_text(text), fam)
                return
            if out[0] == 'exit':
                if out[1] not in (0, 1, 2) and not box.get('viol'):
                    box['viol'] = True
                    sess.violated(nm, 'e2e_bad/status', 'exit(%r)' % (out[1],), {'query': text}, cli_replay_text(text), fam)
                return
            if out[0] == 'panic':
                if not box.get('viol'):
                    box['viol'] = True
                    where_ = str(out[1]).split('[in ')[-1].rstrip(']').split(' ')[0] if '[in ' in str(out[1]) else 'x'
                    sess.violated(nm, 'e2e_bad/panic/' + where_, str(out[1])[:200], {'query': text}, cli_replay_text(text), fam)
                return
            if not box.get('bad'):
                box['bad'] = True; sess.inconclusive(nm, str(out)[:300], fam)
        n, complete = ex.explore(runp, on_path, time_budget=240)
        if not complete:
            sess.inconclusive('%s `%s`' % (fam, text), 'time budget exceeded after %d paths' % n, fam)
        elif not box.get('viol') and not box.get('bad'):
            sess.discharged('%s `%s`: status 0..2 on every path' % (fam, text), family=fam, queries=box['paths'])


def cli_replay_reject(text):
    def rep():
        exe = common.native_binary()
        r = common.run_cli(exe, [text], {'R0': {'kind': 'dir'}, 'R0/a.txt': {'size': 3}, 'R0/d': {'kind': 'dir'}}, timeout=5)
        return r['status'] != 2 or r['stdout'] != '', 'fselect "%s" -> status %s, stdout %r (a malformed query ends with status 2 and no row)' % (text, r['status'], r['stdout'][:80])
    return rep


def cli_replay_text(text):
    def rep():
        exe = common.native_binary()
        tree = {'R0': {'kind': 'dir'}, 'R0/a.txt': {'size': 3}, 'R0/d': {'kind': 'dir'}}
        r = common.run_cli(exe, [text], tree, timeout=5)
        if r['timed_out']:
            return True, 'fselect "%s" does not terminate (killed after 5 s)' % text
        return r['status'] not in (0, 1, 2), 'fselect "%s" exits with status %s: %s' % (text, r['status'], r['stderr'].strip()[:160])
    return rep


ARGV_HEADS = [['-c'], ['--config'], ['/c'], ['-c', 'cfg.toml'], ['-c', 'Dir/Cfg.toml', 'name', 'from', 'R0'], ['-i'], ['--nocolor'], ['--no-color', '-c'], ['-i', '-c'], ['-v'], ['--help'], ['-C'],
              ['--nocolor', 'name', 'from', 'R0'], ['-c', 'cfg.toml', 'name', 'from', 'R0']]


def fam_argv(sess):
    """the real main::main from MIR on argument vectors that begin with program options (-c / --config with and without its path, -i,
    --nocolor, -v, --help and combinations): every path returns an exit code or calls exit; none indexes past the arguments.
    env::args is the vector, Config::new / Config::from give the default configuration (or fail), the interactive loop and the search
    itself (exec_search: families e2e_bad / the other properties) are cut"""
    from mirsym.models_std import Str, Seq, ListIter
    from mirsym.core import ok, err, UNIT, EnumV, Agg
    prog = sess.prog
    fam = 'argv'
    mainf = prog.find_free('main')
    sess.bounds[fam] = {'argument vectors': [' '.join(a) for a in ARGV_HEADS]}
    viol = {}
    st = {'paths': 0, 'bad': {}}
    for head in ARGV_HEADS:
        def models(head=head):
            argv = ['fselect'] + list(head)
            from drivers import walker as W_
            dflt = lambda ctx, a, c: W_.mk_config(prog)
            return [(r'^(std::env::|env::)?args$', lambda ctx, a, c: ListIter([Str(x) for x in argv]), 'env::args (the argument vector of the scenario)'),
                    (r'^<(std::env::)?Args as ExactSizeIterator>::len$', lambda ctx, a, c: BitVecVal(len(argv), 64), 'Args::len'),
                    (r'(^|::)Config::new$', lambda ctx, a, c: ok(dflt(ctx, a, c)), 'Config::new (the default configuration)'),
                    (r'^<(config::)?Config as (std::default::)?Default>::default$|(^|::)Config::default$', dflt, 'Config::default (every setting unset)'),
                    (r'(^|::)Config::from$', lambda ctx, a, c: (ctx.ghost.setdefault('config_paths', []).append(a[0]), (ok(dflt(ctx, a, c)) if ctx.decide(ctx.fresh_bool('config_file_readable')) else err(Str('cannot read the configuration file'))))[1], 'Config::from (Ok(default) | Err; the path is recorded)'),
                    (r'^(std::env::|env::)?var$', lambda ctx, a, c: err(UNIT), 'env::var (unset)'),
                    (r'(^|::)exec_search$', lambda ctx, a, c: BitVecVal(0, 8), 'cut: exec_search (families e2e_bad and the other properties)'),
                    (r'(^|::)usage_info$|(^|::)short_usage_info$|(^|::)help_hint$', lambda ctx, a, c: UNIT, 'cut: usage texts'),
                    (r'^<Stdout as IsTerminal>::is_terminal$|^<Stdin as IsTerminal>::is_terminal$', lambda ctx, a, c: BoolVal(False), 'is_terminal (false)'),
                    (r'^const (std::process::)?ExitCode::(SUCCESS|FAILURE)$', lambda ctx, a, c: ('exitcode', BitVecVal(0 if c.endswith('SUCCESS') else 1, 8)), 'ExitCode::SUCCESS / FAILURE'),
                    (r'^From/Into <PathBuf as From<.*>>::from$|^<PathBuf as From<.*>>::from$|^(std::path::)?PathBuf::from$', lambda ctx, a, c: ('path', a[0]), 'PathBuf::from (opaque)'),
                    (r'^(std::process::)?ExitCode::from$|^<(std::process::)?ExitCode as From<u8>>::from$', lambda ctx, a, c: ('exitcode', a[0]), 'ExitCode::from'),
                    (r'DefaultEditor::new$|Editor::.*$|rustyline::', lambda ctx, a, c: (_ for _ in ()).throw(P.Unmodelled('interactive mode (cut)')), 'cut: interactive mode')]
        ex = sess.executor(models(), unwind=40)

        def run(ctx):
            return ctx.call_fn(mainf, [])

        def on_path(ctx, out, head=head):
            st['paths'] += 1
            nm = '%s `fselect %s`' % (fam, ' '.join(head))
            if out[0] in ('ret', 'exit'):
                # the configuration file that is opened is the one that was named, letter for letter
                for pth in ctx.ghost.get('config_paths', []):
                    inner = ctx.deref(pth[1]) if isinstance(pth, tuple) else None
                    txt = inner.s if hasattr(inner, 's') else None
                    if txt is not None and len(head) > 1 and txt != head[1] and not viol.get('argv/config-path'):
                        viol['argv/config-path'] = True

                        def rep2(head=head):
                            import tempfile, shutil, subprocess, os
                            exe = common.native_binary()
                            d = tempfile.mkdtemp(prefix='verif-c10a-', dir=common.SCRATCH_ROOT)
                            try:
                                os.makedirs(os.path.join(d, 'Dir')); open(os.path.join(d, 'Dir', 'Cfg.toml'), 'w').write('is_doc = [".zzz"]\n'); open(os.path.join(d, 'a.zzz'), 'w').write('x')
                                r = subprocess.run([exe, '-c', os.path.join(d, 'Dir', 'Cfg.toml'), 'is_doc from %s where name = a.zzz' % d], env={'PATH': os.environ['PATH'], 'HOME': d, 'XDG_CONFIG_HOME': os.path.join(d, 'x')}, stdout=subprocess.PIPE, stderr=subprocess.PIPE, timeout=10)
                                return r.stdout.decode().strip() != 'true', 'fselect -c <tmp>/Dir/Cfg.toml (is_doc = [".zzz"]) is_doc of a.zzz -> %r %s' % (r.stdout.decode().strip(), r.stderr.decode()[:120])
                            finally:
                                shutil.rmtree(d, ignore_errors=True)
                        sess.violated(nm, 'argv/config-path', 'the configuration file opened is %r, the one named is %r' % (txt, head[1]), {'argv': head}, rep2, fam)
                return
            if out[0] == 'panic':
                where_ = str(out[1]).split('[in ')[-1].rstrip(']').replace(' ', ':') if '[in ' in str(out[1]) else 'x'
                role = 'argv/panic/' + where_
                if viol.get(role):
                    return
                viol[role] = True

                def rep(head=head):
                    exe = common.native_binary()
                    r = common.run_cli(exe, list(head), {'R0': {'kind': 'dir'}, 'R0/a': {'size': 1}, 'cfg.toml': {'size': 0}}, timeout=5, stdin=b'')
                    return r['status'] not in (0, 1, 2), 'fselect %s -> status %s %s' % (' '.join(head), r['status'], r['stderr'].strip()[:160])
                sess.violated(nm, role, str(out[1])[:200], {'argv': head}, rep, fam)
                return
            if out[0] == 'unmodelled' and 'interactive' in str(out[1]):
                return          # the path enters the interactive loop: cut
            st['bad'].setdefault(str(out)[:200], head)
        ex.explore(run, on_path)
    for what, head in list(st['bad'].items())[:5]:
        sess.inconclusive('%s `fselect %s`' % (fam, ' '.join(head)), what, fam)
    if not viol and not st['bad']:
        sess.discharged('argv: %d argument vectors of program options: an exit code on every path, no index past the arguments' % len(ARGV_HEADS), family=fam, queries=st['paths'])


def main(sess):
    sess.engines = ['mirsym (MIR symbolic execution) + z3']
    sess.assumptions += [
        'the lexer is replaced by the symbolic lexem vector (Lexer::new / next_lexem stubbed; the lexer loop over raw bytes is not covered); '
        'UserDirs::new returns None (no home directory expansion)',
        'a hang is a path on which some parser loop runs more often than (number of tokens + 4) times',
        'evaluation-time crashes (function arguments, date / boolean literals) are decided by the drivers of C13 / C16 and included here by reference',
    ]
    only = getattr(sess, 'only', None)
    fams = list(FAMILIES) if sess.tier != 'quick' else ['full', 'where', 'orderby', 'groupby', 'tail', 'select']
    for fam in fams:
        if not only or fam in only:
            run_family(sess, fam)
    if not only or 'literals' in only:
        fam_literals(sess)
    if not only or 'e2e_bad' in only:
        fam_e2e_bad(sess)
    if not only or 'argv' in only:
        fam_argv(sess)
    if not only or 'eval' in only:
        # evaluation-time crashes: arithmetic on arbitrary operands (driver of C15)
        from drivers import c15, c16
        c15.fam_calc(sess)
        # scalar functions on ill-typed / out-of-range arguments (driver of C16)
        c16.fam_args(sess)
        c16.fam_args_all(sess)
