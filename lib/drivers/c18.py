"""C18 — following symlinks finds what is behind them, once, and always terminates.

The real walker (exec_search -> list_search_results -> visit_dir -> ok_to_visit_dir) runs from MIR with the `symlinks`
root option over an abstract file system with symbolic links: every non-root node may be a link whose target is any
node (or dangling), spelled absolutely or relative to the link's own directory; the root is given as an absolute path or
as `.` (cwd = root).  Path *spellings* are modelled (visited_dirs compares spellings, the OS resolves a relative spelling
against the cwd), inodes are per node (visited_inodes holds the inode of the entry itself)."""
import os
import z3
from z3 import BitVecVal, BoolVal, Not, And, Or, If, ULT, ULE, UGE
from mirsym.core import conc, Unmodelled, ok, err, UNIT
from drivers import evalcore as E, walker as W
from drivers.walker import PathV, CanonStr, IoError, FILE, DIR, LINK
import common


class LinkFS(W.FS):
    """adds spelling-aware resolution on top of the base abstract file system"""

    def __init__(self, ctx, M, root_is_dot, up=False):
        W.FS.__init__(self, ctx, M, roots=1, kinds=(FILE, DIR, LINK), follow=True)
        self.root_is_dot = root_is_dot
        self.text[0] = '.' if root_is_dot else '/abs/R0'
        self.canon = {0: '/abs/R0', 'UP': '/abs'}
        # `up`: a link may also point ABOVE the root, at the root's parent directory /abs (pseudo-node 'UP': a directory whose only
        # entry is R0, one level less deep than the root)
        self.up = up
        self.to_up = [ctx.fresh_bool('to_up%d' % i) if up else BoolVal(False) for i in range(M)]

    def chain(self, ctx, i):
        """decide the real parent chain of node i; -> canonical text"""
        if i in self.canon:
            return self.canon[i]
        if i not in self.known_parent:
            d = ctx.concretize(self.parent[i], range(i))
            self.known_parent[i] = d
        d = self.known_parent[i]
        pc = self.chain(ctx, d)
        self.rel_depth[i] = self.rel_depth[d] + 1
        self.root_of[i] = 0
        self.text.setdefault(i, pc + '/n%d' % i)
        self.canon[i] = pc + '/n%d' % i
        return self.canon[i]

    def real_depth(self, ctx, i):
        return self.chain(ctx, i).count('/') - '/abs/R0'.count('/')

    def children(self, ctx, d):
        if d == 'UP':
            return [0]
        out = W.FS.children(self, ctx, d)
        for c in out:
            self.canon[c] = self.chain(ctx, d) + '/n%d' % c
        return out

    def node_by_canon(self, ctx, text):
        """which node has this canonical text (deciding parent relations as needed); None if no such node"""
        if text == '/abs/R0':
            return 0
        if text == '/abs' and self.up:
            return 'UP'
        if not text.startswith('/abs/R0/'):
            return None
        comps = text[len('/abs/R0/'):].split('/')
        cur = 0
        for c in comps:
            if not c.startswith('n') or not c[1:].isdigit():
                return None
            i = int(c[1:])
            if i >= self.M or i <= 0:
                return None
            if i in self.known_parent:
                if self.known_parent[i] != cur:
                    return None
            else:
                if i <= cur or not ctx.decide(self.parent[i] == BitVecVal(cur, 8)):
                    return None
                self.known_parent[i] = cur
                self.canon[i] = self.canon[cur] + '/n%d' % i
                self.rel_depth[i] = self.rel_depth[cur] + 1
                self.root_of[i] = 0
                self.text.setdefault(i, self.canon[i])
            cur = i
        return cur

    def resolve_text(self, ctx, text):
        """OS resolution of a path text produced by read_link: absolute canonical text, or relative (against the cwd)"""
        if text.startswith('/'):
            return self.node_by_canon(ctx, os.path.normpath(text))
        cwd = '/abs/R0' if self.root_is_dot else '/abs'
        return self.node_by_canon(ctx, os.path.normpath(cwd + '/' + text))

    def final(self, ctx, n):
        """follow links at the final component (opendir / canonicalize semantics); None = dangling / loop"""
        for _ in range(self.M + 1):
            if n is None:
                return None
            if n == 'UP' or n == 0 or not ctx.decide(self.islink(n)):
                return n
            if self.up and ctx.decide(self.to_up[n]):
                return 'UP'
            t = ctx.concretize(self.target[n], range(self.M + 1))
            n = None if t == self.M else t
        return None


def link_models():
    base = W.models()
    out = []

    def reg(pat, name):
        def deco(f):
            out.append((pat, f, name)); return f
        return deco

    @reg(r'^(std::path::)?Path::new$', 'fs:path_new(link-aware)')
    def path_new(ctx, args, callee):
        from mirsym.core import Ref, Cell
        v = ctx.deref(args[0])
        if isinstance(v, PathV):
            return Ref(Cell(v))
        fs = W.fs_of(ctx)
        t = v.s
        if t == fs.text[0]:
            return Ref(Cell(PathV(0, t)))
        if t.startswith('/abs/') and hasattr(fs, 'resolve_text'):
            return Ref(Cell(PathV(fs.resolve_text(ctx, t), t)))         # a further root given by its absolute path
        return Ref(Cell(PathV(None, t)))

    @reg(r'(^|::)canonical_path$', 'fs:canonical_path(link-aware)')
    def canonical_path(ctx, args, callee):
        fs = W.fs_of(ctx)
        p = W.as_path(ctx, args[0])
        n = fs.final(ctx, p.node)
        if n is None:
            ctx.ghost.setdefault('faulted', []).append(('canon', p.text))
            return err(W.Str('No such file or directory'))
        if n == 'UP':
            return ok(CanonStr('UP', fs.rootdepth[0] - 1))
        fs.chain(ctx, n)
        return ok(CanonStr(n, fs.rootdepth[0] + BitVecVal(fs.real_depth(ctx, n), 32)))

    @reg(r'^(std::fs::)?read_dir$|^(std::path::)?Path::read_dir$', 'fs:read_dir(link-aware)')
    def read_dir(ctx, args, callee):
        from mirsym.models_std import ListIter
        fs = W.fs_of(ctx)
        p = W.as_path(ctx, args[0])
        n = fs.final(ctx, p.node)
        if n is None:
            ctx.ghost.setdefault('faulted', []).append(('read_dir', p.text))
            return err(IoError('not found'))
        if n != 'UP' and not ctx.decide(fs.isdir(n)):
            ctx.ghost.setdefault('faulted', []).append(('notdir', p.text))
            return err(IoError('not a directory'))
        kids = fs.children(ctx, n)
        ctx.ghost.setdefault('listed', []).append((p.text, n))
        ents = []
        for c in kids:
            e_text = p.text + ('/R0' if n == 'UP' else '/n%d' % c)
            ents.append(ok(EntryT(c, e_text)))
        return ok(ListIter(ents))

    @reg(r'^DirEntry::path$|^(std::fs::)?DirEntry::path$', 'fs:entry_path(link-aware)')
    def entry_path(ctx, args, callee):
        e = ctx.deref(args[0])
        return PathV(e.node, e.text)

    @reg(r'^(std::fs::)?read_link$', 'fs:read_link(link-aware)')
    def read_link(ctx, args, callee):
        fs = W.fs_of(ctx)
        p = W.as_path(ctx, args[0])
        L = p.node
        if fs.up and ctx.decide(fs.to_up[L]):
            tcanon = '/abs'
            text = os.path.relpath(tcanon, os.path.dirname(fs.chain(ctx, L))) if ctx.decide(fs.relative[L]) else tcanon
            return ok(PathV(fs.resolve_text(ctx, text) if text.startswith('/') else 'UP', text, via_link=L))
        t = ctx.concretize(fs.target[L], range(fs.M + 1))
        if t == fs.M:
            text = '/abs/dangling-%d' % L
            return ok(PathV(None, text, via_link=L))
        tcanon = fs.chain(ctx, t)
        if ctx.decide(fs.relative[L]):
            dcanon = os.path.dirname(fs.chain(ctx, L))
            text = os.path.relpath(tcanon, dcanon)
        else:
            text = tcanon
        node = fs.resolve_text(ctx, text)
        return ok(PathV(node, text, via_link=L))

    @reg(r'^(std::fs::)?symlink_metadata$|^(std::path::)?Path::metadata$|^(std::fs::)?metadata$', 'fs:metadata(link-aware)')
    def metadata(ctx, args, callee):
        fs = W.fs_of(ctx)
        p = W.as_path(ctx, args[0])
        n = p.node if 'symlink_metadata' in callee else fs.final(ctx, p.node)
        if n is None:
            return err(IoError('not found'))
        return ok(W.EntryV(0 if n == 'UP' else n))       # /abs is a directory like the root: same kind

    @reg(r'^(std::fs::)?Metadata::(is_dir|is_file|is_symlink)$', 'fs:Metadata::is_dir / is_file / is_symlink (of the node the metadata was taken from)')
    def meta_is(ctx, args, callee):
        fs = W.fs_of(ctx)
        e = ctx.deref(args[0])
        k = callee.rsplit('::', 1)[1]
        if e.node == 0:
            return BoolVal(k == 'is_dir')
        return fs.kind[e.node] == BitVecVal({'is_dir': DIR, 'is_file': FILE, 'is_symlink': LINK}[k], 8)

    return out + base


class EntryT(W.EntryV):
    __slots__ = ('text',)

    def __init__(self, node, text):
        W.EntryV.__init__(self, node)
        self.text = text


def run_family(sess, M, dot, dfs, fam, up=False, chains=False, second_root=False):
    prog = sess.prog
    ex = sess.executor(link_models(), unwind=3 * M + 6, maxsteps=600000)
    viol = {}; st = {'paths': 0}

    def runp(ctx):
        fs = LinkFS(ctx, M, dot, up)
        ctx.ghost['fs'] = fs
        ctx.ghost['follow'] = True
        ctx.ghost['match_all'] = BoolVal(True)

        def join_hook(ctx, a, b):
            # parent.join(relative target): the OS resolves it from the parent's real location
            pn = fs.final(ctx, a.node)
            text = a.text + '/' + b.text
            if b.text.startswith('/'):
                return PathV(fs.resolve_text(ctx, b.text), b.text, b.via_link)
            if pn is None:
                return PathV(None, text, b.via_link)
            node = fs.node_by_canon(ctx, os.path.normpath((fs.canon['UP'] if pn == 'UP' else fs.chain(ctx, pn)) + '/' + b.text))
            return PathV(node, text, b.via_link)

        def is_dir_hook(ctx, p, callee):
            n = fs.final(ctx, p.node)
            if n is None:
                return BoolVal(False)
            return BoolVal(True) if ('exists' in callee or n == 'UP') else fs.isdir(n)
        ctx.ghost['join_hook'] = join_hook
        ctx.ghost['is_dir_hook'] = is_dir_hook
        # a link can only point at something that exists: a node all of whose ancestors are directories (or nowhere: dangling)
        _d, real, _r = fs.terms()
        for i in range(1, M):
            for t in range(1, M):
                ctx.assume(Or(Not(fs.islink(i)), fs.target[i] != t, real[t]))
        if not chains:
            # scope: link targets are not links themselves
            for i in range(1, M):
                for t in range(1, M):
                    ctx.assume(Or(Not(fs.islink(i)), fs.target[i] != t, Not(fs.islink(t))))
        else:
            # a focused scenario: two links, a directory and one more entry (so that something can lie behind the chain)
            if M >= 5:
                ctx.assume(And(fs.islink(1), fs.islink(2), fs.isdir(3)))
            # chains of at most two links: the target of a link's target is not a link; no link points at itself
            for i in range(1, M):
                ctx.assume(Or(Not(fs.islink(i)), fs.target[i] != i))
                for t in range(1, M):
                    for u in range(1, M):
                        ctx.assume(Or(Not(fs.islink(i)), fs.target[i] != t, Not(fs.islink(t)), fs.target[t] != u, Not(fs.islink(u))))
        roots = [W.mk_root(prog, fs.text[0], BitVecVal(0, 32), BitVecVal(0, 32), dfs, symlinks=BoolVal(True))]
        if second_root:
            # a second root of the same query that is a directory of the first root's tree (node 1, a child of the root): "once per query"
            ctx.assume(fs.isdir(1))
            fs.chain(ctx, 1)
            roots.append(W.mk_root(prog, fs.canon[1], BitVecVal(0, 32), BitVecVal(0, 32), dfs, symlinks=BoolVal(True)))
        q = W.mk_query(prog, roots, BitVecVal(0, 32), ordered=False)
        status = W.run_exec_search(ctx, prog, q)
        return fs, status

    def on_path(ctx, out):
        st['paths'] += 1
        name = '%s M=%d' % (fam, M)
        if out[0] == 'end' and 'UNWIND' in out[1]:
            role = 'links/nontermination'
            if not viol.get(role):
                viol[role] = True
                sess.violated(name, role, 'the walk does not terminate within the bound: ' + out[1], {}, None, fam)
            return
        if out[0] == 'panic':
            role = 'links/panic'
            if not viol.get(role):
                viol[role] = True
                fs = ctx.ghost['fs']
                sess.violated(name, role, out[1][:200], {}, cli_replay(fs, ctx.model(), dot, dfs, second_root), fam)
            return
        if out[0] != 'ret':
            st['bad'] = True; sess.inconclusive(name, str(out), fam); return
        fs, status = out[1]
        trace = [n for n, mem in ctx.ghost.get('trace', [])]
        # specification: listed(d) least fixed point
        listed = [BoolVal(i == 0) for i in range(M)]
        for _ in range(M):
            rep = [BoolVal(False)] * M
            for i in range(1, M):
                r = BoolVal(False)
                for c in range(i):
                    r = Or(r, And(fs.parent[i] == BitVecVal(c, 8), listed[c]))
                rep[i] = r
            new = [BoolVal(i == 0) for i in range(M)]
            for d in range(1, M):
                via_entry = And(rep[d], fs.isdir(d))
                def leads_to(l, d):
                    one = fs.target[l] == BitVecVal(d, 8)
                    if not chains:
                        return one
                    two = Or([And(fs.target[l] == BitVecVal(t, 8), fs.islink(t), fs.target[t] == BitVecVal(d, 8)) for t in range(1, M) if t not in (l, d)] or [BoolVal(False)])
                    return Or(one, two)
                via_link = Or([And(rep[l], fs.islink(l), Not(fs.to_up[l]), leads_to(l, d), fs.isdir(d)) for l in range(1, M) if l != d] or [BoolVal(False)])
                new[d] = Or(via_entry, via_link)
            # the root can also be the target of a link: already listed
            listed = new
        reported = [BoolVal(False)] * M
        for i in range(1, M):
            r = BoolVal(False)
            for c in range(i):
                r = Or(r, And(fs.parent[i] == BitVecVal(c, 8), listed[c]))
            reported[i] = r
        cnt = {}
        for n in trace:
            cnt[n] = cnt.get(n, 0) + 1
        conds_rows = []
        for i in range(1, M):
            conds_rows.append(If(reported[i], BitVecVal(1, 8), BitVecVal(0, 8)) == BitVecVal(cnt.get(i, 0), 8))
        # the root's own row appears exactly when a reported link leads to its parent directory (listed once)
        up_followed = Or([And(reported[l], fs.islink(l), fs.to_up[l]) for l in range(1, M)] + [BoolVal(False)])
        if chains:
            # ... or to a link that leads there (a chain of two)
            up_followed = Or([up_followed] + [And(reported[l], fs.islink(l), Not(fs.to_up[l]), fs.target[l] == BitVecVal(t, 8), fs.islink(t), fs.to_up[t])
                                              for l in range(1, M) for t in range(1, M) if t != l])
        conds_rows.append(If(up_followed, BitVecVal(1, 8), BitVecVal(0, 8)) == BitVecVal(cnt.get(0, 0), 8))
        cond_status = status == 0
        for label, cs in (('rows', conds_rows), ('status', [cond_status])):
            r = ctx.check(Not(And(cs)))
            if r == z3.unsat:
                continue
            if r != z3.sat:
                st['bad'] = True; sess.inconclusive(name, 'solver unknown', fam); continue
            m = None
            for k in (1, 2):
                m = ctx.model(Not(And(cs)), z3.Sum([If(fs.islink(i), 1, 0) for i in range(1, M)]) <= k)
                if m is not None:
                    break
            if m is None:
                m = ctx.model(Not(And(cs)))
            # classify by the link that matters
            kinds = {i: m.eval(fs.kind[i], model_completion=True).as_long() for i in range(1, M)}
            links = [i for i in kinds if kinds[i] == LINK]
            cls = set()
            for l in links:
                t = m.eval(fs.target[l], model_completion=True).as_long()
                rel = z3.is_true(m.eval(fs.relative[l], model_completion=True))
                if z3.is_true(m.eval(fs.to_up[l], model_completion=True)):
                    cls.add('above-root')
                elif t == M:
                    cls.add('dangling')
                elif t != 0 and kinds.get(t) == FILE:
                    cls.add('to-file')
                elif rel:
                    cls.add('relative')
                else:
                    cls.add('absolute-dir')
            dup = any(v > 1 for v in cnt.values())
            role = 'links/%s/%s%s' % (label, '+'.join(sorted(cls)) or 'nolink', '/duplicates' if dup and label == 'rows' else '') + ('/dot-root' if dot else '')
            if viol.get(role):
                continue
            viol[role] = True
            sess.violated(name, role, 'reported %r, status %s, faults %r' % (trace, m.eval(status, model_completion=True), ctx.ghost.get('faulted')),
                          {'trace': trace}, cli_replay(fs, m, dot, dfs, second_root), fam)

    n, complete = ex.explore(runp, on_path, time_budget=(480 if sess.tier == 'quick' else 1500))
    if not complete:
        sess.inconclusive('%s M=%d' % (fam, M), 'time budget exceeded after %d paths' % n, fam)
    elif not viol and not st.get('bad'):
        sess.discharged('%s: %d nodes, every link graph: terminates, every directory behind a link listed once, status 0' % (fam, M), family=fam, queries=st['paths'])
    sess.sample({'family': fam, 'paths': st['paths']})


def cli_replay(fs, m, dot, dfs, second_root=False):
    def rep():
        exe = common.native_binary()
        M = fs.M
        par = {i: m.eval(fs.parent[i], model_completion=True).as_long() for i in range(1, M)}
        kind = {i: m.eval(fs.kind[i], model_completion=True).as_long() for i in range(1, M)}
        tgt = {i: m.eval(fs.target[i], model_completion=True).as_long() for i in range(1, M)}
        upl = {i: z3.is_true(m.eval(fs.to_up[i], model_completion=True)) for i in range(1, M)}
        rel = {i: z3.is_true(m.eval(fs.relative[i], model_completion=True)) for i in range(1, M)}
        path = {0: 'R0'}
        usable = {0: True}
        for i in range(1, M):
            path[i] = path[par[i]] + '/n%d' % i
            usable[i] = usable[par[i]] and (par[i] == 0 or kind[par[i]] == DIR)
        import tempfile, shutil, subprocess
        d = tempfile.mkdtemp(prefix='verif-c18-', dir=common.SCRATCH_ROOT)
        try:
            os.makedirs(os.path.join(d, 'R0'))
            for i in range(1, M):
                if not usable[i]:
                    continue
                p = os.path.join(d, path[i])
                if kind[i] == DIR:
                    os.makedirs(p, exist_ok=True)
                elif kind[i] == FILE:
                    open(p, 'w').write('x')
            for i in range(1, M):
                if usable[i] and kind[i] == LINK:
                    p = os.path.join(d, path[i])
                    if upl[i]:
                        t = d          # the parent directory of the root
                    elif tgt[i] == M or not usable.get(tgt[i], False):
                        t = os.path.join(d, 'dangling-%d' % i)
                    else:
                        t = os.path.join(d, path[tgt[i]])
                    if rel[i]:
                        t = os.path.relpath(t, os.path.dirname(p))
                    os.symlink(t, p)
            # expectation by a reference walk that follows links to directories, each real directory once
            want = []
            seen = set()
            def walk(real):
                rp = os.path.realpath(real)
                if rp in seen:
                    return
                seen.add(rp)
                for nme in sorted(os.listdir(real)):
                    q = os.path.join(real, nme)
                    want.append(nme)
                    if os.path.isdir(q):
                        walk(q)
            walk(os.path.join(d, 'R0'))
            if dot:
                cwd, root = os.path.join(d, 'R0'), '.'
            else:
                cwd, root = d, os.path.join(d, 'R0')
            argv = ['name', 'from', root, 'symlinks'] + (['dfs'] if dfs else [])
            if second_root:
                # the same query names a directory of the first root's tree as a second root: nothing may be listed twice
                argv += [',', os.path.join(d, 'R0', 'n1'), 'symlinks'] + (['dfs'] if dfs else [])
            p_ = subprocess.run([exe] + argv, cwd=cwd, stdout=subprocess.PIPE, stderr=subprocess.PIPE, timeout=20,
                                env={'PATH': os.environ['PATH'], 'HOME': d, 'TZ': 'UTC'})
            got = sorted(p_.stdout.decode().split('\n')[:-1])
            bad = got != sorted(want) or p_.returncode != 0
            desc = {path[i]: ('dir' if kind[i] == DIR else 'file' if kind[i] == FILE else 'link->%s%s' % ('<parent of R0>' if upl[i] else 'DANGLING' if tgt[i] == M else path.get(tgt[i]), ' (relative)' if rel[i] else ''))
                    for i in range(1, M) if usable[i]}
            return bad, 'fselect %s (cwd %s) on %r -> names %r status %s stderr %r ; expected names %r status 0' % (
                ' '.join(argv).replace(d, '<tmp>'), 'R0' if dot else '<tmp>', desc, got, p_.returncode, p_.stderr.decode()[:200].replace(d, '<tmp>'), sorted(want))
        except subprocess.TimeoutExpired:
            return True, 'the real binary did not terminate within 20 s'
        finally:
            shutil.rmtree(d, ignore_errors=True)
    return rep


def main(sess):
    sess.engines = ['mirsym (MIR symbolic execution) + z3']
    sess.assumptions += [
        'abstract file system with path spellings: the OS resolves an absolute text to the node with that canonical path and a relative text against the cwd; '
        'read_dir / canonicalize follow links at the final component; DirEntry::ino is the inode of the entry itself',
        'link targets are not links themselves except in the `chains` family (chains of two links); the root is an absolute path or `.`; no depth window; check_file summarised',
    ]
    quick = sess.tier == 'quick'
    M = 4 if quick else 5
    sess.bounds['links'] = {'nodes': M, 'targets': 'any node or dangling; in the `above` families also the parent directory of the root (nodes - 1)', 'spelling': 'absolute / relative to the link directory', 'root': 'absolute and `.`', 'modes': 'bfs, dfs'}
    only = getattr(sess, 'only', None)
    for dot in (False, True):
        for dfs in (False, True):
            fam = 'links/%s/%s' % ('dot' if dot else 'abs', 'dfs' if dfs else 'bfs')
            if not only or fam in only:
                run_family(sess, M, dot, dfs, fam)
    for dfs in (False, True):
        fam = 'links/two-roots/%s' % ('dfs' if dfs else 'bfs')       # from R0 symlinks, R0/n1 symlinks
        if not only or fam in only:
            run_family(sess, M, False, dfs, fam, second_root=True)
    fam = 'links/chains/bfs'
    if not only or fam in only:
        run_family(sess, 5, False, False, fam, chains=True)
    fam = 'links/above-chain/bfs'          # a chain of two links whose end lies outside (above) the root: rows appear only if it is followed
    if not only or fam in only:
        run_family(sess, 3, False, False, fam, up=True, chains=True)
    if not only or 'root_options' in only:
        from drivers import c01
        c01.fam_root_options(sess)
    # the search root as an INNER node of the abstract file system: links to directories outside / above the root, chains through outside links
    if not only or any(o.startswith('outside') for o in only):
        from drivers import c18_outside
        c18_outside.run(sess)
    # links that lead above the root (to the root's parent directory): one node fewer, bfs and dfs, absolute root
    for dfs in (False, True):
        fam = 'links/above/%s' % ('dfs' if dfs else 'bfs')
        if not only or fam in only:
            run_family(sess, M - 1, False, dfs, fam, up=True)
