"""C07 — aggregate functions return the mathematical aggregate of the matching entries.

Families (real MIR of function::get_aggregate_value with its closures, get_mean, get_variance, get_buffer_sum, and the
aggregate branch of Searcher::get_function_value / get_column_expr_value, executed symbolically):
  exact      COUNT / SUM / MIN / MAX over N rows, each row symbolic: key absent | non-numeric | decimal value (bit-vectors)
  avg        AVG == (sum as f64) / (count as f64), IEEE double, one rounding
  var        VAR_POP / VAR_SAMP / STDDEV_POP / STDDEV_SAMP == the textbook formula evaluated in the same order
             (z3 FloatingPoint; if the solver cannot decide, the structural comparison over uninterpreted float
             operations decides and a native battery of inputs confirms the numeric consequence)
  wiring     get_function_value: the aggregate's argument is evaluated into the row map under the key the aggregate
             later reads (display text of the argument), also when the argument is a scalar function
"""
import math, fractions
import z3
from z3 import BitVecVal, BoolVal, Not, And, Or, If, ULT, ULE, UGT
from mirsym.core import Agg, EnumV, Cell, Ref, BoxV, some, none, ok, err, conc, sconc, Unmodelled
from mirsym.models_std import Str, Seq, Map, table_str
from mirsym.models_fmt import NumStr, FloatStr
from drivers import evalcore as E
import common

KEY = 'Size'
AGG = ['Min', 'Max', 'Avg', 'Sum', 'Count', 'StdDevPop', 'StdDevSamp', 'VarPop', 'VarSamp']
SQL = {'Min': 'min', 'Max': 'max', 'Avg': 'avg', 'Sum': 'sum', 'Count': 'count', 'StdDevPop': 'stddev_pop', 'StdDevSamp': 'stddev_samp',
       'VarPop': 'var_pop', 'VarSamp': 'var_samp'}

NATIVE = r'''
#[cfg(test)]
mod verif_c07 {
    use super::*;
    // VERIF_INPUT: "<Function name>;v1,v2,...": rows {"Size": vi} ("-" = key absent, other text = as is)
    #[test]
    fn run() {
        let spec = std::env::var("VERIF_INPUT").unwrap();
        let mut it = spec.split(';');
        let f = Function::from_str(it.next().unwrap()).unwrap();
        let mut rows: Vec<HashMap<String, String>> = vec![];
        for v in it.next().unwrap().split(',').filter(|x| !x.is_empty()) {
            let mut m = HashMap::new();
            if v != "-" { m.insert(String::from("Size"), v.to_string()); }
            rows.push(m);
        }
        println!("VERIF_OUT value={}", get_aggregate_value(&Some(f), &rows, String::from("Size"), &None));
    }
}
'''


def native_agg(fname, vals):
    rc, lines, raw = common.native_unit('c07', 'src/function.rs', NATIVE, 'function::verif_c07::run', '%s;%s' % (SQL[fname], ','.join(vals)))
    v = None
    for l in lines:
        if l.startswith('value='):
            v = l[6:]
    return rc, v, raw


def ref_agg(fname, vals):
    """python reference on the concrete row values (strings; '-' absent; non-numeric ignored)"""
    nums = [int(v) for v in vals if v.isdigit()]
    n = len(vals)
    if fname == 'Count':
        return str(n)
    if fname == 'Sum':
        return str(sum(nums))
    if fname == 'Min':
        return str(min(nums) if nums else 0)
    if fname == 'Max':
        return str(max(nums) if nums else 0)
    if n == 0:
        return '0' if fname == 'Avg' else ''
    # the statistics are those of the values that are there: an entry without one (an unreadable file has no line_count) is no zero
    k = len(nums)
    if k == 0:
        return 0.0
    mean = fractions.Fraction(sum(nums), k)
    if fname == 'Avg':
        return float(mean)
    d = k if fname in ('VarPop', 'StdDevPop') else (1 if k <= 1 else k - 1)
    var = sum((mean - x) ** 2 for x in nums) / d
    return math.sqrt(var) if fname.startswith('StdDev') else float(var)


def close(a, b, tol=1e-9):
    try:
        a = float(a); b = float(b)
    except (TypeError, ValueError):
        return str(a) == str(b)
    if a == b:
        return True
    return abs(a - b) <= tol * max(1.0, abs(a), abs(b))


def replay_concrete(fname, vals):
    def rep():
        rc, got, raw = native_agg(fname, vals)
        want = ref_agg(fname, vals)
        bad = rc != 0 or got is None or not close(got, want)
        return bad, 'native %s over rows %r -> %r ; mathematical value %r (exit %s)' % (SQL[fname], vals, got, want, rc)
    return rep


BATTERY = [['1', '2'], ['3', '0'], ['1', '2', '4'], ['7'], ['5', '5', '6'], ['1073741824', '1073741825', '1073741838'],
           ['4294967296', '4294967297'], ['0', '0', '1'], ['10', '-', '20'], ['2', 'x', '4']]


def replay_battery(fname):
    def rep():
        for vals in BATTERY:
            rc, got, raw = native_agg(fname, vals)
            want = ref_agg(fname, vals)
            if rc != 0 or got is None or not close(got, want):
                return True, 'native %s over rows %r -> %r ; mathematical value %r (exit %s)' % (SQL[fname], vals, got, want, rc)
        return False, 'the structural difference has no numeric consequence on the battery %r' % (BATTERY,)
    return rep


def mk_rows(ctx, n, kinds=('num', 'absent', 'text'), bound=1 << 16):
    rows = []; info = []
    for i in range(n):
        k = ctx.fresh_bv('kind%d' % i, 8)
        ctx.assume(ULT(k, BitVecVal(len(kinds), 8)))
        kind = kinds[ctx.concretize(k, range(len(kinds)))] if len(kinds) > 1 else kinds[0]
        m = Map('HashMap')
        v = None
        if kind == 'num':
            v = ctx.fresh_bv('v%d' % i, 64)
            ctx.assume(ULT(v, BitVecVal(bound, 64)))
            m.insert(ctx, Str(KEY), NumStr(v, False))
        elif kind == 'text':
            m.insert(ctx, Str(KEY), Str('x'))
        rows.append(m); info.append((kind, v))
    return Seq(rows), info


def call_agg(ctx, prog, fname, rows):
    gav = prog.find_free('get_aggregate_value')
    f = some(EnumV(prog.src.variant_index('Function', fname), {}, 'Function'))
    return ctx.call_fn(gav, [Ref(Cell(f)), Ref(Cell(rows)), Str(KEY), Ref(Cell(none()))])


def model_rows(m, info):
    out = []
    for kind, v in info:
        out.append('-' if kind == 'absent' else ('x' if kind == 'text' else str(m.eval(v, model_completion=True).as_long())))
    return out


def fam_exact(sess):
    prog = sess.prog
    fam = 'exact'
    N = 3 if sess.tier == 'quick' else 5
    sess.bounds[fam] = {'rows': '0..%d' % N, 'row kinds': 'decimal value < 2^16 | key absent | non-numeric text', 'functions': 'COUNT SUM MIN MAX'}
    ex = sess.executor(unwind=N + 3)
    for fname in ('Count', 'Sum', 'Min', 'Max'):
        box = {}
        for n in range(0, N + 1):
            def run(ctx, n=n, fname=fname):
                rows, info = mk_rows(ctx, n)
                r = call_agg(ctx, prog, fname, rows)
                return info, r

            def on_path(ctx, out, n=n, fname=fname):
                name = '%s %s over %d rows' % (fam, fname, n)
                if out[0] != 'ret':
                    if out[0] == 'panic' and not box.get('viol'):
                        box['viol'] = True
                        sess.violated(name, 'agg/%s/panic' % fname, out[1], {}, None, fam)
                    elif out[0] != 'panic':
                        box['bad'] = True; sess.inconclusive(name, str(out), fam)
                    return
                info, r = out[1]
                box['paths'] = box.get('paths', 0) + 1
                nums = [v for k, v in info if k == 'num']
                if fname == 'Count':
                    exp = BitVecVal(n, 64)
                elif fname == 'Sum':
                    exp = BitVecVal(0, 64)
                    for v in nums:
                        exp = exp + v
                else:
                    exp = None
                if isinstance(r, NumStr) and not (r.pre or r.suf):
                    got = r.bv
                elif isinstance(r, Str) and r.s is not None and r.s.lstrip('-').isdigit():
                    got = BitVecVal(int(r.s), 64)
                else:
                    box['bad'] = True; sess.inconclusive(name, 'result is not a numeral: %r' % (r,), fam); return
                if exp is not None:
                    cond = got == exp
                elif not nums:
                    cond = got == 0
                else:
                    isel = Or([got == v for v in nums])
                    bound = And([(got <= v) if fname == 'Min' else (got >= v) for v in nums])
                    cond = And(isel, bound)
                res = ctx.check(Not(cond))
                if res == z3.unsat:
                    return
                if res != z3.sat:
                    box['bad'] = True; sess.inconclusive(name, 'solver unknown', fam); return
                if box.get('viol'):
                    return
                box['viol'] = True
                m = ctx.model(Not(cond))
                vals = model_rows(m, info)
                sess.violated(name, 'agg/' + fname, 'rows %r: %s = %s' % (vals, SQL[fname], m.eval(got, model_completion=True)),
                              {'function': fname, 'rows': vals}, replay_concrete(fname, vals), fam)
            ex.explore(run, on_path)
        if not box.get('viol') and not box.get('bad'):
            sess.discharged('%s %s: 0..%d rows, every mix of present / absent / non-numeric values' % (fam, fname, N), family=fam, queries=box.get('paths', 1))


def fam_float(sess):
    prog = sess.prog
    N = 2 if sess.tier == 'quick' else 3
    bound = 1 << 8
    sess.bounds['avg/var'] = {'rows': '1..%d' % N, 'values': '< %d' % bound, 'float': 'IEEE binary64 (z3 FloatingPoint), 20 s per query; structural fallback over uninterpreted operations'}
    F64 = z3.Float64(); RNE = z3.RNE()
    tofp = lambda bv: z3.fpToFPUnsigned(RNE, bv, F64)
    for fname in ('Avg', 'VarPop', 'VarSamp', 'StdDevPop', 'StdDevSamp'):
        fam = 'avg' if fname == 'Avg' else 'var'
        box = {}
        ex = sess.executor(unwind=N + 3, solver_timeout_ms=20000)
        for n in range(1, N + 1):
            def run(ctx, n=n, fname=fname):
                rows, info = mk_rows(ctx, n, kinds=('num',), bound=bound)
                r = call_agg(ctx, prog, fname, rows)
                return info, r

            def on_path(ctx, out, n=n, fname=fname, fam=fam):
                name = '%s %s over %d rows' % (fam, fname, n)
                if out[0] != 'ret':
                    if out[0] == 'panic' and not box.get('viol'):
                        box['viol'] = True
                        sess.violated(name, 'agg/%s/panic' % fname, out[1], {}, replay_battery(fname), fam)
                    elif out[0] != 'panic':
                        box['bad'] = True; sess.inconclusive(name, str(out), fam)
                    return
                info, r = out[1]
                box['paths'] = box.get('paths', 0) + 1
                vs = [v for _, v in info]
                s = BitVecVal(0, 64)
                for v in vs:
                    s = s + v
                mean = z3.fpDiv(RNE, tofp(s), tofp(BitVecVal(n, 64)))
                if fname == 'Avg':
                    exp = mean
                else:
                    d = n if fname in ('VarPop', 'StdDevPop') else (1 if n == 1 else n - 1)
                    acc = z3.FPVal(0.0, F64)
                    for v in vs:
                        diff = z3.fpSub(RNE, mean, tofp(v))
                        acc = z3.fpAdd(RNE, acc, z3.fpDiv(RNE, z3.fpMul(RNE, diff, diff), tofp(BitVecVal(d, 64))))
                    exp = z3.fpSqrt(RNE, acc) if fname.startswith('StdDev') else acc
                if not isinstance(r, FloatStr):
                    if isinstance(r, Str) and r.s is not None:
                        got = z3.FPVal(float(r.s), F64)
                    else:
                        box['bad'] = True; sess.inconclusive(name, 'result is not a float rendering: %r' % (r,), fam); return
                else:
                    got = r.fp
                if z3.simplify(got).eq(z3.simplify(exp)) or got.eq(exp):
                    return          # syntactically the specification
                res = ctx.check(Not(z3.fpEQ(got, exp)))
                if res == z3.unsat:
                    return
                if box.get('viol'):
                    return
                box['viol'] = True
                if res == z3.sat:
                    m = ctx.model(Not(z3.fpEQ(got, exp)))
                    vals = [str(m.eval(v, model_completion=True).as_long()) for v in vs]
                    sess.violated(name, 'agg/' + fname, 'rows %r: the computed value differs from the formula' % (vals,),
                                  {'function': fname, 'rows': vals}, replay_concrete(fname, vals), fam)
                else:
                    # undecided in IEEE arithmetic: the computation is structurally not the textbook formula; a battery of
                    # concrete inputs decides whether that has a numeric consequence
                    sess.violated(name, 'agg/' + fname, 'the computation is structurally different from the textbook formula (float query undecided)',
                                  {'function': fname}, replay_battery(fname), fam)
            ex.explore(run, on_path)
        if not box.get('viol') and not box.get('bad'):
            sess.discharged('%s %s: 1..%d rows' % (fam, fname, N), family=fam, queries=box.get('paths', 1))


def fam_absent(sess):
    """AVG / VAR / STDDEV when some entries have no value for the column (an unreadable file has no line_count; C17: aggregates over
    readable data are unaffected): the real get_aggregate_value over 2..3 rows each of which is a symbolic value or absent, compared
    with the mean / variance of the values that are present (concrete witnesses through the native function)"""
    prog = sess.prog
    fam = 'absent'
    N = 3
    sess.bounds[fam] = {'rows': '2..%d' % N, 'row kinds': 'decimal value < 256 | key absent', 'functions': 'AVG VAR_POP VAR_SAMP STDDEV_POP STDDEV_SAMP'}
    F64 = z3.Float64(); RNE = z3.RNE()
    tofp = lambda bv: z3.fpToFPUnsigned(RNE, bv, F64)
    for fname in ('Avg', 'VarPop', 'VarSamp', 'StdDevPop', 'StdDevSamp'):
        box = {}
        ex = sess.executor(unwind=N + 3, solver_timeout_ms=20000)
        for n in range(2, N + 1):
            def run(ctx, n=n, fname=fname):
                rows, info = mk_rows(ctx, n, kinds=('num', 'absent'), bound=256)
                return info, call_agg(ctx, prog, fname, rows)

            def on_path(ctx, out, n=n, fname=fname):
                name = '%s %s over %d rows' % (fam, fname, n)
                if out[0] != 'ret':
                    if out[0] == 'panic' and not box.get('viol'):
                        box['viol'] = True
                        sess.violated(name, 'agg/%s/absent/panic' % fname, out[1], {}, replay_battery(fname), fam)
                    elif out[0] != 'panic':
                        box['bad'] = True; sess.inconclusive(name, str(out), fam)
                    return
                info, r = out[1]
                box['paths'] = box.get('paths', 0) + 1
                vs = [v for k_, v in info if k_ == 'num']
                if len(vs) == len(info) or not vs:
                    return              # all present: family avg/var; none present: not specified
                # a concrete witness decides (the symbolic float comparison is the matter of avg/var): small distinct values
                m = ctx.model(*[v == BitVecVal(3 + 4 * i, 64) for i, v in enumerate(vs)])
                if m is None:
                    box['bad'] = True; sess.inconclusive(name, 'no witness', fam); return
                vals = model_rows(m, info)
                want = ref_agg(fname, vals)
                if isinstance(r, FloatStr):
                    got = z3.simplify(m.eval(r.fp, model_completion=True))
                    gotv = None
                    if z3.is_fp_value(got) and not got.isNaN() and not got.isInf():
                        q = z3.simplify(z3.fpToReal(got))
                        gotv = q.numerator_as_long() / q.denominator_as_long()
                elif isinstance(r, Str) and r.s is not None:
                    try:
                        gotv = float(r.s)
                    except ValueError:
                        gotv = None
                else:
                    gotv = None
                if gotv is not None and close(gotv, want):
                    return
                if box.get('viol'):
                    return
                box['viol'] = True
                sess.violated(name, 'agg/%s/absent' % fname, 'rows %r: %s = %r, over the values that are present it is %r' % (vals, SQL[fname], gotv, want),
                              {'function': fname, 'rows': vals}, replay_concrete(fname, vals), fam)
            ex.explore(run, on_path)
        if not box.get('viol') and not box.get('bad'):
            sess.discharged('%s %s: 2..%d rows, some of them without a value: the statistics of the values present' % (fam, fname, N), family=fam, queries=box.get('paths', 1))


def fam_wiring(sess):
    """MAX(<arg>) evaluated for one entry: the argument's value must land in the row map under the key the aggregate reads"""
    prog = sess.prog
    fam = 'wiring'
    ex = sess.executor([E.GFV_OVERRIDE], unwind=10)
    gcev = prog.find('Searcher', 'get_column_expr_value')
    fn = lambda name: EnumV(prog.src.variant_index('Function', name), {}, 'Function')
    args_ = {
        'size': lambda: E.expr_field(prog, 'Size'),
        'length(name)': lambda: E.mk_expr(prog, function=some(fn('Length')), left=some(BoxV(E.expr_field(prog, 'Name'))), args=some(Seq([]))),
    }
    for label, mk in args_.items():
        box = {}

        def run(ctx, mk=mk):
            sz = ctx.fresh_bv('size', 64); ctx.assume(ULT(sz, BitVecVal(1 << 16, 64)))
            ctx.ghost['fields'] = {'Size': E.mk_variant(prog, 'Int', int_value=some(sz), string_value=NumStr(sz, True)),
                                   'Name': E.mk_variant(prog, 'String', string_value=Str('héllo'))}
            inner = mk()
            e = E.mk_expr(prog, function=some(fn('Max')), left=some(BoxV(inner)), args=some(Seq([])))
            fm = Map('HashMap')
            s = E.mk_searcher(prog, raw_output_buffer=Seq([]))
            ctx.call_fn(gcev, [Ref(Cell(s)), some(Ref(Cell('DIRENTRY'))), Ref(Cell(none())), Ref(Cell(fm)), none(), Ref(Cell(e))])
            from mirsym.models_fmt import render_value
            key = render_value(ctx, inner, 'display', 'Expr')
            return fm, key, sz

        def on_path(ctx, out, label=label):
            name = '%s max(%s)' % (fam, label)
            if out[0] != 'ret':
                box['bad'] = True; sess.inconclusive(name, str(out), fam); return
            fm, key, sz = out[1]
            cell = fm.get(ctx, key)
            okv = cell is not None
            if okv:
                v = cell.v
                if label == 'size':
                    okv = isinstance(v, NumStr) and ctx.check(v.bv != sz) == z3.unsat
                else:
                    okv = isinstance(v, Str) and v.s == '5'
            if not okv and not box.get('viol'):
                box['viol'] = True

                def rep(label=label):
                    exe = common.native_binary()
                    tree = {'héllo': {'size': 3}, 'ab': {'size': 7}}
                    r = common.run_cli(exe, ['max(%s)' % label, 'from', '.'], tree)
                    want = '7' if label == 'size' else '5'
                    got = r['stdout'].strip()
                    return got != want, 'select max(%s) over {héllo: 3 bytes, ab: 7 bytes} -> %r, expected %r' % (label, got, want)
                sess.violated(name, 'agg/wiring/' + label, 'the value of the aggregate argument is not recorded under %r in the row map (map: %r)' % (key, fm),
                              {'arg': label}, rep, fam)
        ex.explore(run, on_path)
        if not box.get('viol') and not box.get('bad'):
            sess.discharged('%s: max(%s) records the argument value under the key the aggregate reads' % (fam, label), family=fam)


def fam_e2e(sess):
    """aggregate queries end to end (real lexer, parser, walker, check_file, aggregation, output) over the abstract file system"""
    from drivers import e2e
    S, N = e2e.SIZES, e2e.NAMES
    queries = [
        ('count(*) from R0', lambda v, k: [[str(len(v))]], True),
        ('count(*), sum(size) from R0', lambda v, k: [[str(len(v)), str(sum(S[i] for i in v))]], True),
        ('min(size), max(size), count(name) from R0', lambda v, k: [[str(min(S[i] for i in v)), str(max(S[i] for i in v)), str(len(v))]], True),
        ('count(*) from R0 where size > 6', lambda v, k: [[str(len([i for i in v if S[i] > 6]))]], True),
        ('max(length(name)), count(*) from R0 where is_dir = false', lambda v, k: [[str(max([len(N[i]) for i in v if not k[i]] or [0])), str(len([i for i in v if not k[i]]))]], True),
    ]
    if sess.tier == 'quick':
        queries = queries[:1] + queries[3:]
    e2e.family(sess, 'e2e', queries)


def main(sess):
    sess.engines = ['mirsym (MIR symbolic execution) + z3 %s' % z3.get_version_string()]
    sess.assumptions += [
        'rows are HashMap<String,String> (contract model) holding decimal renderings of values < 2^16 (exact family) / < 2^8 (float families), '
        'so sums do not overflow: overflow of usize sums of huge files is outside the claim',
        'f64::powi(x, 2) = x*x, f64::sqrt = IEEE sqrt; Display of f64 is injective (FloatStr)',
        'that the rows are exactly the entries matching WHERE is the walker/evaluator (C01, C02); GROUP BY is C08',
    ]
    only = getattr(sess, 'only', None)
    for name, f in (('exact', fam_exact), ('float', fam_float), ('absent', fam_absent), ('wiring', fam_wiring), ('e2e', fam_e2e)):
        if not only or name in only:
            f(sess)
