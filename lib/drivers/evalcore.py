"""Shared pieces for drivers that run the real WHERE evaluator (`Searcher::conforms`) from bb0:
constructors for the crate's Variant / Expr values (field order read from the source every run) and the
summary standing in for `get_column_expr_value` (its real body is the subject of C04/C15/C16)."""
import z3
from z3 import BitVecVal, BoolVal
from mirsym.core import Agg, EnumV, Cell, Ref, BoxV, UNINIT, some, none
from mirsym.models_std import Str, Map, Seq
from mirsym.models_ext import DateTimeV

OPS = ['Eq', 'Ne', 'Eeq', 'Ene', 'Gt', 'Gte', 'Lt', 'Lte', 'Rx', 'NotRx', 'Like', 'NotLike', 'Between', 'NotBetween']
OP_TEXT = {'Eq': '=', 'Ne': '!=', 'Eeq': '===', 'Ene': '!==', 'Gt': '>', 'Gte': '>=', 'Lt': '<', 'Lte': '<=',
           'Rx': '=~', 'NotRx': '!=~', 'Like': 'like', 'NotLike': 'notlike'}
CMP_OPS = ['Eq', 'Ne', 'Eeq', 'Ene', 'Gt', 'Gte', 'Lt', 'Lte']


def struct_fields(prog, name):
    f = prog.src.structs.get(name)
    if not isinstance(f, list):
        raise KeyError('struct %s not found in the sources' % name)
    return f


def mk_struct(prog, name, defaults, **kw):
    fields = struct_fields(prog, name)
    vals = dict(defaults); vals.update(kw)
    missing = [f for f in fields if f not in vals]
    if missing:
        raise KeyError('struct %s has fields this driver does not know: %s' % (name, missing))
    return Agg([vals[f] for f in fields], name)


def mk_variant(prog, ty, **kw):
    idx = prog.src.variant_index('VariantType', ty)
    if idx is None:
        raise KeyError('VariantType::' + ty)
    d = {'value_type': EnumV(idx, {}, 'VariantType'), 'string_value': Str(''), 'int_value': none(),
         'float_value': none(), 'bool_value': none(), 'dt_from': none(), 'dt_to': none()}
    return mk_struct(prog, 'Variant', d, **kw)


def mk_expr(prog, **kw):
    d = {f: none() for f in struct_fields(prog, 'Expr')}
    d['minus'] = BoolVal(False)
    return mk_struct(prog, 'Expr', d, **kw)


def op_enum(prog, name_or_term):
    if isinstance(name_or_term, str):
        return EnumV(prog.src.variant_index('Op', name_or_term), {}, 'Op')
    return EnumV(name_or_term, {}, 'Op')


def lop_enum(prog, name):
    return EnumV(prog.src.variant_index('LogicalOp', name), {}, 'LogicalOp')


def field_enum(prog, name):
    i = prog.src.variant_index('Field', name)
    if i is None:
        raise KeyError('Field::' + name)
    return EnumV(i, {}, 'Field')


def expr_field(prog, name):
    return mk_expr(prog, field=some(field_enum(prog, name)))


def expr_value(prog, s, minus=False):
    return mk_expr(prog, val=some(s if isinstance(s, Str) else Str(s)), minus=BoolVal(minus))


def expr_cmp(prog, left, op, right):
    return mk_expr(prog, left=some(BoxV(left)), op=some(op, 'Option'), right=some(BoxV(right)))


def leaf_cmp(prog, op, lf='Size', rf='Uid'):
    """`<column lf> op <column rf>`: both operands are columns whose values the driver registers in
    ctx.ghost['fields'] (any VariantType may be registered for any column: the tables do not depend on which
    column produced the value)"""
    return expr_cmp(prog, expr_field(prog, lf), op, expr_field(prog, rf))


def node_logical(prog, lop, a, b):
    return mk_expr(prog, left=some(BoxV(a)), logical_op=some(lop, 'Option'), right=some(BoxV(b)))


def gfv_summary(ctx, args, callee):
    """summary of Searcher::get_field_value(entry, file_info, field): the Variant registered by the driver for that
    column (ctx.ghost['fields'][name]); contract: a pure function of (entry, column). The real arms are C04."""
    from mirsym.core import clone_struct, conc
    from mirsym.core import Unmodelled
    fe = ctx.deref(args[-1])
    d = fe.d if isinstance(fe.d, int) else conc(fe.d)
    if d is None:
        raise Unmodelled('get_field_value summary on a symbolic Field')
    name = ctx.prog.src.variant_name('Field', d)
    tbl = ctx.ghost.get('fields', {})
    if name not in tbl:
        raise Unmodelled('get_field_value summary: no value registered for column ' + str(name))
    v = tbl[name]
    if callable(v):
        v = v(ctx)
    return clone_struct(v)


GFV_OVERRIDE = (r'Searcher::get_field_value$', gfv_summary, 'summary:get_field_value')


def convert_summary(ctx, args, callee):
    """summary of util::glob::convert_{glob,like}_to_pattern: a tagged pattern text (the translators themselves are
    decided by Engine C under C12)"""
    from mirsym.models_std import as_str, lift_str
    kind = 'GLOB' if 'convert_glob' in callee else 'LIKE'
    return lift_str(ctx, lambda a: '%s(%s)' % (kind, a), as_str(ctx, args[0]))


CONVERT_OVERRIDE = (r'convert_glob_to_pattern$|convert_like_to_pattern$', convert_summary, 'summary:convert_*_to_pattern')


def mk_searcher(prog, **kw):
    fields = struct_fields(prog, 'Searcher')
    vals = {f: UNINIT for f in fields}
    vals['regex_cache'] = Map('HashMap')
    vals.update(kw)
    return Agg([vals[f] for f in fields], 'Searcher')


EVAL_OVERRIDES = [GFV_OVERRIDE, CONVERT_OVERRIDE]


def run_conforms(ctx, prog, expr, searcher=None):
    conforms = prog.find('Searcher', 'conforms')
    s = searcher if searcher is not None else mk_searcher(prog)
    return ctx.call_fn(conforms, [Ref(Cell(s)), Ref(Cell('DIRENTRY')), Ref(Cell(none())), Ref(Cell(expr))])
