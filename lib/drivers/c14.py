"""C14 — size literals and size formatting follow the documented unit tables.

  parse    the real util::parse_filesize (string ladder, f64 multiply, cast) on  <number><optional space><unit>  for every
           documented unit in several letter cases; the number is symbolic (integers < 2^20, and n + 1/2, n + 1/4):
           the result is number x multiplier of the documentation table, for all numbers
  format   the real util::format_filesize from bb0 with FILE_SIZE_FORMAT_REGEX.captures modelled (precision / space / units
           groups symbolic) and humansize::format_size uninterpreted: the option record handed to humansize (base, fixed unit,
           decimal places, space) is the one the specifier grammar denotes
"""
import re, itertools
import z3
from z3 import BitVecVal, BoolVal, Not, And, Or, If, ULT, ULE
from mirsym.core import Agg, EnumV, Cell, Ref, UNIT, some, none, ok, err, conc, Unmodelled
from mirsym.models_std import Str, table_str, SpecialStr, as_str
from mirsym.models_fmt import NumStr, OpaqueStr
from mirsym.models_ext import RegexV
from drivers import evalcore as E
import common

MULT = {'': 1, 'b': 1, 'k': 1024, 'kib': 1024, 'kb': 1000, 'm': 1024 ** 2, 'mib': 1024 ** 2, 'mb': 1000 ** 2, 'g': 1024 ** 3, 'gib': 1024 ** 3, 'gb': 1000 ** 3,
        't': 1024 ** 4, 'tib': 1024 ** 4, 'tb': 1000 ** 4}


def doc_multipliers(prog):
    """the unit table of docs/usage.md (| `t` or `tib` | tebibyte | 1024 * 1024 * 1024 * 1024 |)"""
    import os
    p = os.path.join(common.REPO, 'docs', 'usage.md')
    out = {}
    try:
        for line in open(p, encoding='utf-8'):
            m = re.match(r'^\|\s*((?:`\w+`(?:\s*or\s*)?)+)\s*\|[^|]*\|\s*([0-9* ]+)\s*\|', line)
            if m:
                val = 1
                facs = [f.strip() for f in m.group(2).split('*')]
                if not facs or not all(f.isdigit() for f in facs):
                    continue
                for f in facs:
                    val *= int(f)
                for u in re.findall(r'`(\w+)`', m.group(1)):
                    out[u.lower()] = val
    except OSError:
        pass
    return out


def spellings(u):
    if not u:
        return ['']
    out = {u, u.upper(), u.capitalize()}
    if len(u) > 1:
        out.add(u[0] + u[1:].upper())
    return sorted(out)


def cli_replay_parse(lit, nbytes):
    def rep():
        exe = common.native_binary()
        if nbytes < 0 or nbytes > (1 << 44):
            return False, 'size not realisable'
        tree = {'f': {'size': nbytes}}
        r = common.run_cli(exe, ['name', 'from', '.', 'where', 'size', '=', lit], tree)
        rows = r['stdout'].split('\n')[:-1]
        return rows != ['f'] or r['status'] != 0, 'sparse file of %d bytes, where size = %s -> %r status %s %s' % (nbytes, lit, rows, r['status'], r['stderr'][:100])
    return rep


def fam_parse(sess):
    prog = sess.prog
    fam = 'parse'
    table = dict(MULT)
    doc = doc_multipliers(prog)
    for u, v in doc.items():
        table[u] = v
    sess.bounds[fam] = {'units': sorted(table), 'letter cases': 'lower, UPPER, Capitalised, mIXED', 'numbers': 'n, n + 1/2, n + 1/4, n + 1/16, n + 1/4096 for all n < min(2^20, 2^51 / multiplier) (every product an exact double)', 'space': 'with and without'}
    ex = sess.executor(unwind=4, solver_timeout_ms=30000)
    pf = prog.find_free('parse_filesize')
    quick = sess.tier == 'quick'
    for unit in sorted(table):
        viol = {}
        paths = [0]
        forms = [(sp, frac, space) for sp in (spellings(unit)[:2] if quick else spellings(unit)) for frac in (('', '.5', '.0625', '.000244140625') if quick else ('', '.5', '.25', '.0625', '.000244140625'))
                 for space in (('',) if quick else ('', ' '))]
        for sp, frac, space in forms:
            def run(ctx, sp=sp, frac=frac, space=space):
                n = ctx.fresh_bv('n', 64)
                ctx.ghost['exact_f64'] = True
                bound = min(1 << 20, (1 << 51) // table[unit])      # so that every intermediate product is an exact double
                if frac == '.000244140625':
                    bound = min(bound, ((1 << 62) // table[unit]) // 4096)    # ... and its numerator over 4096 fits the 64-bit encoding
                ctx.assume(ULT(n, BitVecVal(bound, 64)))
                lit = NumStr(n, False, '', frac + space + sp)
                return n, ctx.call_fn(pf, [lit])

            def on_path(ctx, out, sp=sp, frac=frac, space=space, unit=unit):
                paths[0] += 1
                name = 'parse <n>%s%s%s' % (frac, space, sp)
                if out[0] != 'ret':
                    if out[0] == 'panic':
                        if not viol.get('panic'):
                            viol['panic'] = True
                            sess.violated(name, 'parse/panic/' + unit, out[1][:160], {}, cli_replay_parse('3' + frac + sp, 0), fam)
                    else:
                        viol['bad'] = True; sess.inconclusive(name, str(out), fam)
                    return
                n, res = out[1]
                mult = table[unit]
                num, den = {'': (0, 1), '.5': (1, 2), '.25': (1, 4), '.0625': (1, 16), '.000244140625': (1, 4096)}[frac]
                want = (n * den + num) * mult / den if False else None
                # exact arithmetic: (n + num/den) * mult  truncated toward zero
                wantv = z3.UDiv((n * den + num) * mult, BitVecVal(den, 64))
                d = res.d if isinstance(res.d, int) else None
                if d is None:
                    present = res.d == 1
                else:
                    present = BoolVal(d == 1)
                val = res.p[1][0] if 1 in res.p and res.p[1] else BitVecVal(0, 64)
                r = ctx.check(Not(And(present, val == wantv)))
                if r == z3.unsat:
                    return
                if r != z3.sat:
                    viol['bad'] = True; sess.inconclusive(name, 'solver unknown', fam); return
                role = 'parse/unit:' + unit
                if viol.get(role):
                    return
                viol[role] = True
                m = ctx.model(Not(And(present, val == wantv)), n >= 1, n <= 4) or ctx.model(Not(And(present, val == wantv)), n >= 1) or ctx.model(Not(And(present, val == wantv)))
                nv = m.eval(n, model_completion=True).as_long()
                lit = '%d%s%s%s' % (nv, frac, space, sp)
                wv = m.eval(wantv, model_completion=True).as_long()
                got = ('None' if not z3.is_true(m.eval(present, model_completion=True)) else str(m.eval(val, model_completion=True)))
                sess.violated(name, role, 'parse_filesize(%r) = %s, documented value %d' % (lit, got, wv), {'literal': lit, 'want': wv},
                              cli_replay_parse(lit.replace(' ', ''), wv), fam)
            ex.explore(run, on_path)
        if not viol:
            sess.discharged('parse unit %r: %d spellings/forms, every n < 2^20: number x %d' % (unit, len(forms), table[unit]), family=fam, queries=paths[0])


COERCE = {'2.0': 2, '2.0b': 2, '1.5B': 1, '1.001kb': 1001, '1k': 1024, '.5k': 512, '0.5k': 512, '1.5kb': 1500, '.25mib': 262144, '.5 k': 512, '2': 2, '3kib': 3072, '.5M': 524288, '2tb': 2 * 10 ** 12}


def fam_coerce(sess):
    """a size literal on the right of a comparison reaches the number through Variant::to_int / to_float (real MIR, on the literal's
    text): the same byte count as parse_filesize gives, also for numbers written without a leading zero (.5k)"""
    prog = sess.prog
    fam = 'coerce'
    ex = sess.executor(unwind=6, solver_timeout_ms=30000)
    ti = prog.find('Variant', 'to_int'); tf = prog.find('Variant', 'to_float')
    sess.bounds[fam] = {'literals': sorted(COERCE)}
    bad = {}
    for lit, want in COERCE.items():
        def run(ctx, lit=lit):
            v = E.mk_variant(prog, 'String', string_value=Str(lit))
            return ctx.call_fn(ti, [Ref(Cell(v))]), ctx.call_fn(tf, [Ref(Cell(v))])

        def on_path(ctx, out, lit=lit, want=want):
            if out[0] != 'ret':
                bad[lit] = str(out)[:200]; return
            i, f = out[1]
            okv = ctx.check(Not(And(i == want, z3.fpEQ(f, z3.FPVal(float(want), z3.Float64()))))) == z3.unsat
            if not okv:
                m = ctx.model()
                bad[lit] = 'to_int = %s, to_float = %s' % (m.eval(i, model_completion=True), m.eval(f, model_completion=True))
        ex.explore(run, on_path)
    viol = {k: v for k, v in bad.items() if v.startswith('to_int')}
    other = {k: v for k, v in bad.items() if not v.startswith('to_int')}
    for lit, what in list(viol.items())[:3]:
        sess.violated('coerce %r' % lit, 'coerce/' + ('leading-dot' if lit.startswith('.') else 'inexact-decimal' if lit == '1.001kb' else 'literal'), 'Variant(%r): %s, documented value %d' % (lit, what, COERCE[lit]),
                      {'literal': lit}, cli_replay_parse(lit.replace(' ', ''), COERCE[lit]), fam)
    for lit, what in other.items():
        sess.inconclusive('coerce %r' % lit, what, fam)
    if len(bad) < len(COERCE):
        sess.discharged('coerce: %d literal spellings reach to_int / to_float as their documented byte count' % (len(COERCE) - len(bad)), family=fam, queries=len(COERCE) - len(bad))


# ------------------------------------------------------------------------------------------------ format
UNITS = ['', 'b', 'k', 'kib', 'kb', 'm', 'mib', 'mb', 'g', 'gib', 'gb', 't', 'tib', 'tb']
FLAGS = ['', 'c', 'd', 's', 'cs', 'ds']
FIXED = {'': None, 'b': 'Base', 'k': 'Kilo', 'kib': 'Kilo', 'kb': 'Kilo', 'm': 'Mega', 'mib': 'Mega', 'mb': 'Mega', 'g': 'Giga', 'gib': 'Giga', 'gb': 'Giga',
         't': 'Tera', 'tib': 'Tera', 'tb': 'Tera'}


class Spec(SpecialStr):
    """a format specifier text, abstractly: optional precision, optional space, optional units word (a TableSym)"""
    __slots__ = ('zeroes', 'has_zeroes', 'space', 'units', 'has_units')

    def __init__(self, zeroes, has_zeroes, space, units, has_units):
        Str.__init__(self)
        self.zeroes, self.has_zeroes, self.space, self.units, self.has_units = zeroes, has_zeroes, space, units, has_units

    def sop(self, ctx, name, args, callee, *extra):
        if name == 'to_lower':
            return self
        raise Unmodelled('%s on a format specifier' % name)

    def __repr__(self):
        return 'Spec'


def format_models():
    out = []

    def reg(pat, name):
        def deco(f):
            out.append((pat, f, name)); return f
        return deco

    @reg(r'^<LazyLock<regex::Regex> as Deref>::deref$|^<LazyLock<Regex> as Deref>::deref$', 'regex:static(deref)')
    def lazy(ctx, args, callee):
        return Ref(Cell(RegexV(Str('<static regex>'))))

    @reg(r'^regex::Regex::captures$', 'regex:captures(FILE_SIZE_FORMAT_REGEX)')
    def captures(ctx, args, callee):
        s = ctx.deref(args[1])
        if isinstance(s, Spec):
            return some(('captures', s))
        raise Unmodelled('captures of %r' % (s,))

    @reg(r'^regex::Captures::name$', 'regex:Captures::name')
    def cap_name(ctx, args, callee):
        c = ctx.deref(args[0])[1]; n = as_str(ctx, args[1]).s
        if n == 'zeroes':
            return some(('match', NumStr(c.zeroes, False))) if ctx.decide(c.has_zeroes) else none()
        if n == 'space':
            return some(('match', Str(' '))) if ctx.decide(c.space) else none()
        if n == 'units':
            return some(('match', c.units)) if ctx.decide(c.has_units) else none()
        raise Unmodelled('capture group ' + n)

    @reg(r'^regex::Match::as_str$', 'regex:Match::as_str')
    def match_as_str(ctx, args, callee):
        return ctx.deref(args[0])[1]

    @reg(r'^const humansize::(BINARY|DECIMAL|WINDOWS)$', 'humansize:format constant')
    def hconst(ctx, args, callee):
        return ('base', callee.rsplit('::', 1)[1])

    @reg(r'^FormatSizeOptions::from$|^<FormatSizeOptions as From<.*>>::from$|^humansize::FormatSizeOptions::from$', 'humansize:FormatSizeOptions::from')
    def hfrom(ctx, args, callee):
        return {'base': args[0][1], 'fixed_at': None, 'places': None, 'space': None}

    @reg(r'^FormatSizeOptions::fixed_at$', 'humansize:fixed_at')
    def hfixed(ctx, args, callee):
        o = dict(args[0]); fa = args[1]
        d = fa.d if isinstance(fa.d, int) else conc(fa.d)
        o['fixed_at'] = None if d == 0 else (fa.p[1][0].ty if isinstance(fa.p[1][0], Agg) else repr(fa.p[1][0]))
        return o

    @reg(r'^FormatSizeOptions::decimal_places$', 'humansize:decimal_places')
    def hplaces(ctx, args, callee):
        o = dict(args[0]); o['places'] = args[1]; return o

    @reg(r'^FormatSizeOptions::space_after_value$', 'humansize:space_after_value')
    def hspace(ctx, args, callee):
        o = dict(args[0]); o['space'] = args[1]; return o

    @reg(r'^(humansize::)?format_size$', 'humansize:format_size(uninterpreted)')
    def hformat(ctx, args, callee):
        ctx.ghost['humansize_call'] = (args[0], args[1])
        return Rendered()

    return out


class Rendered(SpecialStr):
    """the text humansize returns: only the replacements applied to it afterwards are recorded"""
    __slots__ = ('repl',)

    def __init__(self, repl=()):
        Str.__init__(self)
        self.repl = tuple(repl)

    def sop(self, ctx, name, args, callee, *extra):
        if name == 'replace':
            a = as_str(ctx, args[1]).s; b = as_str(ctx, args[2]).s
            return Rendered(self.repl + ((a, b),))
        raise Unmodelled('%s on the rendered size' % name)

    def __repr__(self):
        return 'Rendered%r' % (self.repl,)


def fam_format(sess):
    prog = sess.prog
    fam = 'format'
    ex = sess.executor(format_models(), unwind=6)
    ff = prog.find_free('format_filesize')
    words = [f + u for f in FLAGS for u in UNITS] + [u + f for f in ('c', 'd', 's') for u in UNITS if u]
    words = sorted(set(w for w in words if w))
    sess.bounds[fam] = {'precision': 'absent or 0..9', 'space': 'both', 'units words': len(words), 'flags': 'subsets of c / d / s placed before or after the unit'}
    viol = {}
    paths = [0]

    def run(ctx):
        z = ctx.fresh_bv('zeroes', 32); ctx.assume(ULT(z, BitVecVal(10, 32)))
        hz = ctx.fresh_bool('has_precision'); sp = ctx.fresh_bool('space'); hu = ctx.fresh_bool('has_units')
        units = table_str(ctx, 'units', words)
        size = ctx.fresh_bv('size', 64)
        spec = Spec(z, hz, sp, units, hu)
        res = ctx.call_fn(ff, [size, spec])
        return z, hz, sp, hu, units, size, res

    def on_path(ctx, out):
        paths[0] += 1
        if out[0] == 'exit':
            return
        if out[0] != 'ret':
            if out[0] == 'panic':
                if not viol.get('panic'):
                    viol['panic'] = True
                    sess.violated(fam, 'format/panic', out[1][:160], {}, None, fam)
            else:
                viol['bad'] = True; sess.inconclusive(fam, str(out), fam)
            return
        z, hz, sp, hu, units, size, res = out[1]
        call = ctx.ghost.get('humansize_call')
        if call is None:
            viol['bad'] = True; sess.inconclusive(fam, 'humansize::format_size was not called', fam); return
        sz, o = call
        # enumerate the units words this path covers (the path forked on the word's properties)
        block = []
        for _ in range(len(words) + 1):
            m = ctx.model(*block)
            if m is None:
                break
            has_u = z3.is_true(m.eval(hu, model_completion=True))
            wi = m.eval(units.var, model_completion=True).as_long()
            block.append(Or(units.var != wi, hu != has_u))
            w = words[wi] if has_u else ''
            flags = {c for c in 'cds' if c in w}
            unit = w
            for c in 'cds':
                unit = unit.replace(c, '')
            if unit not in FIXED:
                continue
            base = 'DECIMAL' if 'd' in flags else ('WINDOWS' if 'c' in flags else ('DECIMAL' if unit in ('kb', 'mb', 'gb', 'tb') else 'BINARY'))
            default_places = 0 if unit in ('k', 'kib', 'kb', 'm', 'mib', 'mb') else 2
            fix = And(units.var == wi, hu == has_u)
            conds = [sz == size, BoolVal(o['base'] == base), BoolVal(o['fixed_at'] == FIXED[unit]),
                     o['space'] == sp, o['places'] == If(hz, z3.ZeroExt(32, z), BitVecVal(default_places, 64))]
            short = 's' in flags
            want_repl = [('kB', 'KB')] + ([('iB', ''), ('KB', 'K'), ('MB', 'M'), ('GB', 'G'), ('TB', 'T'), ('PB', 'P'), ('EB', 'E')] if short else [])
            # the replacements are compared by what they do to every unit text humansize can emit for this base and unit
            toks = {'BINARY': ['B', 'KiB', 'MiB', 'GiB', 'TiB', 'PiB', 'EiB'], 'DECIMAL': ['B', 'kB', 'MB', 'GB', 'TB', 'PB', 'EB'],
                    'WINDOWS': ['B', 'KB', 'MB', 'GB', 'TB', 'PB', 'EB']}[base]
            uidx = {'': None, 'b': 0, 'k': 1, 'kib': 1, 'kb': 1, 'm': 2, 'mib': 2, 'mb': 2, 'g': 3, 'gib': 3, 'gb': 3, 't': 4, 'tib': 4, 'tb': 4}[unit]
            if uidx is not None:
                toks = [toks[uidx]]

            def apply(repl, t):
                for a_, b_ in repl:
                    t = t.replace(a_, b_)
                return t
            same = isinstance(res, Rendered) and all(apply(res.repl, '12.5 ' + t) == apply(want_repl, '12.5 ' + t) for t in toks)
            conds.append(BoolVal(same))
            r = ctx.check(fix, Not(And(conds)))
            if r == z3.unsat:
                continue
            role = 'format/' + unit + ('/flags:' + ''.join(sorted(flags)) if flags else '')
            if viol.get(role) or len([k for k in viol if k.startswith('format/')]) > 6:
                continue
            viol[role] = True
            mm = ctx.model(fix, Not(And(conds)))
            zv = mm.eval(z, model_completion=True).as_long(); hzv = z3.is_true(mm.eval(hz, model_completion=True)); spv = z3.is_true(mm.eval(sp, model_completion=True))
            spec = ('%%.%d' % zv if hzv else '') + (' ' if spv else '') + w
            sess.violated('format %r' % spec, role, 'options handed to humansize %r differ from the grammar (base %s, fixed %s, places %s, space %s)' % (
                {k: str(v) for k, v in o.items()}, base, FIXED[unit], zv if hzv else default_places, spv), {'specifier': spec}, cli_replay_format(spec), fam)
    ex.explore(run, on_path)
    if not viol:
        sess.discharged('format: %d units words x precision x space: the option record is the one the grammar denotes' % len(words), family=fam, queries=paths[0])


def py_format(size, spec):
    """reference rendering for the replay (subset: fixed units and bases)"""
    m = re.match(r'^(%\.(\d+))?( )?(\w+)?$', spec)
    places = int(m.group(2)) if m.group(2) is not None else None
    space = ' ' if m.group(3) else ''
    w = m.group(4) or ''
    flags = {c for c in 'cds' if c in w}
    unit = w
    for c in 'cds':
        unit = unit.replace(c, '')
    dec = 'd' in flags or ('c' not in flags and unit in ('kb', 'mb', 'gb', 'tb'))
    k = 1000 if dec else 1024
    names_bin = ['B', 'KiB', 'MiB', 'GiB', 'TiB']; names_dec = ['B', 'KB', 'MB', 'GB', 'TB']
    names = names_dec if (dec or 'c' in flags) else names_bin
    if places is None:
        places = 0 if unit in ('k', 'kib', 'kb', 'm', 'mib', 'mb') else 2
    idx = {'': None, 'b': 0, 'k': 1, 'kib': 1, 'kb': 1, 'm': 2, 'mib': 2, 'mb': 2, 'g': 3, 'gib': 3, 'gb': 3, 't': 4, 'tib': 4, 'tb': 4}[unit]
    if idx is None:
        idx = 0; v = float(size)
        while v >= k and idx < 4:
            v /= k; idx += 1
    else:
        v = size / (k ** idx)
    txt = ('%.' + str(places) + 'f') % v if idx > 0 or places else str(int(v))
    if idx == 0:
        txt = str(size)
    out = txt + space + names[idx]
    if 's' in flags:
        out = out.replace('iB', '').replace('KB', 'K').replace('MB', 'M').replace('GB', 'G').replace('TB', 'T')
    return out


def cli_replay_format(spec):
    def rep():
        exe = common.native_binary()
        for size in (999, 1500, 2048, 1678123, 5 * 1024 * 1024 + 1234, 1500000000, 3 * 10 ** 12):
            r = common.run_cli(exe, ["format_size(%d, '%s')" % (size, spec), 'from', '.'], {'f': {'size': 1}})
            got = r['stdout'].strip()
            want = py_format(size, spec)
            if got != want:
                return True, "format_size(%d, '%s') -> %r ; reference rendering %r" % (size, spec, got, want)
        return False, "format_size(.., '%s') agrees with the reference rendering on the sizes tried" % spec
    return rep


def main(sess):
    sess.engines = ['mirsym (MIR symbolic execution) + z3 (FloatingPoint for the multiplications)']
    sess.assumptions += [
        'parse: str::parse::<f64> of <digits>[.5|.25] is that rational exactly (n < 2^20); multipliers from docs/usage.md (parsed at run time) merged with the table of the property statement',
        'format: FILE_SIZE_FORMAT_REGEX.captures modelled by its groups; humansize::format_size uninterpreted (monotonicity / round-trip of the rendered text are inside humansize: outside)',
    ]
    only = getattr(sess, 'only', None)
    if not only or 'parse' in only:
        fam_parse(sess)
    if not only or 'coerce' in only:
        fam_coerce(sess)
    if not only or 'format' in only:
        fam_format(sess)
