"""C05 — ORDER BY output is sorted by the requested keys and loses or invents no row.

Families (real MIR executed symbolically, z3 decides):
  cmp/<key>        <Criteria<String> as Ord>::cmp -> cmp_at -> cmp_at_numbers / cmp_at_datetimes / cmp_at_direct with
                   Expr::contains_numeric / contains_datetime, Field::is_numeric_field, Function::is_numeric_function,
                   util::parse_filesize all executed; two rows with symbolic key values; one and two keys, directions
                   symbolic. Oracle: numeric keys by value, date keys chronologically, everything else as strings; first
                   non-equal key decides; desc reverses. Which columns are numeric / dates is read off the constructor the
                   evaluator uses for the column in get_field_value (from_int / from_float / from_datetime).
  parse_order_by   real Parser::parse_order_by on symbolic lexems: the comparator induced by the parsed (keys, directions)
                   equals the comparator of the textbook reading (positional keys, `desc` binds to the key before it)
  (permutation / sortedness of the buffer itself: TopN, decided under C06)"""
import re, itertools
import z3
from z3 import BitVecVal, BoolVal, Not, And, Or, If, ULT, ULE, UGT
from mirsym.core import Agg, EnumV, Cell, Ref, BoxV, some, none, ok, err, conc, Unmodelled
from mirsym.models_std import Str, Seq, RcV, table_str, as_str, model
from mirsym.models_fmt import NumStr
from mirsym.models_ext import DateTimeV
from drivers import evalcore as E, parsecore as P
import common

ALWAYS = ['Size', 'Uid', 'Gid', 'Hardlinks', 'Inode', 'Blocks', 'LineCount']
TEXT_VALUES = ['', 'a', 'B', 'ab', 'b', '10', '9', 'a.txt']


def classify_columns(prog):
    """column -> 'num' | 'date' | 'text', from the Variant constructor its get_field_value arm uses"""
    raw, src = prog.src.files['src/searcher.rs']
    i = src.find('fn get_field_value')
    j = src.find('\n    fn ', i + 10)
    body = src[i:j]
    first = re.search(r'\n( +)Field::\w+(?:\s*\|\s*Field::\w+)*\s*=>', body)
    ind = first.group(1) if first else '            '
    arms = list(re.finditer(r'\n' + ind + r'Field::(\w+)((?:\s*\|\s*Field::\w+)*)\s*=>', body))
    out = {}
    for k, m in enumerate(arms):
        text = body[m.end():arms[k + 1].start() if k + 1 < len(arms) else len(body)]
        names = [m.group(1)] + re.findall(r'Field::(\w+)', m.group(2))
        if 'Variant::from_datetime(' in text:
            kind = 'date'
        elif 'Variant::from_int(' in text or 'Variant::from_float(' in text:
            kind = 'num'
        else:
            kind = 'text'
        for n in names:
            out[n] = kind
    return out


class DateStr(Str):
    """text of a formatted date column value (what Variant::from_datetime renders): only its instant is observable"""
    __slots__ = ('ts',)

    def __init__(self, ts):
        Str.__init__(self)
        self.ts = ts


def parse_datetime_summary(ctx, args, callee):
    """summary of util::datetime::parse_datetime on a *rendered* date column value: Ok((t, t)) (C13 decides the parser)"""
    s = ctx.deref(args[0])
    if isinstance(s, DateStr):
        return ok(Agg([DateTimeV(s.ts), DateTimeV(s.ts)]))
    if isinstance(s, NumStr) or s.tab is not None or s.s is not None:
        # a short decimal number / the table texts are not date literals (any counterexample is replayed natively)
        return err(Str('Error parsing date/time'))
    raise Unmodelled('parse_datetime summary on %r' % (s,))


def lex_lt_num(a, b):
    """lexicographic order of the decimal renderings of two unsigned values < 1000"""
    def scaled(x):
        w = x.size()
        return If(ULT(x, BitVecVal(10, w)), x * 100, If(ULT(x, BitVecVal(100, w)), x * 10, x))

    def nd(x):
        w = x.size()
        return If(ULT(x, BitVecVal(10, w)), BitVecVal(1, 8), If(ULT(x, BitVecVal(100, w)), BitVecVal(2, 8), BitVecVal(3, 8)))
    sa, sb = scaled(a), scaled(b)
    return Or(ULT(sa, sb), And(sa == sb, ULT(nd(a), nd(b))))


def t_ord_cmp(ctx, args, callee):
    """<T as Ord>::cmp for T = String (the instantiation the searcher uses): byte-lexicographic order"""
    a = as_str(ctx, args[0]); b = as_str(ctx, args[1])
    def mk(lt, eq):
        return EnumV(z3.simplify(If(lt, BitVecVal(-1, 64), If(eq, BitVecVal(0, 64), BitVecVal(1, 64)))), {}, 'Ordering')
    if isinstance(a, NumStr) and isinstance(b, NumStr) and not (a.pre or a.suf or b.pre or b.suf):
        if a.signed or b.signed:
            # "-<digits>" sorts before every digit string ('-' = 0x2d < '0'); two negatives by their digit strings
            na, nb = a.bv < 0, b.bv < 0
            ma, mb = If(na, -a.bv, a.bv), If(nb, -b.bv, b.bv)
            lt = If(And(na, Not(nb)), BoolVal(True), If(And(Not(na), nb), BoolVal(False), lex_lt_num(ma, mb)))
            return mk(lt, a.bv == b.bv)
        return mk(lex_lt_num(a.bv, b.bv), a.bv == b.bv)
    if isinstance(a, DateStr) and isinstance(b, DateStr):
        # fixed-width "YYYY-MM-DD HH:MM:SS": text order = chronological order
        return mk(a.ts < b.ts, a.ts == b.ts)
    if a.s is not None and b.s is not None:
        x, y = a.s.encode(), b.s.encode()
        return EnumV(-1 if x < y else (0 if x == y else 1), {}, 'Ordering')
    if a.tab is not None and b.tab is not None:
        lt = Or([And(a.var == i, b.var == j) for i, s in a.tab.items() for j, t in b.tab.items() if s.encode() < t.encode()] or [BoolVal(False)])
        eq = Or([And(a.var == i, b.var == j) for i, s in a.tab.items() for j, t in b.tab.items() if s == t] or [BoolVal(False)])
        return mk(lt, eq)
    raise Unmodelled('<String as Ord>::cmp on %r / %r' % (a, b))


def _dt_cmp(ctx, a, c):
    x, y = ctx.deref(a[0]), ctx.deref(a[1])
    if hasattr(x, 'ts') and hasattr(y, 'ts'):
        return ctx.binop('Cmp', x.ts, y.ts, 'i64')
    from drivers.c19_fileinfo import CalDT
    if isinstance(x, CalDT) and isinstance(y, CalDT):
        lt = BoolVal(False); eq = BoolVal(True)
        for p_, q_ in reversed(list(zip((x.y, x.m, x.d, x.h, x.mi, x.s), (y.y, y.m, y.d, y.h, y.mi, y.s)))):
            lt = Or(p_ < q_, And(p_ == q_, lt)); eq = And(p_ == q_, eq)
        return EnumV(z3.simplify(If(lt, BitVecVal(-1, 64), If(eq, BitVecVal(0, 64), BitVecVal(1, 64)))), {}, 'Ordering')
    raise Unmodelled('NaiveDateTime::cmp of a parsed value with the clock-derived default')


def _overrides():
    # the clock and chrono's with_year / with_month / ... by their documented contract (None when the resulting date does not exist:
    # 29 February moved to a common year, day 31 moved to a 30-day month): the comparator must not depend on the day the query is run
    from drivers import c19_fileinfo
    cal = [m_ for m_ in c19_fileinfo.models() if not m_[0].startswith('^zip::')]
    return [(r'(^|::)parse_datetime$', parse_datetime_summary, 'summary:parse_datetime(rendered date)'),
            (r'^<T as Ord>::cmp$|^<std::string::String as Ord>::cmp$', t_ord_cmp, 'model:<String as Ord>::cmp'),
            (r'^<NaiveDateTime as Ord>::cmp$|^<chrono::NaiveDateTime as Ord>::cmp$', _dt_cmp, 'chrono:NaiveDateTime::cmp')] + cal


OVERRIDES = _overrides()


def key_exprs(prog, kinds):
    """representative key expressions: (label, Expr, kind)"""
    out = []
    for col, kind in kinds.items():
        out.append((col, E.expr_field(prog, col), kind))
    fn = lambda name: EnumV(prog.src.variant_index('Function', name), {}, 'Function')
    ao = lambda name: EnumV(prog.src.variant_index('ArithmeticOp', name), {}, 'ArithmeticOp')
    # scalar function of a date column that yields a number: YEAR(modified)
    out.append(('year(modified)', E.mk_expr(prog, function=some(fn('Year')), left=some(BoxV(E.expr_field(prog, 'Modified'))), args=some(Seq([]))), 'num'))
    out.append(('length(name)', E.mk_expr(prog, function=some(fn('Length')), left=some(BoxV(E.expr_field(prog, 'Name'))), args=some(Seq([]))), 'num'))
    out.append(('upper(name)', E.mk_expr(prog, function=some(fn('Upper')), left=some(BoxV(E.expr_field(prog, 'Name'))), args=some(Seq([]))), 'text'))
    # an integer-valued expression that goes negative: size - 100
    out.append(('size - 100', E.mk_expr(prog, left=some(BoxV(E.expr_field(prog, 'Size'))), arithmetic_op=some(ao('Subtract')), right=some(BoxV(E.expr_value(prog, '100')))), 'snum'))
    out.append(('100 - size', E.mk_expr(prog, left=some(BoxV(E.expr_value(prog, '100'))), arithmetic_op=some(ao('Subtract')), right=some(BoxV(E.expr_field(prog, 'Size')))), 'snum'))
    return out


def values_for(ctx, kind, tag):
    if kind == 'num':
        a = ctx.fresh_bv('a' + tag, 64); b = ctx.fresh_bv('b' + tag, 64)
        ctx.assume(ULT(a, BitVecVal(1000, 64))); ctx.assume(ULT(b, BitVecVal(1000, 64)))
        return NumStr(a, False), NumStr(b, False), ULT(a, b), a == b, (a, b)
    if kind == 'snum':
        a = ctx.fresh_bv('a' + tag, 64); b = ctx.fresh_bv('b' + tag, 64)
        for v in (a, b):
            ctx.assume(And(v >= BitVecVal(-1000, 64), v < BitVecVal(1000, 64)))
        return NumStr(a, True), NumStr(b, True), a < b, a == b, (a, b)
    if kind == 'date':
        a = ctx.fresh_bv('ta' + tag, 64); b = ctx.fresh_bv('tb' + tag, 64)
        return DateStr(a), DateStr(b), a < b, a == b, (a, b)
    sa = table_str(ctx, 'sa' + tag, TEXT_VALUES); sb = table_str(ctx, 'sb' + tag, TEXT_VALUES)
    lt = Or([And(sa.var == i, sb.var == j) for i, s in sa.tab.items() for j, t in sb.tab.items() if s.encode() < t.encode()])
    eq = Or([And(sa.var == i, sb.var == j) for i, s in sa.tab.items() for j, t in sb.tab.items() if s == t])
    return sa, sb, lt, eq, (sa.var, sb.var)


NATIVE = r'''
#[cfg(test)]
mod verif_c05 {
    use super::*;
    // VERIF_INPUT: "<query>\t<a values joined by |>\t<b values joined by |>": parse the query with the real parser, build
    // two Criteria over its ordering keys and print their comparison
    #[test]
    fn run() {
        let spec = std::env::var("VERIF_INPUT").unwrap();
        let parts: Vec<&str> = spec.split('\t').collect();
        let q = crate::parser::Parser::new().parse(vec![parts[0].to_string()], false).unwrap();
        let a: Vec<String> = parts[1].split('|').map(|s| s.to_string()).collect();
        let b: Vec<String> = parts[2].split('|').map(|s| s.to_string()).collect();
        let ca = Criteria::new(q.ordering_fields.clone(), a, q.ordering_asc.clone());
        let cb = Criteria::new(q.ordering_fields.clone(), b, q.ordering_asc.clone());
        println!("VERIF_OUT keys={} dirs={:?}", q.ordering_fields.iter().map(|e| e.to_string()).collect::<Vec<_>>().join(","), q.ordering_asc);
        println!("VERIF_OUT cmp={:?}", ca.cmp(&cb));
    }
}
'''


def native_cmp(query, a, b, clock=None):
    """clock (y, m, d): every `Local::now()` of src/util/mod.rs is pinned to noon of that day in the scratch copy"""
    subs = None
    if clock:
        subs = {'src/util/mod.rs': [('Local::now()', 'chrono::TimeZone::with_ymd_and_hms(&Local, %d, %d, %d, 12, 0, 0).unwrap()' % clock)]}
    rc, lines, raw = common.native_unit('c05' + ('clk' if clock else ''), 'src/util/mod.rs', NATIVE, 'util::verif_c05::run', '%s\t%s\t%s' % (query, '|'.join(a), '|'.join(b)), subs=subs)
    d = {}
    for l in lines:
        for part in l.split(' '):
            if '=' in part:
                k, v = part.split('=', 1); d[k] = v
    return rc, d, raw


def render_val(kind, v):
    if kind == 'date':
        import time
        return time.strftime('%Y-%m-%d %H:%M:%S', time.gmtime(v % (1 << 31)))
    return str(v)


def fam_cmp(sess):
    prog = sess.prog
    kinds_all = classify_columns(prog)
    if len(kinds_all) < 20:
        sess.inconclusive('cmp', 'could not classify the columns from get_field_value (%d arms found)' % len(kinds_all), 'cmp'); return
    quick = sess.tier == 'quick'
    cols = {c: k for c, k in kinds_all.items() if (c in ALWAYS or c in ('Name', 'Path', 'Modified', 'Ext', 'Mode')) or (not quick and k in ('num', 'date'))}
    keys = key_exprs(prog, cols)
    sess.bounds['cmp'] = {'keys': [k[0] for k in keys], 'numeric values': '< 1000 (so that text and numeric order differ)', 'text values': TEXT_VALUES,
                          'key lists': 'every single key; pairs [key, name] and [name, key]', 'directions': 'symbolic'}
    ex = sess.executor(OVERRIDES, unwind=14)
    cmpf = prog.find('Criteria', 'cmp', 'Ord')
    name_key = ('Name', E.expr_field(prog, 'Name'), 'text')
    combos = []
    for k in keys:
        combos.append([k])
    for k in keys:
        if k[0] in ('Size', 'Hardlinks', 'Modified', 'year(modified)'):
            combos.append([k, name_key]); combos.append([name_key, k])
    for combo in combos:
        box = {}
        label = ', '.join(k[0] for k in combo)

        def run(ctx, combo=combo):
            fields = RcV(Seq([k[1] for k in combo]))
            dirs = [ctx.fresh_bool('asc%d' % i) for i in range(len(combo))]
            va, vb, refs, syms = [], [], [], []
            for i, k in enumerate(combo):
                a, b, lt, eq, sy = values_for(ctx, k[2], str(i))
                va.append(a); vb.append(b); refs.append((lt, eq)); syms.append(sy)
            mk = lambda vals: E.mk_struct(prog, 'Criteria', {}, fields=fields, values=Seq(vals), orderings=RcV(Seq(list(dirs))))
            r = ctx.call_fn(cmpf, [Ref(Cell(mk(va))), Ref(Cell(mk(vb)))])
            # reference: first non-equal key decides, reversed when its direction is desc
            ref = BitVecVal(0, 64)
            for i in range(len(combo) - 1, -1, -1):
                lt, eq = refs[i]
                here = If(lt, BitVecVal(-1, 64), BitVecVal(1, 64))
                here = If(dirs[i], here, -here)
                ref = If(eq, ref, here)
            return r, ref, dirs, syms

        def on_path(ctx, out, combo=combo, label=label):
            name = 'cmp/[%s]' % label
            if out[0] != 'ret':
                if out[0] == 'panic':
                    if not box.get('viol'):
                        now = ctx.ghost.get('now'); clock = None
                        if now is not None:
                            m = ctx.model()
                            clock = tuple(m.eval(t, model_completion=True).as_long() for t in (now.y, now.m, now.d))
                        key = [k for k in combo if k[2] != 'text'] or combo
                        q = 'select name from . order by ' + ', '.join(k[0].lower() for k in combo)
                        vals = [render_val(k[2], 86400 * 400 + i) if k[2] == 'date' else ('1' if k[2] in ('num', 'snum') else 'a') for i, k in enumerate(combo)]

                        def rep(q=q, vals=vals, clock=clock):
                            rc, dct, raw = native_cmp(q, vals, vals, clock)
                            why = [l for l in raw.splitlines() if 'panicked' in l or 'unwrap' in l][:2]
                            return rc != 0, 'native: %s ; rows %r vs %r with the clock at %r -> %s' % (q, vals, vals, clock, ('panics: %r' % why) if rc != 0 else dct.get('cmp'))
                        sess.violated(name, 'cmp/panic/' + key[0][0] + ('/clock-dependent' if clock else ''), '%s (clock %r)' % (out[1][:160], clock), {'keys': label, 'clock': clock}, rep, 'cmp')
                    box['viol'] = True
                else:
                    sess.inconclusive(name, str(out), 'cmp'); box['bad'] = True
                return
            r, ref, dirs, syms = out[1]
            box['paths'] = box.get('paths', 0) + 1
            d = BitVecVal(r.d, 64) if isinstance(r.d, int) else r.d
            res = ctx.check(d != ref)
            if res == z3.unsat:
                return
            if res != z3.sat:
                sess.inconclusive(name, 'solver unknown', 'cmp'); box['bad'] = True; return
            if box.get('viol'):
                return
            box['viol'] = True
            m = ctx.model(d != ref)
            avals, bvals = [], []
            for (k, sy) in zip(combo, syms):
                x = m.eval(sy[0], model_completion=True); y = m.eval(sy[1], model_completion=True)
                x, y = (x.as_signed_long(), y.as_signed_long()) if k[2] == 'snum' else (x.as_long(), y.as_long())
                if k[2] == 'text':
                    x, y = TEXT_VALUES[x], TEXT_VALUES[y]
                avals.append(render_val(k[2], x)); bvals.append(render_val(k[2], y))
            ds = [z3.is_true(m.eval(x, model_completion=True)) for x in dirs]
            got = m.eval(d, model_completion=True).as_signed_long(); want = m.eval(ref, model_completion=True).as_signed_long()
            ordname = {-1: 'Less', 0: 'Equal', 1: 'Greater'}
            bad_key = [k[0] for k in combo if k[2] != 'text']
            role = 'cmp/' + (bad_key[0] if bad_key else combo[0][0]) + ('' if len(combo) == 1 else '/in-list')
            q = 'select name from . order by ' + ', '.join(k[0].lower() + ('' if a else ' desc') for k, a in zip(combo, ds))

            def rep(q=q, avals=avals, bvals=bvals, want=want):
                rc, dct, raw = native_cmp(q, avals, bvals)
                return (rc != 0 or dct.get('cmp') != ordname[want]), 'native: %s ; rows %r vs %r -> %s, specification %s (exit %s)' % (
                    q, avals, bvals, dct.get('cmp'), ordname[want], rc)
            sess.violated(name, role, 'rows %r vs %r, asc=%r: cmp = %s, specification %s' % (avals, bvals, ds, ordname.get(got, got), ordname[want]),
                          {'keys': label, 'a': avals, 'b': bvals, 'asc': ds}, rep, 'cmp')

        ex.explore(run, on_path)
        if not box.get('viol') and not box.get('bad'):
            sess.discharged('cmp/[%s]' % label, family='cmp', queries=box.get('paths', 1))


def fam_parse_order_by(sess):
    prog = sess.prog
    fam = 'parse_order_by'
    ex = sess.executor(P.table_overrides(), unwind=12)
    pob = prog.find('Parser', 'parse_order_by')
    sel = ['name', 'size', 'path']            # the select list positional keys refer to
    alpha = ['size', 'name', 'path', '1', '2', '3', 'desc', ',', 'asc']
    maxn = 3 if sess.tier == 'quick' else 4
    sess.bounds[fam] = {'tokens after ORDER BY': '1..%d' % maxn, 'alphabet': alpha, 'select list': sel}
    seen = {}
    stats = {'paths': 0}
    Fe = E.struct_fields(prog, 'Expr')

    def textbook(toks):
        keys = []
        for t in toks:
            if t == ',':
                continue
            if t == 'desc':
                if not keys:
                    return None
                keys[-1] = (keys[-1][0], False)
            elif t == 'asc':
                return None           # `asc` is an optional token of C11; not part of this alphabet's valid sentences
            elif t.isdigit():
                i = int(t)
                if not (1 <= i <= len(sel)):
                    return None
                keys.append((sel[i - 1], True))
            else:
                keys.append((t, True))
        return keys if keys else None

    def comparator(keys, va, vb):
        ref = BitVecVal(0, 8)
        for col, asc in reversed(keys):
            lt = ULT(va[col], vb[col]); eq = va[col] == vb[col]
            here = If(lt, BitVecVal(-1, 8), BitVecVal(1, 8))
            if not asc:
                here = -here
            ref = If(eq, ref, here)
        return ref

    for n in range(1, maxn + 1):
        def run(ctx, n=n):
            lex = [P.mk_lexem(prog, 'order'), P.mk_lexem(prog, 'by')]; tv = []
            for i in range(n):
                l, t = P.sym_lexem(ctx, prog, alpha, 't%d' % i)
                lex.append(l); tv.append(t)
            parser = P.mk_parser(prog, lex, where_parsed=True)
            fields = Seq([E.expr_field(prog, {'name': 'Name', 'size': 'Size', 'path': 'Path'}[c]) for c in sel])
            res = ctx.call_fn(pob, [Ref(Cell(parser)), Ref(Cell(fields))])
            idx = parser.f[E.struct_fields(prog, 'Parser').index('index')]
            return tv, res, conc(idx)

        def on_path(ctx, out, n=n):
            stats['paths'] += 1
            if out[0] in ('panic', 'end'):
                return                  # malformed ORDER BY lists that crash or spin are C10's subject
            if out[0] != 'ret':
                sess.inconclusive(fam, str(out), fam); return
            tv, res, idx = out[1]
            block = []
            for _ in range(200):
                m = ctx.model(*block)
                if m is None:
                    break
                toks = [alpha[m.eval(t, model_completion=True).as_long()] for t in tv]
                block.append(Or([t != m.eval(t, model_completion=True) for t in tv]))
                ref = textbook(toks)
                if ref is None:
                    continue
                key = tuple(toks)
                d = res.d if isinstance(res.d, int) else conc(res.d)
                if d != 0 or idx != n + 2:
                    seen[key] = ('viol', 'rejected or not fully consumed (index %s)' % idx)
                    continue
                pair = res.p[0][0]
                fl = [c.v for c in pair.f[0].items]; dl = [conc(c.v) for c in pair.f[1].items]
                got = []
                okk = True
                for e, a in zip(fl, dl):
                    fe = e.f[Fe.index('field')]
                    fd = fe.d if isinstance(fe.d, int) else conc(fe.d)
                    if fd != 1:
                        okk = False; break
                    fn = prog.src.variant_name('Field', conc(fe.p[1][0].d) if not isinstance(fe.p[1][0].d, int) else fe.p[1][0].d)
                    got.append((fn.lower(), bool(a)))
                if not okk or len(fl) != len(dl):
                    seen[key] = ('viol', 'keys %d / directions %d' % (len(fl), len(dl))); continue
                va = {c: z3.BitVec('va_' + c, 8) for c in sel}; vb = {c: z3.BitVec('vb_' + c, 8) for c in sel}
                s = z3.Solver()
                s.add(comparator(got, va, vb) != comparator(ref, va, vb))
                if s.check() == z3.unsat:
                    seen.setdefault(key, ('ok', ''))
                else:
                    seen[key] = ('viol', 'parsed as %r, textbook %r' % (got, ref))
        ex.explore(run, on_path, time_budget=400 if sess.tier == 'quick' else 1200)
    bad = {k: v for k, v in seen.items() if v[0] == 'viol'}
    shapes = {}
    for k, v in bad.items():
        shape = ' '.join('K' if t in ('size', 'name', 'path') else ('N' if t.isdigit() else t) for t in k)
        shapes.setdefault(shape, (k, v))
    for shape, (k, v) in shapes.items():
        q = 'select name, size, path from . order by ' + ' '.join(k)

        def rep(q=q, k=k):
            ref = textbook(list(k))
            # two rows that the textbook comparator orders strictly; values: name, size, path
            rc, d, raw = native_cmp(q, ['1'] * max(1, len(ref)), ['2'] * max(1, len(ref)))
            keys = d.get('keys', '')
            want_dirs = str([a for _, a in ref]).replace('True', 'true').replace('False', 'false')
            return (rc != 0 or d.get('dirs') != want_dirs and len(keys.split(',')) == len(ref)) or (rc == 0 and len([x for x in keys.split(',') if x]) != len(ref) and comparator_differs(ref, keys, d.get('dirs'))), \
                'native parse of %r: keys=%s dirs=%s ; textbook %r (exit %s)' % (q, keys, d.get('dirs'), ref, rc)
        sess.violated('parse_order_by: ' + ' '.join(k), 'parse_order_by/' + shape, v[1], {'tokens': list(k)}, rep, fam)
    nok = sum(1 for v in seen.values() if v[0] == 'ok')
    if not bad:
        sess.discharged('parse_order_by: %d well-formed key lists (<= %d tokens) induce the textbook comparator' % (nok, maxn), family=fam, queries=max(1, nok))
    sess.sample({'family': fam, 'examples': [' '.join(k) for k in list(seen)[:8]], 'paths': stats['paths']})


def comparator_differs(ref, keys_txt, dirs_txt):
    """does the natively parsed (keys, dirs) induce another order than the reference?"""
    try:
        keys = [k.strip().lower() for k in keys_txt.split(',') if k.strip()]
        dirs = [x.strip() == 'true' for x in dirs_txt.strip('[]').split(',') if x.strip()]
        if len(keys) != len(dirs):
            return True
        cols = sorted(set(keys) | {c for c, _ in ref})
        va = {c: z3.BitVec('va_' + c, 8) for c in cols}; vb = {c: z3.BitVec('vb_' + c, 8) for c in cols}

        def comp(kl):
            r = BitVecVal(0, 8)
            for col, asc in reversed(kl):
                here = If(ULT(va[col], vb[col]), BitVecVal(-1, 8), BitVecVal(1, 8))
                if not asc:
                    here = -here
                r = If(va[col] == vb[col], r, here)
            return r
        s = z3.Solver(); s.add(comp(list(zip(keys, dirs))) != comp(ref))
        return s.check() == z3.sat
    except Exception:
        return True


KEY_EXPRS = ['size*2', 'size * 2', 'size - 100', 'size + 100', '(size + 1) * 2', 'size % 10', '1 - size', 'length(name) + 1', 'size / 2 + 1', '-size']


def fam_clause_keys(sess):
    """an ORDER BY key is an expression like any other: the real lexer + the real Parser::parse turn `order by E` into the
    same expression tree as `select E`, whether or not the query has a WHERE clause (the lexer's operator recognition depends on
    where in the query it is)"""
    from drivers import c11, parsecore as P
    from mirsym.models_std import Seq, generic_eq, table_str
    from mirsym.core import none
    prog = sess.prog
    fam = 'clause_keys'
    ov = c11.lexer_models() + [(r'^UserDirs::new$|^directories::UserDirs::new$', lambda ctx, a, c: none(), 'stub:UserDirs::new(None)')]
    ex = sess.executor(ov, unwind=400, maxsteps=3000000)
    parse = prog.find('Parser', 'parse')
    QF = E.struct_fields(prog, 'Query')
    sess.bounds[fam] = {'key expressions': KEY_EXPRS, 'clauses': 'with and without WHERE (symbolic choice), key alone / followed by desc / by a second key'}
    for e in KEY_EXPRS:
        box = {'paths': 0}

        def run(ctx, e=e):
            with_where = ctx.decide(ctx.fresh_bool('query_has_where'))
            tail = ctx.concretize(ctx.fresh_bv('tail', 2), range(3))
            q1 = 'name from .' + (' where size > 0' if with_where else '') + ' order by ' + e + ['', ' desc', ', name'][tail]
            q2 = e + ' from .'
            out = []
            for q in (q1, q2):
                parser = P.mk_parser(prog, [], roots_parsed=False, where_parsed=False)
                out.append(ctx.call_fn(parse, [Ref(Cell(parser)), Seq([Str(q)]), BoolVal(False)]))
            return q1, q2, out

        def on_path(ctx, out, e=e):
            nm = '%s `%s`' % (fam, e)
            box['paths'] += 1
            if out[0] != 'ret':
                if not box.get('bad'):
                    box['bad'] = True; sess.inconclusive(nm, str(out)[:300], fam)
                return
            q1, q2, (r1, r2) = out[1]
            bad = None
            if conc(r2.d) != 0:
                return                      # the expression is not accepted in the select list either: not a key expression
            if conc(r1.d) != 0:
                bad = 'rejected: %r' % (r1.p[1][0],)
            else:
                k1 = r1.p[0][0].f[QF.index('ordering_fields')]
                k1 = ctx.deref(k1) if not hasattr(k1, 'cell') else k1.cell.v
                keys = k1.items
                f2 = r2.p[0][0].f[QF.index('fields')].items
                if not keys:
                    bad = 'no ordering key'
                else:
                    try:
                        same = generic_eq(ctx, keys[0].v, f2[0].v)
                    except Unmodelled as ex_:
                        box['bad'] = True; sess.inconclusive(nm, 'cannot compare: %s' % ex_, fam); return
                    if ctx.check(Not(same)) != z3.unsat:
                        bad = 'the key is the expression %s' % P.expr_to_text(ctx, prog, keys[0].v)
                    elif len(keys) != (2 if q1.endswith(', name') else 1):
                        bad = '%d keys' % len(keys)
            if bad and not box.get('viol'):
                box['viol'] = True
                sess.violated(nm, 'clause_keys/' + ('with-where' if ' where ' in q1 else 'no-where'), '`%s`: %s' % (q1, bad), {'query': q1}, cli_replay_key(e, ' where ' in q1), fam)
        ex.explore(run, on_path)
        if not box.get('viol') and not box.get('bad'):
            sess.discharged('%s `%s`: the ORDER BY key is the expression' % (fam, e), family=fam, queries=box['paths'])


def cli_replay_key(e, with_where):
    def rep():
        exe = common.native_binary()
        tree = {'f5': {'size': 5}, 'f50': {'size': 50}, 'f150': {'size': 150}, 'f1000': {'size': 1000}, 'f99': {'size': 99}, 'g7': {'size': 7}}
        w = ' where size > 0' if with_where else ''
        r = common.run_cli(exe, ['%s, name from .%s order by %s' % (e, w, e)], tree)
        rows = [l.split('\t') for l in r['stdout'].split('\n')[:-1]]
        try:
            vals = [float(x[0]) for x in rows]
        except ValueError:
            return True, '`order by %s`%s: status %s, rows %r %s' % (e, w, r['status'], rows[:3], r['stderr'][:80])
        bad = r['status'] != 0 or len(rows) != 6 or vals != sorted(vals)
        return bad, '`... %s order by %s`: status %s, key values in output order %r %s' % (w, e, r['status'], vals, r['stderr'][:80])
    return rep


def main(sess):
    sess.engines = ['mirsym (MIR symbolic execution) + z3 %s' % z3.get_version_string()]
    sess.assumptions += [
        'the searcher instantiates Criteria<T> with T = String; <String as Ord>::cmp is byte-lexicographic (model)',
        'key values are what the evaluator renders: decimal integers for numeric keys (< 1000 here), "YYYY-MM-DD HH:MM:SS" for date columns '
        '(parse_datetime on such a rendering is summarised as returning that instant; C13 decides the parser), text from a table',
        'numeric / date / text classification of a column = the Variant constructor used by its get_field_value arm (read from the source)',
        'permutation and sortedness of the ordered buffer: TopN (C06); row values themselves: C04 / C15',
    ]
    only = getattr(sess, 'only', None)
    for name, f in (('cmp', fam_cmp), ('parse_order_by', fam_parse_order_by), ('clause_keys', fam_clause_keys)):
        if not only or name in only:
            f(sess)

    if not only or 'e2e' in only:
        from drivers import e2e
        e2e.family_for(sess, 'C05')
