"""C09 — every output format is well-formed and carries exactly the result table.

Families (real MIR of output/*.rs, util/wbuf.rs and of the three row-emitting sites of searcher.rs):
  cells     ResultsWriter::new / write_header / write_row / write_row_separator / write_footer with the real formatter behind the
            Box<dyn ResultsFormatter> for each of the six formats, on a 2 x 2 table whose first row consists of SYMBOLIC characters:
            html  — the document is the fixed skeleton and every value character appears either raw (then the solver shows it is not
                    < > &) or as an entity that unescapes to it;
            tabs / lines / list — cells and rows are delimited by exactly the separators of the format, values verbatim;
            json / csv — the third-party encoder is called once per row with exactly that row's (name, value) pairs / values
                    (one object member per selected column), `[` `,` `]` around / between the objects.
  protocol  the real Searcher::list_search_results + check_file + ResultsWriter + formatters inside the abstract file system
            (tree shape and WHERE verdicts symbolic, values concrete and adversarial): for the streamed, ordered, aggregate and
            grouped result paths and every format the bytes written to stdout decode (json / csv / html parsers, separator
            splitting) to exactly the rows that were accepted — header once, one separator between consecutive rows, footer once.
"""
import z3, json, csv, io, html, re, os
from html.parser import HTMLParser
from z3 import BitVecVal, BoolVal, Not, And, Or, If, ULT
from mirsym.core import Agg, EnumV, Cell, Ref, BoxV, UNIT, some, none, ok, err, conc, Unmodelled, Panic
from mirsym.models_std import Str, Seq, SpecialStr, Map, as_str
from mirsym import models_fmt
from drivers import evalcore as E, walker as W
import common

FORMATS = ['Tabs', 'Lines', 'List', 'Csv', 'Json', 'Html']
SQL_FORMAT = {'Tabs': 'tabs', 'Lines': 'lines', 'List': 'list', 'Csv': 'csv', 'Json': 'json', 'Html': 'html'}


# ------------------------------------------------------------------------------------------------ symbolic cell text
class PieceStr(SpecialStr):
    """a text made of pieces: ('c', text) literal text of the program, ('s', ch) one symbolic character of a value,
    ('r', text, ch) the text that a replacement put in the place of the value character ch, ('t', token) an encoder result"""
    __slots__ = ('pieces',)

    def __init__(self, pieces):
        Str.__init__(self)
        self.pieces = list(pieces)

    def __repr__(self):
        return 'Pieces(%d)' % len(self.pieces)

    def length(self, ctx):
        return ctx.fresh_bv('textlen', 64)

    def debug_hook(self, ctx):
        """<str as Debug>::fmt: quotes; \\t \\r \\n \\\\ \\" \\0 short forms; other control characters (and, for non-ASCII text,
        whatever char::escape_debug decides: grapheme extenders, unprintable code points) as \\u{hex}; the rest verbatim"""
        out = [('c', '"')]
        for p in self.pieces:
            if p[0] == 'c':
                out.append(('c', rust_str_debug(p[1])[1:-1]))
            elif p[0] == 's':
                ch = p[1]
                done = False
                for c, esc in (('"', '\\"'), ('\\', '\\\\'), ('\n', '\\n'), ('\r', '\\r'), ('\t', '\\t'), ('\0', '\\0')):
                    if ctx.decide(ch == ord(c)):
                        out.append(('r', esc, ch)); done = True; break
                if done:
                    continue
                if ctx.decide(Or(ULT(ch, BitVecVal(0x20, 32)), ch == 0x7f)):
                    out.append(('x', 'a Rust \\u{..} escape', ch))
                elif ctx.decide(ULT(ch, BitVecVal(0x80, 32))):
                    out.append(p)
                elif ctx.decide(ctx.fresh_bool('escape_debug_escapes_this_code_point')):
                    out.append(('x', 'a Rust \\u{..} escape', ch))
                else:
                    out.append(p)
            else:
                raise Unmodelled('Debug of %r piece' % (p[0],))
        out.append(('c', '"'))
        return PieceStr(out)

    @staticmethod
    def of(x):
        if isinstance(x, PieceStr):
            return x.pieces
        if isinstance(x, Str) and not isinstance(x, SpecialStr) and x.s is not None:
            return [('c', x.s)] if x.s else []
        if isinstance(x, Token):
            return [('t', x)]
        if isinstance(x, Chunk):
            return [('k', x)]
        raise Unmodelled('concatenation of a cell text with %r' % (x,))

    def concat_hook(self, ctx, other, rev):
        a, b = (PieceStr.of(other), self.pieces) if rev else (self.pieces, PieceStr.of(other))
        return PieceStr(a + b)

    def sop(self, ctx, name, args, callee, *extra):
        if name == 'replace':
            pat = ctx.deref(args[1])
            if z3.is_bv(pat):
                pc = conc(pat)
                if pc is None:
                    raise Unmodelled('replace(symbolic char)')
                pat = chr(pc)
            else:
                pat = as_str(ctx, pat).s
            rep = as_str(ctx, args[2]).s
            if pat is None or rep is None:
                raise Unmodelled('replace with symbolic pattern')
            out = []
            for p in self.pieces:
                if p[0] == 'c':
                    out.append(('c', p[1].replace(pat, rep)))
                elif p[0] == 'r':
                    out.append(('r', p[1].replace(pat, rep), p[2]))
                elif p[0] == 's':
                    if len(pat) == 1 and ctx.decide(p[1] == ord(pat)):
                        out.append(('r', rep, p[1]))
                    else:
                        out.append(p)      # a multi-character pattern never matches inside one symbolic character (the
                        # neighbours are separate value characters: patterns spanning two of them are outside the bound)
                else:
                    raise Unmodelled('replace over an encoder token')
            return PieceStr(out)
        if name == 'len':
            return ctx.fresh_bv('celltextlen', 64)
        if name == 'is_empty':
            return BoolVal(not any(p[0] in ('s', 't', 'k', 'x') or (p[0] in ('c', 'r') and p[1]) for p in self.pieces))
        if name == 'contains':
            pat = ctx.deref(args[1])
            if z3.is_bv(pat):
                pats = [pat]
            elif isinstance(pat, (Agg, Seq)):
                pats = list(pat.f) if isinstance(pat, Agg) else [c.v for c in pat.items]
            else:
                t = as_str(ctx, pat).s
                if t is None or len(t) != 1:
                    raise Unmodelled('contains(text pattern) on a symbolic cell text')
                pats = [BitVecVal(ord(t), 32)]
            outs = []
            for pc in pats:
                c = conc(pc)
                if c is None:
                    raise Unmodelled('contains(symbolic char)')
                for p in self.pieces:
                    if p[0] == 's':
                        outs.append(p[1] == c)
                    elif p[0] in ('c', 'r'):
                        outs.append(BoolVal(chr(c) in p[1]))
                    else:
                        raise Unmodelled('contains over an encoder token')
            return z3.simplify(Or(outs + [BoolVal(False)]))
        raise Unmodelled('%s on a symbolic cell text' % name)


class Token(SpecialStr):
    """what a third-party encoder returned for one row"""
    __slots__ = ('kind', 'payload')

    def __init__(self, kind, payload):
        Str.__init__(self)
        self.kind, self.payload = kind, payload

    def __repr__(self):
        return 'Token(%s)' % self.kind

    def length(self, ctx):
        return ctx.fresh_bv('tokenlen', 64)

    def concat_hook(self, ctx, other, rev):
        a, b = (PieceStr.of(other), [('t', self)]) if rev else ([('t', self)], PieceStr.of(other))
        return PieceStr(a + b)

    def sop(self, ctx, name, args, callee, *extra):
        if name == 'len':
            return ctx.fresh_bv('tokenlen', 64)
        raise Unmodelled('%s on an encoder token' % name)


class Chunk(SpecialStr):
    """part `idx` of `n` of the bytes of an encoder token, as a buffered writer hands them to the underlying io::Write;
    `mid` (solver Boolean): the cut falls inside a multi-byte character, so the part is not valid UTF-8 on its own"""
    __slots__ = ('tok', 'idx', 'n', 'mid')

    def __init__(self, tok, idx, n, mid):
        Str.__init__(self)
        self.tok, self.idx, self.n, self.mid = tok, idx, n, mid

    def __repr__(self):
        return 'Chunk(%d/%d of %r)' % (self.idx, self.n, self.tok)

    def length(self, ctx):
        return ctx.fresh_bv('chunklen', 64)

    def concat_hook(self, ctx, other, rev):
        a, b = (PieceStr.of(other), [('k', self)]) if rev else ([('k', self)], PieceStr.of(other))
        return PieceStr(a + b)

    def sop(self, ctx, name, args, callee, *extra):
        if name == 'len':
            return ctx.fresh_bv('chunklen', 64)
        raise Unmodelled('%s on a chunk of encoder output' % name)


def rust_str_debug(t):
    """<str as Debug>::fmt of a concrete text (char::escape_debug_ext with grapheme-extend escaping; approximation of the
    Unicode tables by Python's unicodedata: categories Cc Cf Cs Co Cn Zl Zp and non-space Zs unprintable, Mn Me extenders)"""
    import unicodedata
    out = ['"']
    for ch in t:
        o = ord(ch)
        if ch == '"':
            out.append('\\"')
        elif ch == '\\':
            out.append('\\\\')
        elif ch == '\n':
            out.append('\\n')
        elif ch == '\r':
            out.append('\\r')
        elif ch == '\t':
            out.append('\\t')
        elif ch == '\0':
            out.append('\\0')
        else:
            cat = unicodedata.category(ch)
            if cat in ('Cc', 'Cf', 'Cs', 'Co', 'Cn', 'Zl', 'Zp', 'Mn', 'Me') or (cat == 'Zs' and ch != ' '):
                out.append('\\u{%x}' % o)
            else:
                out.append(ch)
    out.append('"')
    return ''.join(out)


def text_of(v):
    """concrete text of a value (protocol family) or None"""
    if isinstance(v, Str) and not isinstance(v, SpecialStr):
        return v.s
    return None


# ------------------------------------------------------------------------------------------------ models
def writer_models(concrete_encoders):
    out = []

    def reg(pat, name):
        def deco(f):
            out.append((pat, f, name)); return f
        return deco

    @reg(r'^<dyn (output::)?ResultsFormatter as (output::)?ResultsFormatter>::(\w+)$', 'dyn dispatch: Box<dyn ResultsFormatter> -> the impl of the boxed type (or the trait default)')
    def dyn_formatter(ctx, args, callee):
        meth = callee.rsplit('::', 1)[1]
        ref = args[0]
        obj = ctx.deref(ref)
        for _ in range(4):
            if isinstance(obj, BoxV):
                ref = Ref(obj.cell); obj = obj.cell.v
            elif isinstance(obj, Ref):
                ref = obj; obj = ctx.deref(obj)
            else:
                break
        ty = getattr(obj, 'ty', None)
        fl = ctx.prog.by_trait.get(('ResultsFormatter', ty, meth))
        if not fl:
            fl = ctx.prog.fns.get('ResultsFormatter::' + meth)
        if not fl:
            raise Unmodelled('no ResultsFormatter::%s for %r' % (meth, ty))
        return ctx.call_fn(fl[0], [ref] + list(args[1:]))

    @reg(r'^<dyn (std::io::)?Write as (std::io::)?Write>::write_fmt$|^<Stdout as (std::io::)?Write>::write_fmt$|^<std::io::Stdout as (std::io::)?Write>::write_fmt$'
         r'|^<wbuf::WritableBuffer as (std::io::)?Write>::write_fmt$|^<WritableBuffer as (std::io::)?Write>::write_fmt$',
         'io::Write::write_fmt: renders, then hands the text to the target\'s write (WritableBuffer: its real write) / appends to stdout')
    def write_fmt(ctx, args, callee):
        text = models_fmt.render(ctx, args[1])
        ref = args[0]
        tgt = ctx.deref(ref)
        for _ in range(4):
            if isinstance(tgt, Ref):
                ref = tgt; tgt = ctx.deref(tgt)
            else:
                break
        if isinstance(tgt, Agg) and tgt.ty == 'Stdout':
            ctx.ghost.setdefault('stdout', []).append(text)
            return ok(UNIT)
        if isinstance(tgt, Agg) and tgt.ty and tgt.ty.endswith('WritableBuffer'):
            w = ctx.prog.by_trait.get(('Write', 'WritableBuffer', 'write'))
            if not w:
                raise Unmodelled('WritableBuffer::write not found')
            r = ctx.call_fn(w[0], [ref, Ref(Cell(text))])
            d = conc(r.d)
            if d != 0:
                return err(r.p[1][0]) if d == 1 else r
            return ok(UNIT)
        raise Unmodelled('write_fmt to %r' % (tgt,))

    @reg(r'^<&\[u8\] as Into<Vec<u8>>>::into$', 'bytes of a rendered text (identity)')
    def bytes_into(ctx, args, callee):
        return ctx.deref(args[0]) if isinstance(args[0], Ref) else args[0]

    @reg(r'^(std::string::)?String::from_utf8$', 'String::from_utf8: Ok for a whole rendered text, Err for a part cut inside a multi-byte character')
    def from_utf8(ctx, args, callee):
        v = ctx.deref(args[0]) if isinstance(args[0], Ref) else args[0]
        if isinstance(v, Chunk) and ctx.decide(v.mid):
            return err(Agg([], 'FromUtf8Error'))
        return ok(v)

    @reg(r'^(std::string::)?String::from_utf8_lossy$', 'String::from_utf8_lossy: a part cut inside a multi-byte character comes back with U+FFFD in place of the torn bytes; whole texts / ropes of whole texts unchanged')
    def from_utf8_lossy(ctx, args, callee):
        v = ctx.deref(args[0]) if isinstance(args[0], Ref) else args[0]
        if isinstance(v, Chunk) and ctx.decide(v.mid):
            return EnumV(1, {1: [Str('\ufffd<torn part %d of an encoded record>' % v.idx)]}, 'Cow')
        from mirsym.models_std import m_from_utf8_lossy
        return m_from_utf8_lossy(ctx, args, callee)

    @reg(r'^(core|std)::slice::<impl \[u8\]>::len$', 'byte length of a text handed to write (fresh, > 0)')
    def bytes_len(ctx, args, callee):
        n = ctx.fresh_bv('nbytes', 64)
        ctx.assume(ULT(n, BitVecVal(1 << 40, 64)))
        return n

    @reg(r'^Vec::extend_from_slice$|^<Vec<u8> as Extend<&u8>>::extend$', 'Vec<u8>::extend_from_slice with a text: the text becomes one element of the byte rope')
    def extend_bytes(ctx, args, callee):
        vec = ctx.deref(args[0])
        piece = ctx.deref(args[1]) if isinstance(args[1], Ref) else args[1]
        if not isinstance(piece, Str):
            raise Unmodelled('extend_from_slice with %r' % (piece,))
        vec.items.append(Cell(piece))
        return UNIT

    @reg(r'^(std::string::)?String::from_utf8_lossy$|^(std::string::)?String::from_utf8_unchecked$', 'String::from_utf8_lossy of a byte rope: the texts joined (lossless when every text is complete)')
    def from_lossy(ctx, args, callee):
        v = ctx.deref(args[0])
        if isinstance(v, Str):
            return EnumV(0, {0: [v]}, 'Cow') if 'lossy' in callee else v
        acc = Str('')
        for c in v.items:
            acc = models_fmt.concat_any(ctx, acc, c.v)
        if isinstance(acc, PieceStr):
            acc = PieceStr(flatten_chunks(acc.pieces))
            if any(p[0] == 'k' for p in acc.pieces):
                raise Unmodelled('from_utf8_lossy over an incomplete chunk sequence')
        return EnumV(1, {1: [acc]}, 'Cow') if 'lossy' in callee else acc

    @reg(r'^<(std::io::)?ErrorKind as Into<(std::io::)?Error>>::into$', 'io::Error from kind')
    def kind_into(ctx, args, callee):
        return W.IoError('invalid input', 'InvalidInput')

    @reg(r'^<(wbuf::)?WritableBuffer as Into<(std::string::)?String>>::into$', 'Into<String> for WritableBuffer = the crate\'s From impl')
    def wb_into(ctx, args, callee):
        return ctx.call('<std::string::String as From<wbuf::WritableBuffer>>::from', args)

    @reg(r'^(std::io::)?stdout$', 'io::stdout')
    def stdout(ctx, args, callee):
        return Agg([], 'Stdout')

    @reg(r'^serde_json::to_string$', 'serde_json::to_string(&BTreeMap): one token per call carrying the map\'s entries (cells) / RFC 8259 text via Python json (protocol)')
    def to_json(ctx, args, callee):
        m = ctx.deref(args[0])
        ents = [(ctx.deref(m.keys[k]), m.d[k].v) for k in m.ordered_keys()]
        if concrete_encoders:
            d = {}
            for k, v in ents:
                d[text_of(k)] = text_of(v)
            return ok(Str(json.dumps(d, ensure_ascii=False, separators=(',', ':'), sort_keys=True)))
        return ok(Token('json', ents))

    @reg(r'^csv::Writer::from_writer$', 'csv::Writer::from_writer')
    def csv_from(ctx, args, callee):
        return Agg([args[0]], 'csv::Writer')

    @reg(r'^csv::Writer::write_record$', 'csv::Writer::write_record: the record reaches the underlying writer as one RFC 4180 line (quoted when necessary: delimiter, quote, CR, LF; \\n) / one token')
    def csv_write(ctx, args, callee):
        w = ctx.deref(args[0])
        recs = ctx.deref(args[1])
        vals = [c.v for c in recs.items]
        if concrete_encoders:
            # the csv crate's default (QuoteStyle::Necessary): a field is quoted when it holds the delimiter, a quote, CR or LF (or is
            # the only, empty, field of its record); quotes inside are doubled; records end in LF
            def field(t):
                return '"' + t.replace('"', '""') + '"' if any(ch in t for ch in ',"\r\n') else t
            texts = [text_of(v) for v in vals]
            text = ','.join(field(t) for t in texts) + '\n'
            if len(vals) == 1 and texts[0] == '':
                text = '""\n'
            piece = Str(text)
            parts = [piece]
        else:
            tok = Token('csv', list(vals))
            parts = [tok]
            # csv::Writer is buffered: when its buffer fills inside a record, the record reaches the underlying writer in
            # two writes, cut at an arbitrary byte (io::Write contract) - possibly inside a multi-byte character
            if ctx.decide(ctx.fresh_bool('csv_buffer_fills_inside_record')):
                mid = ctx.fresh_bool('cut_inside_character')
                multi = []
                for v in vals:
                    for pc in (v.pieces if isinstance(v, PieceStr) else []):
                        if pc[0] == 's':
                            multi.append(z3.UGE(pc[1], BitVecVal(0x80, 32)))
                    if text_of(v) is not None and any(ord(ch) >= 0x80 for ch in text_of(v)):
                        multi.append(BoolVal(True))
                ctx.assume(z3.Implies(mid, Or(multi + [BoolVal(False)])))
                parts = [Chunk(tok, 0, 2, mid), Chunk(tok, 1, 2, mid)]
        wref = w.f[0]
        for _ in range(3):
            t = ctx.deref(wref)
            if isinstance(t, Ref):
                wref = t
            else:
                break
        wfn = ctx.prog.by_trait.get(('Write', 'WritableBuffer', 'write'))
        if not wfn:
            raise Unmodelled('WritableBuffer::write not found')
        for part in parts:
            r = ctx.call_fn(wfn[0], [wref, Ref(Cell(part))])
            if conc(r.d) != 0:
                return err(Agg([], 'csv::Error'))
        return ok(UNIT)

    return out


def btree_entries(m, ctx):
    return m.entries(ctx)


# ------------------------------------------------------------------------------------------------ family: cells
def fam_cells(sess):
    prog = sess.prog
    fam = 'cells'
    ex = sess.executor(writer_models(False), unwind=8)
    new = prog.find('ResultsWriter', 'new')
    wh = prog.find('ResultsWriter', 'write_header'); wr = prog.find('ResultsWriter', 'write_row')
    ws = prog.find('ResultsWriter', 'write_row_separator'); wf = prog.find('ResultsWriter', 'write_footer')
    wb_new = prog.find('WritableBuffer', 'new')
    sess.bounds[fam] = {'table': '2 rows x 2 columns; first row: values of 2 and 1 symbolic characters (any Unicode scalar), second row concrete (one empty value)',
                        'formats': FORMATS, 'column names': 'distinct (name, size) and, for json, equal (name, name)'}
    for fmt in FORMATS:
        for dup in ((False, True) if fmt == 'Json' else (False,)):
            box = {}
            names = ['name', 'name'] if dup else ['name', 'size']

            def run(ctx, fmt=fmt, names=names):
                chars = [ctx.fresh_bv('ch%d' % i, 32) for i in range(3)]
                for c in chars:
                    ctx.assume(And(ULT(c, BitVecVal(0x110000, 32)), Or(ULT(c, BitVecVal(0xD800, 32)), z3.UGT(c, BitVecVal(0xDFFF, 32)))))
                v00 = PieceStr([('s', chars[0]), ('s', chars[1])]); v01 = PieceStr([('s', chars[2])])
                rows = [[v00, v01], [Str('x y'), Str('')]]
                w = Cell(ctx.call_fn(new, [Ref(Cell(EnumV(prog.src.variant_index('OutputFormat', fmt), {}, 'OutputFormat')))]))
                buf = Cell(ctx.call_fn(wb_new, []))
                res = []
                res.append(ctx.call_fn(wh, [Ref(w), Ref(buf)]))
                for i, row in enumerate(rows):
                    if i:
                        res.append(ctx.call_fn(ws, [Ref(w), Ref(buf)]))
                    items = Seq([Agg([Str(n), v]) for n, v in zip(names, row)])
                    res.append(ctx.call_fn(wr, [Ref(w), Ref(buf), items]))
                res.append(ctx.call_fn(wf, [Ref(w), Ref(buf)]))
                return chars, rows, ctx.call('<std::string::String as From<wbuf::WritableBuffer>>::from', [buf.v]), res

            def on_path(ctx, out, fmt=fmt, names=names, dup=dup):
                nm = '%s %s%s' % (fam, fmt, ' (two columns with the same name)' if dup else '')
                if out[0] != 'ret':
                    box['bad'] = True; sess.inconclusive(nm, str(out), fam); return
                chars, rows, text, res = out[1]
                if any(conc(r.d) != 0 for r in res):
                    box['bad'] = True; sess.inconclusive(nm, 'a write to the in-memory buffer failed', fam); return
                pieces = PieceStr.of(text)
                okv, why, witness_cond = check_stream(ctx, fmt, names, rows, pieces)
                box['paths'] = box.get('paths', 0) + 1
                if okv:
                    return
                if box.get('viol'):
                    return
                box['viol'] = True
                wit = {}
                if witness_cond is not None:
                    m = ctx.model(witness_cond)
                    wit = {'chars': [m.eval(c, model_completion=True).as_long() for c in chars]}
                else:
                    m = ctx.model()
                    wit = {'chars': [m.eval(c, model_completion=True).as_long() for c in chars]}
                vals = [''.join(chr(x) for x in wit['chars'][:2]), chr(wit['chars'][2])]
                role = 'cells/%s/%s' % (fmt.lower(), 'duplicate-column-names' if dup else why.split(':')[0])
                sess.violated(nm, role, '%s (first row values %r)' % (why, vals), {'values': vals, 'format': fmt, 'columns': names},
                              cli_replay_cells(fmt, vals, dup), fam)
            ex.explore(run, on_path)
            if not box.get('viol') and not box.get('bad'):
                sess.discharged('%s %s%s' % (fam, fmt, ' (same-named columns)' if dup else ''), family=fam, queries=box.get('paths', 1))


def flatten_chunks(pieces):
    joined = []
    i = 0
    while i < len(pieces):
        p = pieces[i]
        if p[0] == 'k' and p[1].idx == 0 and i + p[1].n <= len(pieces) and all(
                pieces[i + j][0] == 'k' and pieces[i + j][1].tok is p[1].tok and pieces[i + j][1].idx == j for j in range(p[1].n)):
            joined.append(('t', p[1].tok)); i += p[1].n
        else:
            joined.append(p); i += 1
    return joined


def flatten(pieces):
    """merge adjacent literal pieces"""
    out = []
    joined = []
    i = 0
    while i < len(pieces):
        p = pieces[i]
        if p[0] == 'k' and p[1].idx == 0 and i + p[1].n <= len(pieces) and all(
                pieces[i + j][0] == 'k' and pieces[i + j][1].tok is p[1].tok and pieces[i + j][1].idx == j for j in range(p[1].n)):
            joined.append(('t', p[1].tok)); i += p[1].n      # all parts, in order: the token's bytes
        else:
            joined.append(p); i += 1
    pieces = joined
    for p in pieces:
        if p[0] == 'c' and out and out[-1][0] == 'c':
            out[-1] = ('c', out[-1][1] + p[1])
        elif p[0] == 'c' and p[1] == '':
            continue
        else:
            out.append(p)
    return out


def atoms_of(pieces):
    """pieces -> atoms: ('c', one concrete char) | ('s', ch) | ('r', text, ch) | ('x', what, ch) | ('t', token)"""
    out = []
    for p in pieces:
        if p[0] == 'c':
            out += [('c', c) for c in p[1]]
        else:
            out.append(p)
    return out


def value_items(v):
    """the characters of a row value: concrete chars and symbolic ones, in order"""
    out = []
    for p in PieceStr.of(v):
        if p[0] == 'c':
            out += [('c', c) for c in p[1]]
        elif p[0] == 's':
            out.append(p)
        else:
            raise Unmodelled('row value with %r piece' % (p[0],))
    return out


class Scan:
    """a cursor over atoms with the solver at hand"""
    def __init__(self, ctx, atoms):
        self.ctx, self.a, self.i = ctx, atoms, 0
        self.witness = None

    def peek(self):
        return self.a[self.i] if self.i < len(self.a) else None

    def lit(self, text):
        for ch in text:
            p = self.peek()
            if p is None or p[0] != 'c' or p[1] != ch:
                return False
            self.i += 1
        return True

    def sym_ok(self, ch, forbidden):
        bad = Or([ch == ord(c) for c in forbidden if isinstance(c, str)] + [f(ch) for f in forbidden if not isinstance(c, str) and callable(f)] + [BoolVal(False)])
        return bad

    def json_string(self):
        """-> (items, error): decoded content of a JSON string at the cursor"""
        if not self.lit('"'):
            return None, 'structure: a JSON string is expected'
        items = []
        while True:
            p = self.peek()
            if p is None:
                return None, 'structure: unterminated JSON string'
            self.i += 1
            if p[0] == 'c':
                if p[1] == '"':
                    return items, ''
                if p[1] == '\\':
                    esc = '\\'
                    q = self.peek()
                    if q is None or q[0] != 'c':
                        return None, 'escape: dangling backslash'
                    self.i += 1; esc += q[1]
                    if q[1] == 'u':
                        for _ in range(4):
                            h = self.peek()
                            if h is None or h[0] != 'c':
                                return None, 'escape: \\u not followed by four hex digits'
                            self.i += 1; esc += h[1]
                    try:
                        items.append(('c', json.loads('"' + esc + '"')))
                    except ValueError:
                        return None, 'escape: %r is not a JSON escape' % esc
                elif ord(p[1]) < 0x20:
                    return None, 'escape: raw control character %r in a JSON string' % p[1]
                else:
                    items.append(p)
            elif p[0] == 's':
                bad = Or(p[1] == ord('"'), p[1] == ord('\\'), ULT(p[1], BitVecVal(0x20, 32)))
                if self.ctx.check(bad) != z3.unsat:
                    self.witness = bad
                    return None, 'escape: a value character that JSON requires to be escaped is written raw'
                items.append(p)
            elif p[0] == 'r':
                chv = self.ctx.model().eval(p[2], model_completion=True).as_long()
                if self.ctx.check(p[2] != chv) != z3.unsat:
                    return None, 'escape: replacement text for an undetermined character'
                try:
                    dec = json.loads('"' + p[1] + '"')
                except ValueError:
                    dec = None
                if dec != chr(chv):
                    return None, 'escape: %r is written as %r, which JSON does not decode to it' % (chr(chv), p[1])
                items.append(('s', p[2]))
            elif p[0] == 'x':
                self.witness = BoolVal(True)
                return None, 'escape: a value character is written as %s, which is not JSON' % p[1]
            else:
                return None, 'structure: unexpected %r inside a JSON string' % (p[0],)

    def csv_field(self):
        """-> (items, terminator, error): one RFC 4180 field at the cursor (terminator ',' or '\\n')"""
        items = []
        p = self.peek()
        if p is not None and p[0] == 'c' and p[1] == '"':
            self.i += 1
            while True:
                p = self.peek()
                if p is None:
                    return None, None, 'structure: unterminated quoted field'
                self.i += 1
                if p[0] == 'c' and p[1] == '"':
                    q = self.peek()
                    if q is not None and q[0] == 'c' and q[1] == '"':
                        self.i += 1; items.append(('c', '"'))
                    else:
                        break
                elif p[0] == 'c':
                    items.append(p)
                elif p[0] == 's':
                    if self.ctx.check(p[1] == ord('"')) != z3.unsat:
                        self.witness = p[1] == ord('"')
                        return None, None, 'quote: a double quote inside a quoted field is not doubled'
                    items.append(p)
                else:
                    return None, None, 'structure: unexpected %r inside a quoted field' % (p[0],)
        else:
            while True:
                p = self.peek()
                if p is None:
                    return None, None, 'structure: record not terminated'
                if p[0] == 'c' and p[1] in ',\n':
                    break
                self.i += 1
                if p[0] == 'c':
                    if p[1] in '"\r':
                        return None, None, 'quote: %r in an unquoted field' % p[1]
                    items.append(p)
                elif p[0] == 's':
                    bad = Or([p[1] == ord(c) for c in ',"\n\r'])
                    if self.ctx.check(bad) != z3.unsat:
                        self.witness = bad
                        return None, None, 'quote: a value character that needs quoting (, " CR LF) is written in an unquoted field'
                    items.append(p)
                else:
                    return None, None, 'structure: unexpected %r in a field' % (p[0],)
        p = self.peek()
        if p is None or p[0] != 'c' or p[1] not in ',\n':
            return None, None, 'structure: field not followed by , or newline'
        self.i += 1
        return items, p[1], ''


def same_items(ctx, got, want):
    if len(got) != len(want):
        return False
    for g, w in zip(got, want):
        if g[0] != w[0]:
            return False
        if g[0] == 'c' and g[1] != w[1]:
            return False
        if g[0] == 's' and not g[1].eq(w[1]):
            return False
    return True


def check_stream(ctx, fmt, names, rows, pieces):
    """-> (ok, reason, solver condition of a witness or None). The expected stream is built from the rows; value pieces
    must occur in order; around them exactly the literal skeleton of the format."""
    pieces = flatten(pieces)

    def val_pieces(v):
        return PieceStr.of(v)
    if fmt in ('Tabs', 'Lines', 'List'):
        sep, eol = {'Tabs': ('\t', '\n'), 'Lines': ('\n', '\n'), 'List': ('\0', '\0')}[fmt]
        exp = []
        for row in rows:
            for j, v in enumerate(row):
                exp += val_pieces(v)
                exp.append(('c', sep if j < len(row) - 1 else eol))
        exp = flatten(exp)
        if len(exp) != len(pieces):
            return False, 'structure: %d pieces, expected %d' % (len(pieces), len(exp)), None
        for a, b in zip(pieces, exp):
            if a[0] != b[0]:
                return False, 'structure: %r where %r is expected' % (a[0], b[0]), None
            if a[0] == 'c' and a[1] != b[1]:
                return False, 'separator: literal %r where %r is expected' % (a[1], b[1]), None
            if a[0] == 's' and not a[1].eq(b[1]):
                return False, 'value: characters out of order', None
            if a[0] == 'r':
                return False, 'value: a character was rewritten', None
        return True, '', None
    if fmt == 'Html':
        exp = [('c', '<html><body><table>')]
        for row in rows:
            exp.append(('c', '<tr>'))
            for v in row:
                exp.append(('c', '<td>'))
                for p in val_pieces(v):
                    exp.append(('v', p))
                exp.append(('c', '</td>'))
            exp.append(('c', '</tr>'))
        exp.append(('c', '</table></body></html>'))
        # walk both: literals of the implementation must equal the skeleton; value characters raw or as entities
        i = 0
        got = pieces
        pos = 0
        lit_buf = ''
        # split got's literal pieces against expected literal runs
        gi = 0

        def take_literal(want):
            nonlocal gi, lit_buf
            while len(lit_buf) < len(want):
                if gi < len(got) and got[gi][0] == 'c':
                    lit_buf += got[gi][1]; gi += 1
                else:
                    return False
            if not lit_buf.startswith(want):
                return False
            lit_buf = lit_buf[len(want):]
            return True
        for e in exp:
            if e[0] == 'c':
                if not take_literal(e[1]):
                    return False, 'skeleton: the markup around the cells is not %r' % e[1], None
            else:
                vp = e[1]
                if vp[0] == 'c':        # a concrete value: must appear escaped
                    want = html.escape(vp[1], quote=False)
                    alt = html.escape(vp[1], quote=True)
                    if take_literal(want) or take_literal(alt):
                        continue
                    return False, 'value: concrete value %r not found escaped' % vp[1], None
                if lit_buf:
                    return False, 'skeleton: unexpected literal %r before a value character' % lit_buf, None
                if gi >= len(got):
                    return False, 'value: missing value character', None
                g = got[gi]; gi += 1
                if g[0] == 's':
                    if not g[1].eq(vp[1]):
                        return False, 'value: characters out of order', None
                    bad = Or(g[1] == ord('<'), g[1] == ord('>'), g[1] == ord('&'))
                    if ctx.check(bad) != z3.unsat:
                        return False, 'escape: a value character < > & reaches the markup raw', bad
                elif g[0] == 'r':
                    if not g[2].eq(vp[1]):
                        return False, 'value: characters out of order', None
                    t = g[1]
                    m = ctx.model()
                    chv = m.eval(g[2], model_completion=True).as_long()
                    # the path condition fixes the character (the replacement was taken for one pattern character)
                    if ctx.check(g[2] != chv) != z3.unsat:
                        return False, 'escape: replacement text for an undetermined character', None
                    if html.unescape(t) != chr(chv) or '<' in t or '>' in t or re.search(r'&(?!(?:[a-zA-Z][a-zA-Z0-9]*|#[0-9]+|#[xX][0-9a-fA-F]+);)', t):
                        return False, 'escape: %r is written as %r, which does not unescape to it / is not well-formed' % (chr(chv), t), None
                else:
                    return False, 'structure: unexpected piece %r' % (g[0],), None
        if lit_buf or gi != len(got):
            return False, 'skeleton: trailing output', None
        return True, '', None
    if fmt == 'Json':
        sc = Scan(ctx, atoms_of(pieces))
        if not sc.lit('['):
            return False, 'structure: the document does not start with [', None
        for ri, row in enumerate(rows):
            if ri and not sc.lit(','):
                return False, 'structure: no , between two row objects', None
            p = sc.peek()
            if p is not None and p[0] == 't':
                sc.i += 1
                ents = p[1].payload
                if len(ents) != len(row):
                    return False, 'members: the row object has %d member(s) for %d selected columns' % (len(ents), len(row)), None
                byname = {text_of(k): v for k, v in ents}
                for n, v in zip(names, row):
                    if byname.get(n) is not v and not (text_of(v) is not None and text_of(byname.get(n)) == text_of(v)):
                        return False, 'members: column %r does not carry its value' % n, None
                continue
            # an object written by hand: { "name":"value" , ... }
            if not sc.lit('{'):
                return False, 'structure: a row object is expected', None
            members = {}
            first = True
            while not sc.lit('}'):
                if not first and not sc.lit(','):
                    return False, 'structure: no , between two members', sc.witness
                first = False
                k, e = sc.json_string()
                if k is None:
                    return False, e, sc.witness
                if not sc.lit(':'):
                    return False, 'structure: no : after a member name', None
                v, e = sc.json_string()
                if v is None:
                    return False, e, sc.witness
                key = ''.join(x[1] for x in k if x[0] == 'c')
                if key in members:
                    return False, 'members: duplicate member %r' % key, None
                members[key] = v
            if len(members) != len(row):
                return False, 'members: the row object has %d member(s) for %d selected columns' % (len(members), len(row)), None
            for n, v in zip(names, row):
                if n not in members or not same_items(ctx, members[n], value_items(v)):
                    return False, 'members: column %r does not carry its value' % n, None
        if not sc.lit(']') or sc.peek() is not None:
            return False, 'structure: the document does not end with ] after the last row', None
        return True, '', None
    if fmt == 'Csv':
        sc = Scan(ctx, atoms_of(pieces))
        for row in rows:
            p = sc.peek()
            if p is not None and p[0] == 't':
                sc.i += 1
                vals = p[1].payload
                if len(vals) != len(row) or any(a is not b and not (text_of(a) is not None and text_of(a) == text_of(b)) for a, b in zip(vals, row)):
                    return False, 'record: the record written for a row is not that row\'s values', None
                continue
            fields = []
            while True:
                f, term, e = sc.csv_field()
                if f is None:
                    return False, e, sc.witness
                fields.append(f)
                if term == '\n':
                    break
            if len(fields) != len(row) or any(not same_items(ctx, f, value_items(v)) for f, v in zip(fields, row)):
                return False, 'record: the record written for a row is not that row\'s values', None
            if len(row) == 1 and not fields[0]:
                return False, 'record: a record of one empty field must be written as ""', None
        if sc.peek() is not None:
            return False, 'structure: trailing output after the last record', None
        return True, '', None
    raise KeyError(fmt)


# ------------------------------------------------------------------------------------------------ decoding real output
class _TableParser(HTMLParser):
    def __init__(self):
        HTMLParser.__init__(self, convert_charrefs=True)
        self.rows = []; self.cell = None; self.stack = []; self.errors = []

    def handle_starttag(self, tag, attrs):
        self.stack.append(tag)
        if tag == 'tr':
            self.rows.append([])
        elif tag == 'td':
            if not self.rows or self.cell is not None:
                self.errors.append('td outside tr')
            self.cell = ''
        elif tag not in ('html', 'body', 'table'):
            self.errors.append('unexpected element <%s>' % tag)

    def handle_endtag(self, tag):
        if not self.stack or self.stack[-1] != tag:
            self.errors.append('mismatched </%s>' % tag); return
        self.stack.pop()
        if tag == 'td':
            self.rows[-1].append(self.cell); self.cell = None

    def handle_data(self, data):
        if self.cell is not None:
            self.cell += data
        elif data.strip():
            self.errors.append('text outside a cell: %r' % data[:20])

    def handle_comment(self, data):
        self.errors.append('comment')

    def handle_decl(self, d):
        self.errors.append('declaration')

    def handle_pi(self, d):
        self.errors.append('processing instruction')

    def unknown_decl(self, d):
        self.errors.append('declaration')


def decode(fmt, text, names):
    """-> (rows or None, error)"""
    fmt = fmt.lower()
    if fmt == 'json':
        try:
            dup = []

            def hook(pairs):
                if len({k for k, _ in pairs}) != len(pairs):
                    dup.append(pairs)
                return dict(pairs)
            data = json.loads(text, object_pairs_hook=hook)
        except ValueError as e:
            return None, 'invalid JSON: %s' % e
        if not isinstance(data, list) or any(not isinstance(o, dict) for o in data):
            return None, 'not an array of objects'
        rows = []
        for o in data:
            if len(o) != len(names):
                return None, 'an object has %d member(s) for %d columns' % (len(o), len(names))
            o = {k.lower(): v for k, v in o.items()}       # member names are the column names in some letter case
            try:
                rows.append([o[n] for n in names])
            except KeyError as e:
                return None, 'missing member %s' % e
        return rows, ''
    if fmt == 'csv':
        # RFC 4180 with the csv crate's \n terminator; a strict reader
        try:
            rows = [r for r in csv.reader(io.StringIO(text, newline=''), strict=True)]
        except csv.Error as e:
            return None, 'invalid CSV: %s' % e
        if text and not text.endswith('\n'):
            return None, 'last record not terminated'
        return rows, ''
    if fmt == 'html':
        # well-formedness beyond what the tolerant parser accepts: no raw < > & in character data
        body = re.sub(r'</?(html|body|table|tr|td)>', '', text)
        if '<' in body or '>' in body:
            return None, 'raw < or > in character data'
        if re.search(r'&(?!(?:[a-zA-Z][a-zA-Z0-9]*|#[0-9]+|#[xX][0-9a-fA-F]+);)', body):
            return None, 'raw & in character data'
        p = _TableParser()
        p.feed(text); p.close()
        if p.errors or p.stack:
            return None, 'malformed: %s' % (p.errors or p.stack)
        if not (text.startswith('<html><body><table>') and text.endswith('</table></body></html>')):
            return None, 'document skeleton'
        return p.rows, ''
    sep, eol = {'tabs': ('\t', '\n'), 'lines': ('\n', '\n'), 'list': ('\0', '\0')}[fmt]
    if text == '':
        return [], ''
    if not text.endswith(eol):
        return None, 'last row not terminated'
    if fmt == 'tabs':
        return [r.split(sep) for r in text[:-1].split(eol)], ''
    flat = text[:-1].split(sep)
    n = len(names)
    if len(flat) % n:
        return None, '%d values for %d columns' % (len(flat), n)
    return [flat[i:i + n] for i in range(0, len(flat), n)], ''


def cli_replay_cells(fmt, vals, dup):
    """files named by the witness values (characters a file name cannot hold are skipped -> not reproducible through names:
    then the value is carried by a quoted literal in the select list)"""
    def rep():
        import tempfile, shutil, subprocess
        exe = common.native_binary()
        d = tempfile.mkdtemp(prefix='verif-c09-', dir=common.SCRATCH_ROOT)
        try:
            t = os.path.join(d, 't'); os.mkdir(t)
            safe = [v for v in vals if v and '/' not in v and '\0' not in v and v not in ('.', '..')]
            extra = ['a<b>&c', 'q"uo,te', 'x y', 'é€', 'c\rr', 'T&amp;J']
            made = []
            for v in safe + extra:
                try:
                    open(os.path.join(t, v), 'w').write('d'); made.append(v)
                except (OSError, ValueError):
                    pass
            cols = 'name, name' if dup else 'name, size'
            names = ['name', 'name'] if dup else ['name', 'size']
            env = {'PATH': os.environ['PATH'], 'HOME': d, 'TZ': 'UTC'}

            def run(f):
                r = subprocess.run([exe, cols, 'from', t, 'order', 'by', 'name', 'into', f], env=env, stdout=subprocess.PIPE, stderr=subprocess.PIPE, timeout=20)
                return r.stdout.decode('utf-8', 'replace')
            ref, e0 = decode('list', run('list'), names)
            got, e1 = decode(fmt, run(SQL_FORMAT[fmt]), names)
            if got is None:
                return True, '`%s into %s` over files %r: %s' % (cols, SQL_FORMAT[fmt], made, e1)
            if got != ref:
                return True, '`%s into %s` decodes to %r, `into list` to %r' % (cols, SQL_FORMAT[fmt], got, ref)
            if fmt == 'Csv':
                # a record of one empty field (a name without an extension) is `""`, not an empty line
                def run1(f):
                    r = subprocess.run([exe, 'ext', 'from', t, 'order', 'by', 'name', 'into', f], env=env, stdout=subprocess.PIPE, stderr=subprocess.PIPE, timeout=20)
                    return r.stdout.decode('utf-8', 'replace')
                ref1, _ = decode('list', run1('list'), ['ext'])
                got1, e1_ = decode('csv', run1('csv'), ['ext'])
                if got1 != ref1:
                    return True, '`ext into csv` over files %r decodes to %r (%s), `into list` to %r' % (made, got1, e1_, ref1)
                # a record longer than the csv writer's buffer, full of two-byte characters: whatever the parity of the cut
                cur = os.path.join(d, 'deep'); os.mkdir(cur)
                for i in range(18):
                    cur = os.path.join(cur, '\u00e9' * 100 + 'x%d' % i); os.mkdir(cur)
                open(os.path.join(cur, 'f.txt'), 'w').write('x')
                for cols2, names2 in (('path, path, path', ['path'] * 3), ('mode, path, path, path', ['mode', 'path', 'path', 'path']),
                                      ('name, path, path, path', ['name', 'path', 'path', 'path'])):
                    def run2(f):
                        r = subprocess.run([exe, cols2 + ' from . where name = f.txt into ' + f], cwd=os.path.join(d, 'deep'), env=env,
                                           stdout=subprocess.PIPE, stderr=subprocess.PIPE, timeout=30)
                        return r.stdout.decode('utf-8', 'replace')
                    ref2, _ = decode('list', run2('list'), names2)
                    got2, e2 = decode('csv', run2('csv'), names2)
                    if got2 != ref2:
                        return True, '`%s into csv` over a 3.6 KiB path of two-byte characters: %d record(s) (%s), `into list` has %d row(s)' % (
                            cols2, len(got2 or []), e2 or 'decoded', len(ref2 or []))
            return False, '`%s into %s` over files %r decodes to the list output' % (cols, SQL_FORMAT[fmt], made)
        finally:
            shutil.rmtree(d, ignore_errors=True)
    return rep


# ------------------------------------------------------------------------------------------------ family: protocol
VALUES = ['r0', 'c\x1bs', 'a<b>&amp;c', 'q"uo,te', 'x\ry\'z', 'e\u0301\u20ac\\', 'tab\there', '{[,]}']


def gfv_concrete(ctx, args, callee):
    """get_field_value summary: Name / Path of node i is VALUES[i] (concrete, adversarial); anything else UNMODELLED"""
    fe = ctx.deref(args[-1])
    d = fe.d if isinstance(fe.d, int) else conc(fe.d)
    name = ctx.prog.src.variant_name('Field', d)
    e = ctx.deref(args[1])
    node = e.node
    if name in ('Name', 'Path'):
        return E.mk_variant(ctx.prog, 'String', string_value=Str(VALUES[node] + ('' if name == 'Name' else '/p')))
    if name == 'Size':
        return E.mk_variant(ctx.prog, 'Int', string_value=Str(str(node * 7)), int_value=some(BitVecVal(node * 7, 64)))
    if name == 'IsShebang':      # the WHERE clause of the driver query: `is_shebang = is_dir`, verdict = the entry's symbolic match bit
        bit = W.fs_of(ctx).match_bit(node, None)
        ctx.ghost.setdefault('seen9', []).append((node, bit))
        return E.mk_variant(ctx.prog, 'Bool', string_value=Str('b'), bool_value=some(bit))
    if name == 'IsDir':
        return E.mk_variant(ctx.prog, 'Bool', string_value=Str('true'), bool_value=some(BoolVal(True)))
    raise Unmodelled('C09 get_field_value summary: column ' + str(name))


def fam_protocol(sess):
    prog = sess.prog
    fam = 'protocol'
    quick = sess.tier == 'quick'
    M = 4 if quick else 5
    modes = ['streamed', 'ordered', 'aggregate', 'grouped']
    sess.bounds[fam] = {'nodes': M, 'roots': '1 and 2 (streamed), 1 otherwise', 'formats': FORMATS, 'result paths': modes, 'values': VALUES[:M],
                        'WHERE verdict per entry': 'symbolic'}
    base = [o for o in W.models() if o[2] not in ('summary:check_file', 'summary:TopN::values(empty)', 'summary:ResultsWriter(token)')
            and 'write_fmt' not in o[0]]
    ov = writer_models(True) + base + [(r'Searcher::get_field_value$', gfv_concrete, 'summary:get_field_value(concrete adversarial values)'), E.CONVERT_OVERRIDE]
    for mode in modes:
        for fmt in FORMATS:
            for nroots in ((1, 2) if mode == 'streamed' else (1,)):
                ex = sess.executor(ov, unwind=M + 8, maxsteps=600000)
                viol = {}; st = {'paths': 0}
                name = '%s %s into %s%s' % (fam, mode, SQL_FORMAT[fmt], ' (2 roots)' if nroots == 2 else '')

                def runp(ctx, mode=mode, fmt=fmt, nroots=nroots):
                    fs = W.FS(ctx, M, roots=nroots, kinds=(W.FILE,))
                    ctx.ghost['fs'] = fs
                    roots = [W.mk_root(prog, 'R%d' % r, BitVecVal(0, 32), BitVecVal(0, 32), False) for r in range(nroots)]
                    q = W.mk_query(prog, roots, BitVecVal(0, 32), ordered=(mode == 'ordered'), aggregate=(mode in ('aggregate', 'grouped')), grouped=(mode == 'grouped'))
                    F = E.struct_fields(prog, 'Query')
                    q.f[F.index('output_format')] = EnumV(prog.src.variant_index('OutputFormat', fmt), {}, 'OutputFormat')
                    if mode in ('streamed', 'ordered'):
                        q.f[F.index('fields')] = Seq([E.expr_field(prog, 'Name'), E.expr_field(prog, 'Size')])
                    q.f[F.index('expr')] = some(E.leaf_cmp(prog, E.op_enum(prog, 'Eq'), 'IsShebang', 'IsDir'))
                    return W.run_exec_search(ctx, prog, q)

                def on_path(ctx, out, mode=mode, fmt=fmt, nroots=nroots, name=name):
                    st['paths'] += 1
                    if out[0] != 'ret':
                        st['bad'] = True; sess.inconclusive(name, str(out)[:300], fam); return
                    accepted = []
                    for n, bit in ctx.ghost.get('seen9', []):
                        if ctx.check(Not(bit)) == z3.unsat and n not in accepted:
                            accepted.append(n)
                    pieces = ctx.ghost.get('stdout', [])
                    texts = [text_of(p) for p in pieces]
                    if any(t is None for t in texts):
                        st['bad'] = True; sess.inconclusive(name, 'symbolic text on stdout', fam); return
                    text = ''.join(texts)
                    if mode in ('streamed', 'ordered'):
                        names = ['name', 'size']
                        exp = [[VALUES[n], str(n * 7)] for n in accepted]
                        if mode == 'ordered':
                            exp.sort(key=lambda r: r[0].encode())
                    elif mode == 'aggregate':
                        names = ['count(name)']
                        exp = [[str(len(accepted))]]
                    else:
                        names = ['name', 'count(name)']
                        cnt = {}
                        for n in accepted:
                            cnt[VALUES[n]] = cnt.get(VALUES[n], 0) + 1
                        exp = sorted([k, str(v)] for k, v in cnt.items())
                    got, e = decode(fmt, text, names)
                    if got is not None and mode == 'grouped':
                        got = sorted(got)
                    if got is not None and fmt in ('Tabs', 'Lines') and any(any(c in v for c in '\t\n') for r in exp for v in r):
                        return       # values containing the separator: the flat formats are not claimed to decode
                    if got == exp:
                        return
                    role = 'protocol/%s/%s' % (mode, 'decode' if got is None else 'rows')
                    if viol.get(role):
                        return
                    viol[role] = True
                    why = e if got is None else 'decodes to %r, accepted rows are %r' % (got, exp)
                    sess.violated(name, role, '%d accepted row(s): %s; stdout %r' % (len(accepted), why, text[:160]),
                                  {'mode': mode, 'format': fmt, 'accepted': accepted, 'stdout': text[:400]}, cli_replay_protocol(mode, fmt, len(accepted), nroots), fam)

                n, complete = ex.explore(runp, on_path, time_budget=240 if quick else 900)
                if not complete:
                    sess.inconclusive(name, 'time budget exceeded after %d paths' % n, fam)
                elif not viol and not st.get('bad'):
                    sess.discharged(name + ': stdout decodes to exactly the accepted rows', family=fam, queries=st['paths'])


def cli_replay_protocol(mode, fmt, nrows, nroots):
    def rep():
        import tempfile, shutil, subprocess
        exe = common.native_binary()
        d = tempfile.mkdtemp(prefix='verif-c09p-', dir=common.SCRATCH_ROOT)
        try:
            roots = []
            k = 0
            for r in range(nroots):
                t = os.path.join(d, 't%d' % r); os.mkdir(t); roots.append(t)
            vals = [v for v in VALUES if '/' not in v]
            for i, v in enumerate(vals):
                open(os.path.join(roots[i % nroots], v), 'w').write('x' * i)
            env = {'PATH': os.environ['PATH'], 'HOME': d, 'TZ': 'UTC'}
            frm = ['from'] + [r + ',' for r in roots[:-1]] + [roots[-1]]
            cols, names, tail = {'streamed': ('name, size', ['name', 'size'], []), 'ordered': ('name, size', ['name', 'size'], ['order', 'by', 'name']),
                                 'aggregate': ('count(name)', ['count(name)'], []), 'grouped': ('name, count(name)', ['name', 'count(name)'], ['group', 'by', 'name'])}[mode]
            for limit in ([], ['limit', '1'], ['limit', '2']) if mode in ('streamed', 'ordered') else ([],):
                def run(f):
                    r = subprocess.run([exe, ' '.join([cols] + frm + tail + limit + ['into', f])], env=env, stdout=subprocess.PIPE, stderr=subprocess.PIPE, timeout=20)
                    return r.stdout.decode('utf-8', 'replace')
                ref, e0 = decode('list', run('list'), names)
                if not ref:
                    return False, 'replay query produced no rows (%r)' % (e0,)
                got, e1 = decode(fmt, run(SQL_FORMAT[fmt]), names)
                if got is None:
                    return True, '`%s ... %s into %s`: %s' % (cols, ' '.join(tail + limit), SQL_FORMAT[fmt], e1)
                if sorted(got) != sorted(ref or []):
                    return True, '`%s ... %s into %s` decodes to %r, `into list` to %r' % (cols, ' '.join(tail + limit), SQL_FORMAT[fmt], got, ref)
            return False, 'into %s agrees with into list (%s)' % (SQL_FORMAT[fmt], mode)
        finally:
            shutil.rmtree(d, ignore_errors=True)
    return rep


def main(sess):
    sess.engines = ['mirsym (MIR symbolic execution) + z3']
    sess.assumptions += [
        'cells: serde_json::to_string and csv::Writer are third-party encoders: one token per call carrying the arguments (their byte-level RFC conformance is trusted); '
        'io::Write::write_fmt renders its arguments and hands the text to the target\'s write (WritableBuffer::write runs from its real MIR)',
        'protocol: abstract file system as in C01 (regular files only), get_field_value summarised with concrete adversarial values per entry, '
        'serde_json / csv modelled by Python json / csv (minimal quoting, \\n terminator); Parser::parse summarised; colours off',
    ]
    only = getattr(sess, 'only', None)
    for name, f in (('cells', fam_cells), ('protocol', fam_protocol)):
        if not only or name in only:
            f(sess)
