"""C06 — LIMIT N returns min(N, matches) rows, and with ORDER BY the true top N.

Families (real MIR of TopN::{new, limitless, insert, values} executed symbolically over the BTreeMap contract model):
  topn_step      one insert(k, v) from an arbitrary valid pre-state (<= K distinct keys, <= B rows per key; values,
                 inserted key/value and the limit symbolic): representation invariant, eviction rule, contents
  topn_history   histories of <= H inserts from TopN::new(limit) / limitless(): values() keys = first min(N, limit) of
                 the stably sorted input
  parse_limit    real Parser::parse_limit on symbolic lexems
  (walker guards: see c06_walker, shares the abstract file system of C01)
"""
import itertools
import z3
from z3 import BitVecVal, BoolVal, Not, And, Or, ULT, ULE, UGT, If
from mirsym.core import Agg, EnumV, Cell, Ref, BoxV, some, none, conc, UNINIT
from mirsym.models_std import Str, Map, Seq
from drivers import evalcore as E, parsecore as P
import common

NATIVE = r'''
#[cfg(test)]
mod verif_c06 {
    use super::*;
    // VERIF_INPUT: "<limit or ->;k:v,k:v,...": insert all pairs in order; print what each insert returned and values()
    #[test]
    fn run() {
        let spec = std::env::var("VERIF_INPUT").unwrap();
        let mut it = spec.split(';');
        let lim = it.next().unwrap();
        let mut t: TopN<u32, u32> = if lim == "-" { TopN::limitless() } else { TopN::new(lim.parse().unwrap()) };
        let mut rets = vec![];
        for p in it.next().unwrap().split(',').filter(|x| !x.is_empty()) {
            let mut kv = p.split(':');
            let k: u32 = kv.next().unwrap().parse().unwrap();
            let v: u32 = kv.next().unwrap().parse().unwrap();
            rets.push(format!("{:?}", t.insert(k, v)));
        }
        println!("VERIF_OUT rets={}", rets.join("|"));
        println!("VERIF_OUT values={:?}", t.values());
    }
}
'''


def native_topn(limit, pairs):
    rc, lines, raw = common.native_unit('c06', 'src/util/top_n.rs', NATIVE, 'util::top_n::verif_c06::run',
                                        '%s;%s' % ('-' if limit is None else limit, ','.join('%d:%d' % p for p in pairs)))
    d = {}
    for l in lines:
        k, v = l.split('=', 1); d[k] = v
    return rc, d, raw


def spec_topn(limit, pairs):
    """reference: stable sort by key, keep the first `limit`; returns (rets, values)"""
    state = []   # list of (k, seq, v)
    rets = []
    for i, (k, v) in enumerate(pairs):
        state.append((k, i, v))
        state.sort(key=lambda x: (x[0], x[1]))
        if limit is not None and len(state) > limit:
            ev = state.pop()
            rets.append('Some(%d)' % ev[2])
        else:
            rets.append('None')
    return rets, [x[2] for x in state]


def mk_topn(prog, limit_opt, count, echelons):
    return E.mk_struct(prog, 'TopN', {}, limit=limit_opt, count=count, echelons=echelons)


def topn_fields(prog):
    return E.struct_fields(prog, 'TopN')


def read_state(ctx, prog, topn):
    F = topn_fields(prog)
    m = topn.f[F.index('echelons')]
    out = []
    for kk in m.ordered_keys():
        out.append((kk[1], [c.v for c in m.d[kk].v.items]))
    return topn.f[F.index('limit')], topn.f[F.index('count')], out


def fam_topn_step(sess):
    prog = sess.prog
    fam = 'topn_step'
    K = 3 if sess.tier == 'quick' else 4
    B = 2
    ex = sess.executor()
    insert = prog.find('TopN', 'insert')
    sess.bounds[fam] = {'distinct_keys': K, 'rows_per_key': B, 'values': '32-bit symbolic', 'limit': 'None or any u32 >= count'}
    shapes = [s for s in itertools.product(range(B + 1), repeat=K)]
    viol = {}
    npaths = [0]
    for shape in shapes:
        for newk in range(K):
            for limited in (True, False):
                def run(ctx, shape=shape, newk=newk, limited=limited):
                    m = Map('BTreeMap')
                    pre = []
                    cnt = 0
                    for k, n in enumerate(shape):
                        if n:
                            vals = [ctx.fresh_bv('v%d_%d' % (k, i), 32) for i in range(n)]
                            m.insert(ctx, BitVecVal(k, 32), Seq(list(vals)))
                            pre.append((k, vals)); cnt += n
                    if limited:
                        lim = ctx.fresh_bv('limit', 32)
                        ctx.assume(z3.UGE(lim, BitVecVal(max(cnt, 1), 32)))     # valid state: count <= limit, limit != 0
                        lopt = some(lim)
                    else:
                        lim = None; lopt = none()
                    t = mk_topn(prog, lopt, BitVecVal(cnt, 32), m)
                    v = ctx.fresh_bv('v', 32)
                    ret = ctx.call_fn(insert, [Ref(Cell(t)), BitVecVal(newk, 32), v])
                    return pre, cnt, lim, v, ret, t

                def on_path(ctx, out, shape=shape, newk=newk, limited=limited):
                    npaths[0] += 1
                    name = '%s shape=%r insert key %d %s' % (fam, shape, newk, 'limited' if limited else 'limitless')
                    if out[0] == 'panic':
                        if not viol.get('panic'):
                            viol['panic'] = True
                            sess.violated(name, 'topn/panic', 'insert panics: ' + out[1], {'shape': shape, 'key': newk},
                                          replay_step(shape, newk, cnt_of(shape) if limited else None), fam)
                        return
                    if out[0] != 'ret':
                        sess.inconclusive(name, str(out), fam); return
                    pre, cnt, lim, v, ret, t = out[1]
                    lopt, count, post = read_state(ctx, prog, t)
                    # specification of the post-state, computed on the symbolic values
                    exp = {k: list(vs) for k, vs in pre}
                    exp.setdefault(newk, []); exp[newk] = exp[newk] + [v]
                    full_case = []
                    if limited:
                        full = (lim == BitVecVal(cnt, 32))     # pre-state full  <=>  eviction
                        # decide which side this path is on
                        is_full = ctx.check(Not(full)) == z3.unsat
                        not_full = ctx.check(full) == z3.unsat
                        if not (is_full or not_full):
                            sess.violated(name, 'topn/eviction-not-decided', 'one path covers both full and non-full pre-states', {'shape': shape}, None, fam)
                            return
                    else:
                        is_full = False
                    evicted = None
                    if is_full:
                        kmax = max(exp)
                        evicted = exp[kmax][-1]
                        exp[kmax] = exp[kmax][:-1]
                        if not exp[kmax]:
                            del exp[kmax]
                    exp_count = sum(len(x) for x in exp.values())
                    conds = []
                    # returned value
                    rd = ret.d if isinstance(ret.d, int) else conc(ret.d)
                    if evicted is None:
                        conds.append(BoolVal(rd == 0))
                    else:
                        conds.append(BoolVal(rd == 1))
                        if rd == 1:
                            conds.append(ret.p[1][0] == evicted)
                    conds.append(count == BitVecVal(exp_count, 32))
                    post_d = dict(post)
                    conds.append(BoolVal(sorted(post_d) == sorted(exp)))
                    for k in exp:
                        if k in post_d:
                            conds.append(BoolVal(len(post_d[k]) == len(exp[k])))
                            for a, b in zip(post_d[k], exp[k]):
                                conds.append(a == b)
                    for k, vs in post:
                        conds.append(BoolVal(len(vs) > 0))
                    res = ctx.check(Not(And(conds)))
                    if res == z3.unsat:
                        return
                    if res != z3.sat:
                        sess.inconclusive(name, 'solver unknown', fam); return
                    role = 'topn/step/' + ('full' if is_full else 'room')
                    if viol.get(role):
                        return
                    viol[role] = True
                    m = ctx.model(Not(And(conds)))
                    limv = m.eval(lim, model_completion=True).as_long() if lim is not None else None
                    pairs = []
                    for k, vs in pre:
                        for x in vs:
                            pairs.append((k, m.eval(x, model_completion=True).as_long()))
                    pairs.append((newk, m.eval(v, model_completion=True).as_long()))
                    sess.violated(name, role, 'post-state differs from the specification (limit=%s, inserts=%r)' % (limv, pairs),
                                  {'limit': limv, 'inserts': pairs}, replay_pairs(limv, pairs), fam)

                ex.explore(run, on_path)
    if not viol:
        sess.discharged('TopN::insert from every valid pre-state with <= %d keys x <= %d rows: invariant, eviction rule, contents' % (K, B),
                        family=fam, queries=npaths[0])
    sess.sample({'family': fam, 'shapes': len(shapes), 'paths': npaths[0]})


def cnt_of(shape):
    return max(1, sum(shape))


def replay_pairs(limit, pairs):
    def rep():
        rc, d, raw = native_topn(limit, pairs)
        rets, vals = spec_topn(limit, pairs)
        got_vals = d.get('values'); got_rets = d.get('rets')
        okv = (rc == 0 and got_vals == str(vals).replace("'", '') and got_rets == '|'.join(rets))
        return (not okv), 'native TopN: rets=%s values=%s ; specification: rets=%s values=%s (exit %s)' % (got_rets, got_vals, '|'.join(rets), vals, rc)
    return rep


def replay_step(shape, newk, limit):
    pairs = []
    for k, n in enumerate(shape):
        for i in range(n):
            pairs.append((k, 10 * k + i))
    pairs.append((newk, 99))
    return replay_pairs(limit, pairs)


def fam_topn_history(sess):
    prog = sess.prog
    fam = 'topn_history'
    H = 3 if sess.tier == 'quick' else 4
    K = 3
    ex = sess.executor()
    insert = prog.find('TopN', 'insert'); values = prog.find('TopN', 'values')
    new = prog.find('TopN', 'new'); limitless = prog.find('TopN', 'limitless')
    sess.bounds[fam] = {'inserts': H, 'key_values': K, 'limit': '1..%d or none' % (H + 1)}
    viol = {}
    npaths = [0]
    for limit in [None] + list(range(1, H + 2)):
        def run(ctx, limit=limit):
            t = ctx.call_fn(limitless, []) if limit is None else ctx.call_fn(new, [BitVecVal(limit, 32)])
            cell = Cell(t)
            ks = []; vs = []; rets = []
            for i in range(H):
                k = ctx.fresh_bv('k%d' % i, 32)
                ctx.assume(ULT(k, BitVecVal(K, 32)))
                kc = ctx.concretize(k, range(K))
                v = BitVecVal(100 + i, 32)
                rets.append(ctx.call_fn(insert, [Ref(cell), BitVecVal(kc, 32), v]))
                ks.append(kc); vs.append(100 + i)
            out = ctx.call_fn(values, [Ref(cell)])
            return ks, vs, rets, out

        def on_path(ctx, out, limit=limit):
            npaths[0] += 1
            name = '%s limit=%s' % (fam, limit)
            if out[0] != 'ret':
                if out[0] == 'panic' and not viol.get('panic'):
                    viol['panic'] = True
                    sess.violated(name, 'topn/history/panic', out[1], {'limit': limit}, None, fam)
                elif out[0] != 'panic':
                    sess.inconclusive(name, str(out), fam)
                return
            ks, vs, rets, vals = out[1]
            pairs = list(zip(ks, vs))
            erets, evals = spec_topn(limit, pairs)
            got = [conc(c.v) for c in vals.items]
            gret = []
            for r in rets:
                d = r.d if isinstance(r.d, int) else conc(r.d)
                gret.append('None' if d == 0 else 'Some(%d)' % conc(r.p[1][0]))
            if got != evals or gret != erets:
                role = 'topn/history'
                if not viol.get(role):
                    viol[role] = True
                    sess.violated(name, role, 'inserts %r: values() = %r, rets %r; specification %r, %r' % (pairs, got, gret, evals, erets),
                                  {'limit': limit, 'inserts': pairs}, replay_pairs(limit, pairs), fam)
        ex.explore(run, on_path)
    if not viol:
        sess.discharged('TopN histories of %d inserts over %d key values, every limit: values() = first min(N, limit) of the stable sort' % (H, K),
                        family=fam, queries=npaths[0])


def fam_parse_limit(sess):
    prog = sess.prog
    fam = 'parse_limit'
    ex = sess.executor(P.table_overrides(), unwind=6)
    pl = prog.find('Parser', 'parse_limit')
    words = ['0', '1', '7', '4294967295', '4294967296', '-1', 'x', '1.5', '']
    seen = {}

    def run(ctx):
        lx, t = P.sym_lexem(ctx, prog, words + ['q:' + w for w in ('3', 'y')] , 'w')
        parser = P.mk_parser(prog, [P.mk_lexem(prog, 'limit'), lx])
        res = ctx.call_fn(pl, [Ref(Cell(parser))])
        return t, res

    allw = words + ['3', 'y']

    def on_path(ctx, out):
        if out[0] != 'ret':
            sess.inconclusive(fam, str(out), fam); return
        t, res = out[1]
        block = []
        for _ in range(len(allw)):
            m = ctx.model(*block)
            if m is None:
                break
            k = m.eval(t, model_completion=True).as_long(); block.append(t != k)
            w = allw[k]
            d = res.d if isinstance(res.d, int) else conc(res.d)
            import re as _re
            valid = bool(_re.fullmatch(r'\+?[0-9]+', w)) and int(w) <= 0xFFFFFFFF
            if valid:
                v = res.p[0][0] if d == 0 else None
                got = None
                if v is not None:
                    mm = ctx.model(t == k)
                    got = mm.eval(v, model_completion=True).as_long()
                seen[w] = (d == 0 and got == int(w), 'Ok(%s)' % got if d == 0 else 'Err')
            else:
                seen[w] = (d == 1, 'Ok' if d == 0 else 'Err')
    ex.explore(run, on_path)
    bad = {w: r for w, (okv, r) in seen.items() if not okv}
    if bad:
        sess.violated(fam, 'parse_limit', 'limit literals mis-parsed: %r' % bad, bad, None, fam)
    elif len(seen) == len(allw):
        sess.discharged('parse_limit: %d literal spellings -> the number they spell, or a parse error' % len(allw), family=fam, queries=len(allw))
    else:
        sess.inconclusive(fam, 'not all literals covered: %r' % sorted(set(allw) - set(seen)), fam)


def fam_query_limit(sess):
    """the real Parser::parse on `<field> [, <field>] from . [limit N]` with symbolic fields (columns and constants) and N: the
    Query's limit is N for N >= 1 and 0 (= unlimited) for an absent limit or `limit 0` whenever a column is selected"""
    from mirsym.core import none
    from mirsym.models_std import Seq
    prog = sess.prog
    fam = 'query_limit'
    ov = P.table_overrides() + P.lexer_stub_overrides() + [(r'^UserDirs::new$|^directories::UserDirs::new$', lambda ctx, a, c: none(), 'stub:UserDirs::new(None)')]
    ex = sess.executor(ov, unwind=14)
    parse = prog.find('Parser', 'parse')
    QF = E.struct_fields(prog, 'Query')
    fields = ['name', 'size', 'q:x', '7']
    columns = {'name', 'size'}
    limits = [None, '0', '1', '3']
    box = {'paths': 0}
    sess.bounds[fam] = {'select list': '1 or 2 entries from %r (q:x = quoted constant)' % fields, 'limit clause': 'absent, 0, 1, 3'}

    def run(ctx):
        two = ctx.decide(ctx.fresh_bool('two_fields'))
        l1, t1 = P.sym_lexem(ctx, prog, fields, 'f1')
        lex = [l1]; tv = [t1]
        if two:
            l2, t2 = P.sym_lexem(ctx, prog, fields, 'f2')
            lex += [P.mk_lexem(prog, ','), l2]; tv.append(t2)
        lex += [P.mk_lexem(prog, 'from'), P.mk_lexem(prog, '.')]
        li = ctx.concretize(ctx.fresh_bv('limit_choice', 8), range(len(limits)))
        if limits[li] is not None:
            lex += [P.mk_lexem(prog, 'limit'), P.mk_lexem(prog, limits[li])]
        parser = P.mk_parser(prog, lex, roots_parsed=False, where_parsed=False)
        return tv, limits[li], ctx.call_fn(parse, [Ref(Cell(parser)), Seq([]), BoolVal(False)])

    def on_path(ctx, out):
        box['paths'] += 1
        if out[0] != 'ret':
            if not box.get('bad'):
                box['bad'] = True; sess.inconclusive(fam, str(out)[:300], fam)
            return
        tv, lim, res = out[1]
        if conc(res.d) != 0:
            if not box.get('viol'):
                box['viol'] = True
                sess.violated(fam, 'query_limit/rejected', 'a well-formed query is rejected', {}, None, fam)
            return
        got = res.p[0][0].f[QF.index('limit')]
        anycol = Or([Or([t == i for i, f in enumerate(fields) if f in columns]) for t in tv])
        if lim in (None, '0'):
            cond = z3.Implies(anycol, got == 0)
        else:
            cond = got == int(lim)
        if ctx.check(Not(cond)) == z3.unsat or box.get('viol'):
            return
        box['viol'] = True
        m = ctx.model(Not(cond))
        sel = [fields[m.eval(t, model_completion=True).as_long()] for t in tv]
        q = ', '.join("'x'" if f == 'q:x' else f for f in sel) + ' from .' + ('' if lim is None else ' limit ' + lim)

        def rep(q=q, lim=lim):
            exe = common.native_binary()
            tree = {'a': {'size': 1}, 'b': {'size': 2}, 'c': {'size': 3}, 'd': {'size': 4}}
            r = common.run_cli(exe, [q], tree)
            n = len(r['stdout'].split('\n')) - 1
            want = 4 if lim in (None, '0') else min(4, int(lim))
            return n != want or r['status'] != 0, '`%s` over 4 files -> %d rows, expected %d (status %s)' % (q, n, want, r['status'])
        sess.violated(fam, 'query_limit/' + ('absent' if lim is None else lim), '`%s`: Query.limit = %s' % (q, m.eval(got, model_completion=True)), {'query': q}, rep, fam)
    ex.explore(run, on_path)
    if not box.get('viol') and not box.get('bad'):
        sess.discharged('query_limit: limit N -> N; absent / 0 -> unlimited whenever a column is selected', family=fam, queries=box['paths'])


def main(sess):
    sess.engines = ['mirsym (MIR symbolic execution) + z3 %s' % z3.get_version_string()]
    sess.assumptions += [
        'BTreeMap contract model: entry/or_default, iter().next_back() = greatest key, remove, insert, values() ascending',
        'TopN keys are abstract totally ordered values (u32); the real key type Criteria<String> and its Ord are C05',
    ]
    only = getattr(sess, 'only', None)
    for name, f in (('topn_step', fam_topn_step), ('topn_history', fam_topn_history), ('parse_limit', fam_parse_limit), ('query_limit', fam_query_limit)):
        if not only or name in only:
            f(sess)
    if not only or 'e2e' in only:
        from drivers import e2e
        e2e.family_for(sess, 'C06', quick_n=6)
    try:
        from drivers import c06_walker
        if not only or 'walker' in only:
            c06_walker.run(sess)
    except ImportError:
        pass
