"""C03 family `formula`: symbolic token sequences -> real Parser::parse_expr (MIR) -> real Searcher::conforms (MIR)
compared, by z3, with the textbook valuation of the same token sequence (AND over OR, brackets, prefix NOT).
Atoms are the boolean columns is_dir / is_file / is_symlink with *independent symbolic* truth values."""
import itertools
import z3
from z3 import BoolVal, Not, And, Or, BitVecVal
from mirsym.core import Agg, EnumV, Cell, Ref, BoxV, some, none, conc
from mirsym.models_std import Str
from drivers import evalcore as E, parsecore as P
import common

ATOMS = ['is_dir', 'is_hidden', 'is_empty']
ATOM_FIELD = {'is_dir': 'IsDir', 'is_hidden': 'IsHidden', 'is_empty': 'IsEmpty'}
ALPHABET = ATOMS + ['and', 'or', 'not', '(', ')', '{', '}']
# the 8 truth assignments realised on disk: (is_dir, is_hidden, is_empty)
CLI_ENTRIES = {}
for _d in (False, True):
    for _h in (False, True):
        for _e in (False, True):
            _n = ('.' if _h else '') + ('d' if _d else 'f') + ('e' if _e else 'n')
            CLI_ENTRIES[_n] = (_d, _h, _e)


def cli_tree():
    t = {}
    for n, (d, h, e) in CLI_ENTRIES.items():
        if d:
            t[n] = {'kind': 'dir'}
            if not e:
                t[n + '/child'] = {'size': 1}
        else:
            t[n] = {'size': 0 if e else 3}
    return t


class Bad(Exception):
    pass


def textbook(tokens):
    """-> python function env(dict atom->bool)->bool, or raises Bad if the sequence is not a formula"""
    pos = [0]

    def peek():
        return tokens[pos[0]] if pos[0] < len(tokens) else None

    def eat():
        pos[0] += 1

    def expr():
        l = conj()
        while peek() == 'or':
            eat(); r = conj(); l = (lambda a, b: lambda e: a(e) or b(e))(l, r)
        return l

    def conj():
        l = cond()
        while peek() == 'and':
            eat(); r = cond(); l = (lambda a, b: lambda e: a(e) and b(e))(l, r)
        return l

    def cond():
        n = 0
        while peek() == 'not':
            eat(); n += 1
        p = prim()
        return (lambda a: lambda e: not a(e))(p) if n % 2 else p

    def prim():
        t = peek()
        if t in ATOMS:
            eat(); return lambda e, t=t: e[t]
        if t in ('(', '{'):
            close = ')' if t == '(' else '}'
            eat(); r = expr()
            if peek() != close:
                raise Bad()
            eat(); return r
        raise Bad()
    f = expr()
    if pos[0] != len(tokens):
        raise Bad()
    return f


def ref_term(tokens, pvars):
    f = textbook(tokens)
    # build the z3 term by evaluating over the 8 assignments (a truth table is a faithful specification)
    cases = []
    for bits in itertools.product([False, True], repeat=3):
        env = dict(zip(ATOMS, bits))
        if f(env):
            cases.append(And([pvars[a] if b else Not(pvars[a]) for a, b in env.items()]))
    return Or(cases) if cases else BoolVal(False)


def cli_replay(tokens):
    def rep():
        exe = common.native_binary()
        f = textbook(tokens)
        r = common.run_cli(exe, ['name', 'from', '.', 'depth', '1', 'where'] + list(tokens), cli_tree())
        got = sorted(r['stdout'].split('\n')[:-1])
        want = sorted(n for n, (d, h, e) in CLI_ENTRIES.items() if f({'is_dir': d, 'is_hidden': h, 'is_empty': e}))
        return got != want or r['status'] != 0, 'where %s -> %r, textbook %r (status %s, stderr %r)' % (
            ' '.join(tokens), got, want, r['status'], r['stderr'][:200])
    return rep


def run(sess):
    prog = sess.prog
    fam = 'formula'
    maxn = 4 if sess.tier == 'quick' else 6
    sess.bounds['formula'] = {'tokens': '1..%d' % maxn, 'alphabet': ALPHABET, 'atoms': 'three boolean columns, independent symbolic truth values'}
    ex = sess.executor(E.EVAL_OVERRIDES + P.table_overrides(), unwind=maxn + 4)
    parse_expr = prog.find('Parser', 'parse_expr')
    F = E.struct_fields(prog, 'Parser')
    seen = {}
    stats = {'formulas': 0, 'paths': 0, 'rejected_valid': 0}

    for n in range(1, maxn + 1):
        def runp(ctx, n=n):
            lex = []; tv = []
            for i in range(n):
                l, t = P.sym_lexem(ctx, prog, ALPHABET, 't%d' % i)
                lex.append(l); tv.append(t)
            pv = {a: ctx.fresh_bool('p_' + a) for a in ATOMS}
            ctx.ghost['fields'] = {ATOM_FIELD[a]: E.mk_variant(prog, 'Bool', bool_value=some(pv[a]),
                                                               string_value=Str(term=z3.If(pv[a], z3.StringVal('true'), z3.StringVal('false'))))
                                   for a in ATOMS}
            parser = P.mk_parser(prog, lex)
            pref = Ref(Cell(parser))
            res = ctx.call_fn(parse_expr, [pref])
            idx = parser.f[F.index('index')]
            if conc(idx) != n:
                return ('partial', tv, pv, None, conc(idx), res)
            d = res.d if isinstance(res.d, int) else conc(res.d)
            if d != 0:
                return ('err', tv, pv, None, n, res)
            opt = res.p[0][0]
            od = opt.d if isinstance(opt.d, int) else conc(opt.d)
            if od != 1:
                return ('none', tv, pv, None, n, res)
            e = opt.p[1][0]
            r = E.run_conforms(ctx, prog, e)
            return ('ok', tv, pv, r, n, e)

        def on_path(ctx, out, n=n):
            stats['paths'] += 1
            if out[0] in ('panic', 'end') :
                # panics / unwinds of the parser on malformed sequences are C10's subject; a well-formed formula that
                # panics is caught below because its sequence never shows up as parsed
                return
            if out[0] != 'ret':
                sess.inconclusive('formula n=%d' % n, str(out), fam); return
            kind, tv, pv, r, idx, extra = out[1]
            # enumerate the token sequences this path covers
            block = []
            for _ in range(64):
                m = ctx.model(*block)
                if m is None:
                    break
                toks = [ALPHABET[m.eval(t, model_completion=True).as_long()] for t in tv]
                block.append(Or([t != m.eval(t, model_completion=True) for t in tv]))
                key = tuple(toks)
                try:
                    textbook(toks)
                    valid = True
                except Bad:
                    valid = False
                if not valid:
                    continue
                fix = And([t == ALPHABET.index(x) for t, x in zip(tv, toks)])
                if kind != 'ok':
                    if key not in seen:
                        seen[key] = 'rejected'
                        sess.violated('formula %s' % ' '.join(toks), 'formula/rejected', 'a well-formed formula is not parsed (%s, index %s)' % (kind, idx),
                                      {'tokens': toks}, cli_replay(toks), fam)
                    continue
                stats['formulas'] += 1
                ref = ref_term(toks, pv)
                res = ctx.check(fix, r != ref)
                if res == z3.unsat:
                    seen.setdefault(key, 'ok')
                    continue
                if res != z3.sat:
                    sess.inconclusive('formula %s' % ' '.join(toks), 'solver unknown', fam); continue
                if seen.get(key) == 'viol':
                    continue
                seen[key] = 'viol'
                shape = ' '.join('A' if t in ATOMS else t for t in toks)
                sess.violated('formula %s' % ' '.join(toks), 'formula/' + shape,
                              'parsed as %s which differs from the textbook valuation' % P.expr_to_text(ctx, prog, extra),
                              {'tokens': toks}, cli_replay(toks), fam)

        ex.explore(runp, on_path, time_budget=480 if sess.tier == 'quick' else 1500)
    ok_n = sum(1 for v in seen.values() if v == 'ok')
    sess.discharged('formula: %d well-formed token sequences (<= %d tokens) evaluate as the textbook says' % (ok_n, maxn),
                    family=fam, queries=max(1, stats['formulas']))
    sess.sample({'family': 'formula', 'examples': [' '.join(k) for k in list(seen)[:6]], 'paths': stats['paths']})
    sess.notes.append('formula: %d parser paths, %d (sequence, path) pairs decided' % (stats['paths'], stats['formulas']))
