"""C04 family `xattrs` — whose extended attributes the xattr / capability columns and functions report.

The real arms `Field::HasXattrs`, `Field::Capabilities` of Searcher::get_field_value and `HAS_XATTR`, `XATTR`, `HAS_CAPABILITIES`,
`HAS_CAPABILITY` of function::get_value run from MIR on an entry whose lstat record is symbolic (all seven file types). The world:

  * the entry has its OWN attribute set (symbolic: how many, whether the named one / security.capability exists, their bytes as tokens);
  * a symbolic link additionally has a TARGET with a different, independent set;
  * `File::open(path)` follows links (the handle is the target's), fails when the caller may not read the file (symbolic) or the link
    dangles, and on a FIFO it does not return until a writer appears (reported as its own outcome);
  * the xattr crate by its documentation: `FileExt::list_xattr / get_xattr` on a handle answer for the opened object; path functions
    `xattr::list / get` do NOT dereference links, `list_deref / get_deref` do; none of them needs read permission.

Obligation (property text: "that entry's own attributes as lstat gives them ... extended attributes and file capabilities"): the value
is the one of the entry's own set, for every file type and whether or not the file is readable, and evaluating it terminates."""
import z3
from z3 import BitVecVal, BoolVal, Not, And, Or, If, ULT
from mirsym.core import Agg, EnumV, Cell, Ref, UNIT, some, none, ok, err, conc, Unmodelled, Panic
from mirsym.models_std import Str, Seq, SpecialStr, as_str
from drivers import evalcore as E
from drivers.c04_wiring import MetaV, EntryM, TokenStr, IFMT, models as wiring_models
from drivers.walker import IoError
import common

NAMED = 'user.verif'
CAPS = 'security.capability'


class XSet:
    """the extended attributes of one file-system object"""
    def __init__(self, ctx, tag):
        self.tag = tag
        self.has = {NAMED: ctx.fresh_bool('%s_has_named' % tag), CAPS: ctx.fresh_bool('%s_has_caps' % tag)}
        self.others = ctx.fresh_bv('%s_other_attrs' % tag, 8)

    def count(self):
        one = lambda b: If(b, BitVecVal(1, 64), BitVecVal(0, 64))
        return z3.ZeroExt(56, self.others) + one(self.has[NAMED]) + one(self.has[CAPS])


class Bytes_(object):
    """the value of attribute `name` of object `tag`"""
    def __init__(self, tag, name):
        self.tag, self.name = tag, name

    def clone_model(self, ctx):
        return self


class Handle:
    def __init__(self, xs):
        self.xs = xs


def models():
    out = []

    def reg(pat, name):
        def deco(f):
            out.append((pat, f, name)); return f
        return deco

    def target_of(ctx):
        """the object a link-following call reaches: the entry itself unless it is a symbolic link"""
        e = ctx.ghost['entry']
        if ctx.decide((e.meta.mode & IFMT) == 0o120000):
            if ctx.decide(ctx.ghost['dangling']):
                return None
            return ctx.ghost['target_x']
        return ctx.ghost['own_x']

    @reg(r'^(std::fs::)?File::open$', 'fs:File::open follows links; Err when unreadable / dangling; on a FIFO it blocks until a writer appears')
    def file_open(ctx, args, callee):
        e = ctx.ghost['entry']
        ctx.ghost['opened'] = True
        x = target_of(ctx)
        if x is None:
            return err(IoError('open: no such file (dangling link)'))
        if x is ctx.ghost['own_x'] and ctx.decide((e.meta.mode & IFMT) == 0o010000):
            raise Panic('BLOCKS: File::open on a FIFO does not return until a writer opens it')
        if ctx.decide(ctx.ghost['unreadable']):
            return err(IoError('open: permission denied'))
        return ok(Handle(x))

    def get_from(ctx, x, name_v):
        name = as_str(ctx, name_v).s
        if name not in x.has:
            raise Unmodelled('xattr name %r' % (name,))
        if ctx.decide(x.has[name]):
            return ok(some(Bytes_(x.tag, name)))
        return ok(none())

    @reg(r'^<File as (xattr::)?FileExt>::list_xattr$', 'xattr:FileExt::list_xattr (the attributes of the opened object)')
    def list_fd(ctx, args, callee):
        return ok(('xattrs', ctx.deref(args[0]).xs))

    @reg(r'^<File as (xattr::)?FileExt>::get_xattr$', 'xattr:FileExt::get_xattr (of the opened object)')
    def get_fd(ctx, args, callee):
        return get_from(ctx, ctx.deref(args[0]).xs, args[1])

    @reg(r'^(xattr::)?list$', 'xattr::list(path): the attributes of the path itself, links not dereferenced, no read permission needed')
    def list_path(ctx, args, callee):
        return ok(('xattrs', ctx.ghost['own_x']))

    @reg(r'^(xattr::)?get$', 'xattr::get(path, name): of the path itself, links not dereferenced')
    def get_path(ctx, args, callee):
        return get_from(ctx, ctx.ghost['own_x'], args[1])

    @reg(r'^(xattr::)?list_deref$', 'xattr::list_deref(path): links dereferenced')
    def list_deref(ctx, args, callee):
        x = target_of(ctx)
        return err(IoError('no such file')) if x is None else ok(('xattrs', x))

    @reg(r'^(xattr::)?get_deref$', 'xattr::get_deref(path, name): links dereferenced')
    def get_deref(ctx, args, callee):
        x = target_of(ctx)
        return err(IoError('no such file')) if x is None else get_from(ctx, x, args[1])

    @reg(r'^<(xattr::)?XAttrs as Iterator>::count$', 'xattr:XAttrs::count')
    def xcount(ctx, args, callee):
        return args[0][1].count()

    @reg(r'(^|::)parse_capabilities$', 'summary:parse_capabilities (family capabilities decides the decoding)')
    def pcaps(ctx, args, callee):
        return TokenStr('caps', args[0])

    @reg(r'^(std::string::)?String::from_utf8$|^from_utf8$', 'String::from_utf8 of an attribute value (Ok: the text of those bytes, or Err)')
    def from_utf8(ctx, args, callee):
        if ctx.decide(ctx.ghost.setdefault('valid_utf8', ctx.fresh_bool('value_is_utf8'))):
            return ok(TokenStr('utf8', args[0]))
        return err(UNIT)
    return out


def _contains(ctx, args, callee):
    s = ctx.deref(args[0])
    if isinstance(s, TokenStr) and s.kind == 'caps':
        return ctx.ghost.setdefault('caps_contains', ctx.fresh_bool('caps_text_contains_arg'))
    raise Unmodelled('contains on %r' % (s,))


SUBJECTS = [('column has_xattrs', 'field', 'HasXattrs', 'has_xattrs'), ('column caps', 'field', 'Capabilities', 'caps'),
            ('HAS_XATTR(name)', 'fn', 'HasXattr', "has_xattr('%s')" % NAMED), ('XATTR(name)', 'fn', 'Xattr', "xattr('%s')" % NAMED),
            ('HAS_CAPABILITIES()', 'fn', 'HasCapabilities', 'has_capabilities()'), ('HAS_CAPABILITY(c)', 'fn', 'HasCapability', "has_capability('cap_chown')")]


def cli_replay(sql, scenario):
    """scenario: 'fifo' | 'symlink' | 'unreadable'"""
    def rep():
        import os, tempfile, shutil, subprocess
        exe = common.native_binary()
        d = tempfile.mkdtemp(prefix='verif-c04x-', dir=common.SCRATCH_ROOT)
        try:
            os.chmod(d, 0o755)
            env = {'PATH': os.environ['PATH'], 'HOME': d, 'TZ': 'UTC'}
            is_caps = 'cap' in sql
            if scenario == 'fifo':
                os.mkfifo(os.path.join(d, 'p'))
                try:
                    r = subprocess.run([exe, 'name, %s from %s' % (sql, d)], env=env, stdout=subprocess.PIPE, stderr=subprocess.PIPE, timeout=8)
                except subprocess.TimeoutExpired:
                    return True, '`%s` over a directory holding a FIFO does not terminate (killed after 8 s)' % sql
                return False, '`%s` over a FIFO terminates: %r' % (sql, r.stdout.decode())
            a = os.path.join(d, 'a'); open(a, 'w').write('x')
            try:
                if is_caps:
                    import struct
                    os.setxattr(a, CAPS, struct.pack('<IIIII', 0x02000001, 1, 0, 0, 0))        # cap_chown=ep
                else:
                    os.setxattr(a, NAMED, b'val')
            except OSError as e_:
                return False, 'cannot set the attribute here (%s): not replayed' % e_
            if scenario == 'symlink':
                os.symlink('a', os.path.join(d, 'l'))
                r = subprocess.run([exe, 'name, %s from %s' % (sql, d)], env=env, stdout=subprocess.PIPE, stderr=subprocess.PIPE, timeout=8)
                rows = dict(l.split('\t', 1) for l in r.stdout.decode().split('\n')[:-1])
                own = {'has_xattrs': ('false',), "has_xattr('%s')" % NAMED: ('false',), "xattr('%s')" % NAMED: ('',), 'caps': ('',), 'has_capabilities()': ('false',),
                       "has_capability('cap_chown')": ('false', '')}[sql]
                return rows.get('l') not in own, '`%s`: link l -> a (a carries %s, the link none): l reports %r, its own value is %r ; rows %r' % (sql, CAPS if is_caps else NAMED, rows.get('l'), own, rows)
            # unreadable: a file of mode 0 carrying the attribute, queried by an unprivileged user
            os.chmod(a, 0)
            os.chown(a, 65534, 65534); os.chown(d, 65534, 65534)

            def drop():
                os.setgroups([]); os.setgid(65534); os.setuid(65534)
            r = subprocess.run([exe, 'name, %s from %s' % (sql, d)], env=env, stdout=subprocess.PIPE, stderr=subprocess.PIPE, timeout=8, preexec_fn=drop)
            rows = dict(l.split('\t', 1) for l in r.stdout.decode().split('\n')[:-1])
            own = {'has_xattrs': ('true',), "has_xattr('%s')" % NAMED: ('true',), "xattr('%s')" % NAMED: ('val',), 'caps': ('cap_chown=ep',), 'has_capabilities()': ('true',),
                   "has_capability('cap_chown')": ('true',)}[sql]
            return rows.get('a') not in own, '`%s` as uid 65534 on a mode-000 file carrying %s: reports %r, its own value is %r' % (sql, CAPS if is_caps else NAMED, rows.get('a'), own)
        finally:
            subprocess.run(['chmod', '-R', 'u+rwx', d], stderr=subprocess.DEVNULL)
            shutil.rmtree(d, ignore_errors=True)
    return rep


def fam_xattrs(sess):
    prog = sess.prog
    fam = 'xattrs'
    from drivers import c16
    ov = models() + [(r'^(core::)?str::<impl str>::contains$|^std::string::String::contains$', _contains, 'str::contains on the capability text (uninterpreted)')] + wiring_models()
    ex = sess.executor(ov, unwind=6)
    gfv = prog.find('Searcher', 'get_field_value')
    fms_new = prog.find('FileMetadataState', 'new')
    gv = prog.find_free('get_value')
    sess.bounds[fam] = {'subjects': [s[0] for s in SUBJECTS], 'entry': 'lstat record symbolic (seven file types)', 'attribute sets': 'own and link-target sets independent and symbolic',
                        'readability': 'symbolic', 'link target': 'exists or dangles (symbolic)'}
    F = E.struct_fields(prog, 'Variant')
    for label, kind, which, sql in SUBJECTS:
        box = {'paths': 0, 'roles': set()}

        def run(ctx, kind=kind, which=which):
            meta = MetaV(ctx)
            entry = EntryM(meta)
            ctx.ghost['entry'] = entry
            ctx.ghost['own_x'] = XSet(ctx, 'own'); ctx.ghost['target_x'] = XSet(ctx, 'target')
            ctx.ghost['dangling'] = ctx.fresh_bool('link_dangles'); ctx.ghost['unreadable'] = ctx.fresh_bool('open_denied')
            if kind == 'field':
                s = E.mk_searcher(prog, fms=ctx.call_fn(fms_new, []), current_follow_symlinks=ctx.fresh_bool('root_follows_symlinks'))
                v = ctx.call_fn(gfv, [Ref(Cell(s)), Ref(Cell(entry)), Ref(Cell(none())), Ref(Cell(E.field_enum(prog, which)))])
            else:
                arg = Str('cap_chown') if which == 'HasCapability' else Str(NAMED) if which in ('HasXattr', 'Xattr') else Str('')
                v = ctx.call_fn(gv, [Ref(Cell(c16.fn_some(prog, which))), arg, Seq([]), some(Ref(Cell(entry))), Ref(Cell(none()))])
            return v

        def scenario_of(ctx, extra):
            """which ingredient makes the value differ: classify the counterexample for the replay and the role"""
            e = ctx.ghost['entry']
            for sc, cond in (('symlink', (e.meta.mode & IFMT) == 0o120000), ('unreadable', ctx.ghost['unreadable'])):
                if ctx.check(*(list(extra) + [Not(cond)])) == z3.unsat:
                    return sc
            return 'other'

        def on_path(ctx, out, label=label, which=which, sql=sql):
            nm = '%s %s' % (fam, label)
            box['paths'] += 1
            if out[0] == 'panic' and str(out[1]).startswith('BLOCKS'):
                if 'fifo' not in box['roles']:
                    box['roles'].add('fifo')
                    sess.violated(nm + ' on a FIFO', 'xattrs/%s/fifo-open-blocks' % which, 'the value is obtained by opening the entry: on a FIFO the query never finishes', {'subject': label},
                                  cli_replay(sql, 'fifo'), fam)
                return
            if out[0] != 'ret':
                if not box.get('bad'):
                    box['bad'] = True; sess.inconclusive(nm, str(out)[:300], fam)
                return
            v = out[1]
            own = ctx.ghost['own_x']
            sv = v.f[F.index('string_value')]; bvl = v.f[F.index('bool_value')]

            def is_bool(b):
                return And(BoolVal(conc(bvl.d) == 1), bvl.p[1][0] == b) if conc(bvl.d) == 1 else BoolVal(False)

            def tok(kind_, name):
                return BoolVal(isinstance(sv, TokenStr) and sv.kind == kind_ and isinstance(sv.arg, Bytes_) and sv.arg.tag == 'own' and sv.arg.name == name)
            empty = BoolVal(isinstance(sv, Str) and sv.s == '')
            if which == 'HasXattrs':
                cond = is_bool(own.count() != 0)
            elif which == 'Capabilities':
                cond = If(own.has[CAPS], tok('caps', CAPS), empty)
            elif which == 'HasXattr':
                cond = is_bool(own.has[NAMED])
            elif which == 'Xattr':
                cond = If(And(own.has[NAMED], ctx.ghost.get('valid_utf8', BoolVal(True))), tok('utf8', NAMED), empty)
            elif which == 'HasCapabilities':
                cond = is_bool(own.has[CAPS])
            else:
                cond = If(own.has[CAPS], is_bool(ctx.ghost.get('caps_contains', BoolVal(False))) if 'caps_contains' in ctx.ghost else BoolVal(False), Or(is_bool(BoolVal(False)), empty))
            if ctx.check(Not(cond)) == z3.unsat:
                return
            sc = scenario_of(ctx, [Not(cond)])
            if sc in box['roles']:
                return
            box['roles'].add(sc)
            what = {'symlink': 'for a symbolic link the value is the one of the link TARGET', 'unreadable': 'for a file the caller may not read the value is empty although the attribute exists',
                    'other': 'the value is not the one of the entry\'s own attribute set'}[sc]
            sess.violated('%s (%s)' % (nm, sc), 'xattrs/%s/%s' % (which, {'symlink': 'link-target', 'unreadable': 'needs-read-permission', 'other': 'value'}[sc]), what, {'subject': label},
                          cli_replay(sql, sc if sc != 'other' else 'symlink'), fam)
        ex.explore(run, on_path)
        if not box['roles'] and not box.get('bad'):
            sess.discharged('%s %s: the entry\'s own attributes for every file type, readable or not; no blocking open' % (fam, label), family=fam, queries=box['paths'])
