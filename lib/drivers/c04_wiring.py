"""C04 families on the MIR engine:
  wiring      the real Searcher::get_field_value arm of every metadata column (through FileMetadataState::update_file_metadata,
              util::get_metadata, Searcher::check_file_mode, mode::* and Variant::from_*) over a symbolic lstat record: the column is
              the attribute it is named after (size, uid, gid, hardlinks, inode, blocks, device; the seven file-type booleans; the
              twelve permission booleans, suid, sgid), also for zip members (FileInfo with a stored mode)
  shebang     util::is_shebang: true iff the first two bytes are 0x23 0x21 (symbolic bytes; short and unreadable files -> false)
  line_count  util::get_line_count over a file delivered in <= 3 chunks with symbolic newline counts: the sum of the chunks' counts,
              every chunk consumed exactly once
"""
import z3
from z3 import BitVecVal, BoolVal, Not, And, Or, If, ULT
from mirsym.core import Agg, EnumV, Cell, Ref, UNIT, some, none, ok, err, conc, Unmodelled, FnItem
from mirsym.models_std import Str, Seq, SpecialStr
from drivers import evalcore as E
from drivers.walker import IoError, PathV
import common

IFMT = 0o170000


class MetaV:
    """std::fs::Metadata as lstat returns it: symbolic st_mode, st_size, st_uid, st_gid, st_nlink, st_ino, st_blocks, st_dev"""
    def __init__(self, ctx):
        self.mode = ctx.fresh_bv('st_mode', 32)
        ctx.assume(Or([self.mode & IFMT == t for t in (0o100000, 0o040000, 0o120000, 0o010000, 0o020000, 0o060000, 0o140000)]))
        self.len = ctx.fresh_bv('st_size', 64); ctx.assume(ULT(self.len, BitVecVal(1 << 62, 64)))
        self.uid = ctx.fresh_bv('st_uid', 32); self.gid = ctx.fresh_bv('st_gid', 32)
        self.nlink = ctx.fresh_bv('st_nlink', 64); ctx.assume(ULT(self.nlink, BitVecVal(1 << 62, 64)))
        self.ino = ctx.fresh_bv('st_ino', 64); ctx.assume(ULT(self.ino, BitVecVal(1 << 62, 64)))
        self.blocks = ctx.fresh_bv('st_blocks', 64); ctx.assume(ULT(self.blocks, BitVecVal(1 << 62, 64)))
        self.dev = ctx.fresh_bv('st_dev', 64); ctx.assume(ULT(self.dev, BitVecVal(1 << 62, 64)))

    def clone_model(self, ctx):
        return self


class TokenStr(SpecialStr):
    """the text a summarised renderer returns: what was rendered (kind) and from which value (arg)"""
    __slots__ = ('kind', 'arg')

    def __init__(self, kind, arg=None):
        Str.__init__(self)
        self.kind, self.arg = kind, arg

    def __repr__(self):
        return 'Token(%s)' % self.kind


def wiring_overrides():
    def mode_text(ctx, args, callee):
        return TokenStr('mode', args[0])

    def digest(alg):
        return lambda ctx, args, callee: TokenStr(alg, ctx.deref(args[0]))
    return [(r'(^|::)get_mode_unix$', mode_text, 'summary:get_mode_unix (decided by Kani in kani/mode)'),
            (r'(^|::)get_sha1_file_hash$', digest('sha1'), 'summary:get_sha1_file_hash (family digests)'),
            (r'(^|::)get_sha256_file_hash$', digest('sha256'), 'summary:get_sha256_file_hash (family digests)'),
            (r'(^|::)get_sha512_file_hash$', digest('sha512'), 'summary:get_sha512_file_hash (family digests)'),
            (r'(^|::)get_sha3_512_file_hash$', digest('sha3_512'), 'summary:get_sha3_512_file_hash (family digests)'),
            (r'(^|::)get_line_count$', lambda ctx, args, callee: some(ctx.ghost.setdefault('lc', ctx.fresh_bv('line_count', 64))), 'summary:get_line_count (family line_count)'),
            (r'(^|::)is_shebang$', lambda ctx, args, callee: ctx.ghost.setdefault('shebang', ctx.fresh_bool('is_shebang')), 'summary:is_shebang (family shebang)')]


class EntryM:
    def __init__(self, meta, name='file.txt'):
        self.meta, self.name = meta, name


def models():
    out = []

    def reg(pat, name):
        def deco(f):
            out.append((pat, f, name)); return f
        return deco

    @reg(r'^(std::fs::)?DirEntry::metadata$|^(std::fs::)?symlink_metadata$', 'fs:lstat (DirEntry::metadata / symlink_metadata)')
    def entry_metadata(ctx, args, callee):
        e = ctx.deref(args[0])
        if isinstance(e, PathV):
            e = ctx.ghost['entry']
        if ctx.ghost.get('stat_fails') is not None and ctx.decide(ctx.ghost['stat_fails']):
            return err(IoError('lstat failed'))
        return ok(e.meta)

    @reg(r'^(std::fs::)?metadata$|^(std::path::)?Path(Buf)?::metadata$', 'fs:stat (follows links): the attributes of the link TARGET, a different record')
    def stat_follow(ctx, args, callee):
        if 'target_meta' not in ctx.ghost:
            ctx.ghost['target_meta'] = MetaV(ctx)
        return ok(ctx.ghost['target_meta'])

    @reg(r'^(std::fs::)?DirEntry::path$', 'fs:DirEntry::path')
    def entry_path(ctx, args, callee):
        n = ctx.deref(args[0]).name
        return PathV(0, '/d/' + (n if isinstance(n, str) else 'entry'))

    @reg(r'^(std::fs::)?DirEntry::file_name$', 'fs:DirEntry::file_name')
    def entry_file_name(ctx, args, callee):
        n = ctx.deref(args[0]).name
        return n if isinstance(n, Str) else Str(n)

    @reg(r'^(std::ffi::)?OsStr(ing)?::to_string_lossy$|^<OsString as Deref>::deref$', 'OsString plumbing')
    def os_lossy(ctx, args, callee):
        v = ctx.deref(args[0])
        return EnumV(0, {0: [v]}, 'Cow') if 'lossy' in callee else args[0]

    @reg(r'^<(std::fs::)?Metadata as (std::os::unix::fs::)?MetadataExt>::(mode|uid|gid|nlink|ino|blocks|dev|size)$', 'MetadataExt accessors')
    def meta_ext(ctx, args, callee):
        m = ctx.deref(args[0]); k = callee.rsplit('::', 1)[1]
        return {'mode': m.mode, 'uid': m.uid, 'gid': m.gid, 'nlink': m.nlink, 'ino': m.ino, 'blocks': m.blocks, 'dev': m.dev, 'size': m.len}[k]

    @reg(r'^(std::fs::)?Metadata::len$', 'Metadata::len')
    def meta_len(ctx, args, callee):
        return ctx.deref(args[0]).len

    @reg(r'^(std::fs::)?Metadata::(is_dir|is_file|is_symlink)$', 'Metadata::is_dir / is_file / is_symlink (S_IFMT)')
    def meta_is(ctx, args, callee):
        m = ctx.deref(args[0]); t = m.mode & IFMT
        return t == {'is_dir': 0o040000, 'is_file': 0o100000, 'is_symlink': 0o120000}[callee.rsplit('::', 1)[1]]

    @reg(r'^(std::fs::)?Metadata::file_type$', 'Metadata::file_type')
    def meta_ft(ctx, args, callee):
        return ('filetype', ctx.deref(args[0]))

    @reg(r'^(std::fs::)?FileType::(is_dir|is_file|is_symlink)$', 'FileType::is_*')
    def ft_is(ctx, args, callee):
        m = ctx.deref(args[0])[1]; t = m.mode & IFMT
        return t == {'is_dir': 0o040000, 'is_file': 0o100000, 'is_symlink': 0o120000}[callee.rsplit('::', 1)[1]]

    @reg(r'^<&?dyn (for<.*> )?Fn\(.*\) -> bool as Fn<.*>>::call$|^<dyn (for<.*> )?Fn\(.*\) -> bool as Fn<.*>>::call$', 'dyn Fn call')
    def dyn_call(ctx, args, callee):
        f = ctx.deref(args[0])
        tup = args[1]
        return ctx.call_closure(f, list(tup.f))

    return out


TYPE_COLS = {'IsDir': 0o040000, 'IsFile': 0o100000, 'IsSymlink': 0o120000, 'IsPipe': 0o010000, 'IsCharacterDevice': 0o020000, 'IsBlockDevice': 0o060000, 'IsSocket': 0o140000}
PERM_COLS = {'UserRead': (0o400, 0o400), 'UserWrite': (0o200, 0o200), 'UserExec': (0o100, 0o100), 'UserAll': (0o700, 0o700), 'GroupRead': (0o040, 0o040),
             'GroupWrite': (0o020, 0o020), 'GroupExec': (0o010, 0o010), 'GroupAll': (0o070, 0o070), 'OtherRead': (0o004, 0o004), 'OtherWrite': (0o002, 0o002),
             'OtherExec': (0o001, 0o001), 'OtherAll': (0o007, 0o007), 'Suid': (0o4000, 0o4000), 'Sgid': (0o2000, 0o2000)}
TOKEN_COLS = {'Mode': 'mode', 'Sha1': 'sha1', 'Sha256': 'sha256', 'Sha512': 'sha512', 'Sha3': 'sha3_512', 'LineCount': 'lc', 'IsShebang': 'shebang'}
INT_COLS = {'Size': 'len', 'Uid': 'uid', 'Gid': 'gid', 'Hardlinks': 'nlink', 'Inode': 'ino', 'Blocks': 'blocks', 'Device': 'dev'}
CLI_COL = {'IsCharacterDevice': 'is_char', 'IsBlockDevice': 'is_block'}


def col_sql(c):
    import re
    return CLI_COL.get(c, re.sub(r'(?<!^)([A-Z])', r'_\1', c).lower())


def cli_replay_columns(cols):
    """compare the named columns of real entries (regular file 04755 / 0640, directory, fifo, symlink) with lstat"""
    def rep():
        import os, stat, tempfile, shutil, subprocess
        exe = common.native_binary()
        d = tempfile.mkdtemp(prefix='verif-c04w-', dir=common.SCRATCH_ROOT)
        try:
            open(os.path.join(d, 'a'), 'w').write('#!/bin/sh\nxyz\n' * 3000); os.chmod(os.path.join(d, 'a'), 0o4755)
            open(os.path.join(d, 'b'), 'w').write(''); os.chmod(os.path.join(d, 'b'), 0o2640)
            os.link(os.path.join(d, 'b'), os.path.join(d, 'b2'))
            os.mkdir(os.path.join(d, 'c')); os.chmod(os.path.join(d, 'c'), 0o1777)
            os.mkfifo(os.path.join(d, 'p')); os.symlink('a', os.path.join(d, 'l'))
            env = {'PATH': os.environ['PATH'], 'HOME': d, 'TZ': 'UTC'}
            for c in cols:
                sql = col_sql(c)
                if c in ('Sha1', 'Sha256', 'Sha512', 'Sha3', 'LineCount', 'IsShebang'):
                    os.remove(os.path.join(d, 'p')) if os.path.exists(os.path.join(d, 'p')) else None   # never open a fifo
                for opts in ([], ['symlinks']):         # the entry's own attributes, with and without the `symlinks` root option
                    r = subprocess.run([exe, 'name, ' + sql, 'from', d, 'depth', '1'] + opts, env=env, stdout=subprocess.PIPE, stderr=subprocess.PIPE, timeout=20)
                    for line in r.stdout.decode().split('\n')[:-1]:
                        n, v = line.split('\t')
                        st = os.lstat(os.path.join(d, n))
                        if c in TOKEN_COLS:
                            import hashlib
                            fp = os.path.join(d, n)
                            reg = stat.S_ISREG(st.st_mode)
                            data = open(fp, 'rb').read() if reg else None
                            k = TOKEN_COLS[c]
                            if k == 'mode':
                                want = stat.filemode(st.st_mode)
                            elif not reg:
                                continue        # content columns of directories / fifos / links: not specified here
                            elif k == 'lc':
                                want = str(data.count(b'\n'))
                            elif k == 'shebang':
                                want = 'true' if data[:2] == b'#!' else 'false'
                            else:
                                want = hashlib.new(k, data).hexdigest()
                        elif c in TYPE_COLS:
                            want = 'true' if (st.st_mode & IFMT) == TYPE_COLS[c] else 'false'
                        elif c in PERM_COLS:
                            msk, val = PERM_COLS[c]
                            want = 'true' if (st.st_mode & msk) == val else 'false'
                        else:
                            want = str({'len': st.st_size, 'uid': st.st_uid, 'gid': st.st_gid, 'nlink': st.st_nlink, 'ino': st.st_ino, 'blocks': st.st_blocks, 'dev': st.st_dev}[INT_COLS[c]])
                        if v != want:
                            return True, 'entry %r (mode %s): column %s = %r, lstat says %r' % (n, oct(st.st_mode), sql, v, want)
            return False, 'columns %r agree with lstat on a file, a setuid file, a hard-linked file, a sticky directory, a fifo and a symlink' % (cols,)
        finally:
            shutil.rmtree(d, ignore_errors=True)
    return rep


def cli_replay_zipmode(col):
    """zip members with stored unix modes (set-uid only, set-gid only, plain, everything, a directory, a link): the column of each member
    must be the one its STORED mode gives"""
    def rep():
        import os, tempfile, shutil, subprocess, zipfile
        exe = common.native_binary()
        d = tempfile.mkdtemp(prefix='verif-c04zm-', dir=common.SCRATCH_ROOT)
        try:
            zp = os.path.join(d, 'a.zip')
            modes = {'suid': 0o104755, 'sgid': 0o102755, 'plain': 0o100644, 'all': 0o107777, 'none': 0o100000, 'adir/': 0o040750, 'alink': 0o120777, 'wonly': 0o100222}
            z = zipfile.ZipFile(zp, 'w')
            for n, mo in modes.items():
                zi = zipfile.ZipInfo(n); zi.create_system = 3; zi.external_attr = mo << 16
                z.writestr(zi, '' if n.endswith('/') else 'data')
            z.close()
            sql = col_sql(col)
            r = subprocess.run([exe, 'name, %s from %s archives' % (sql, d)], env={'PATH': os.environ['PATH'], 'HOME': d, 'TZ': 'UTC'}, stdout=subprocess.PIPE, stderr=subprocess.PIPE, timeout=20)
            rows = dict(l.split('\t') for l in r.stdout.decode().split('\n')[:-1] if '\t' in l)
            bad = []
            for n, mo in modes.items():
                got = rows.get('[a.zip] ' + n)
                if col in ('IsDir', 'IsFile', 'IsSymlink'):
                    continue            # these three are not taken from the stored mode (family wiring does not claim them for members)
                if col in TYPE_COLS:
                    want = 'true' if (mo & IFMT) == TYPE_COLS[col] else 'false'
                elif col in PERM_COLS:
                    msk, val = PERM_COLS[col]
                    want = 'true' if (mo & msk) == val else 'false'
                else:
                    continue
                if got != want:
                    bad.append((n, oct(mo), got, want))
            return bool(bad), '%s of zip members by their stored mode: %s' % (sql, ('member %r (stored mode %s): %r, expected %r' % bad[0]) if bad else 'all %d members as stored' % len(modes))
        finally:
            shutil.rmtree(d, ignore_errors=True)
    return rep


def cli_replay_nomode(col):
    """a zip whose member has no unix mode (create_system = 0, external_attr = 0) inside an archive file with all permission bits set"""
    def rep():
        import os, tempfile, shutil, subprocess, zipfile
        exe = common.native_binary()
        d = tempfile.mkdtemp(prefix='verif-c04z-', dir=common.SCRATCH_ROOT)
        try:
            zp = os.path.join(d, 'a.zip')
            z = zipfile.ZipFile(zp, 'w')
            zi = zipfile.ZipInfo('member.txt'); zi.create_system = 0; zi.external_attr = 0
            z.writestr(zi, 'data'); z.close()
            os.chmod(zp, 0o7777)
            sql = col_sql(col)
            r = subprocess.run([exe, 'name, %s from %s archives' % (sql, d)], env={'PATH': os.environ['PATH'], 'HOME': d, 'TZ': 'UTC'}, stdout=subprocess.PIPE, stderr=subprocess.PIPE, timeout=20)
            rows = dict(l.split('\t') for l in r.stdout.decode().split('\n')[:-1] if '\t' in l)
            got = rows.get('[a.zip] member.txt')
            return got != 'false', '%s of a member without a stored mode inside a 07777 archive file: %r (expected false); rows %r' % (sql, got, rows)
        finally:
            shutil.rmtree(d, ignore_errors=True)
    return rep


def fam_wiring(sess, only_zip=False):
    prog = sess.prog
    fam = 'wiring'
    ex = sess.executor(models() + wiring_overrides(), unwind=6)
    gfv = prog.find('Searcher', 'get_field_value')
    fms_new = prog.find('FileMetadataState', 'new')
    cols = list(TYPE_COLS) + list(PERM_COLS) + list(INT_COLS) + list(TOKEN_COLS)
    sess.bounds[fam] = {'columns': cols, 'lstat record': 'symbolic (all modes of the seven file types, 62-bit sizes / counters)', 'symlinks root option': 'symbolic (the entry\'s own attributes either way)', 'zip members': 'stored mode symbolic (type and permission columns)'}
    for col in cols:
        for archived in ((False, True, 'nomode') if (col in TYPE_COLS and col not in ('IsDir', 'IsFile', 'IsSymlink')) or col in PERM_COLS else (False, True) if col == 'Mode' else (False,)):
            box = {}
            if only_zip and not archived:
                continue

            def run(ctx, col=col, archived=archived):
                meta = MetaV(ctx)
                entry = EntryM(meta)
                ctx.ghost['entry'] = entry
                s = E.mk_searcher(prog, fms=ctx.call_fn(fms_new, []), current_follow_symlinks=ctx.fresh_bool('root_follows_symlinks'))
                if archived == 'nomode':
                    # a member without a stored unix mode (jars, zips made on other systems): its mode booleans are false —
                    # never those of the archive file that contains it
                    amode = None
                    fi = some(E.mk_struct(prog, 'FileInfo', {'name': Str('dir/member.txt'), 'size': ctx.fresh_bv('zip_size', 64), 'mode': none(), 'modified': none()}))
                elif archived:
                    amode = ctx.fresh_bv('zip_mode', 32)
                    fi = some(E.mk_struct(prog, 'FileInfo', {'name': Str('dir/member.txt'), 'size': ctx.fresh_bv('zip_size', 64), 'mode': some(amode), 'modified': none()}))
                else:
                    amode = None; fi = none()
                v = ctx.call_fn(gfv, [Ref(Cell(s)), Ref(Cell(entry)), Ref(Cell(fi)), Ref(Cell(E.field_enum(prog, col)))])
                return meta, amode, v

            def on_path(ctx, out, col=col, archived=archived):
                name = 'wiring %s%s' % (col, ' (zip member without a stored mode)' if archived == 'nomode' else ' (zip member)' if archived else '')
                if out[0] != 'ret':
                    box['bad'] = True; sess.inconclusive(name, str(out), fam); return
                meta, amode, v = out[1]
                F = E.struct_fields(prog, 'Variant')
                mode = amode if archived else meta.mode
                if col in TOKEN_COLS:
                    k = TOKEN_COLS[col]
                    sv = v.f[F.index('string_value')]
                    if k == 'lc':
                        iv = v.f[F.index('int_value')]
                        cond = iv.p[1][0] == ctx.ghost['lc'] if conc(iv.d) == 1 and 'lc' in ctx.ghost else BoolVal(False)
                    elif k == 'shebang':
                        bv_ = v.f[F.index('bool_value')]
                        cond = bv_.p[1][0] == ctx.ghost['shebang'] if conc(bv_.d) == 1 and 'shebang' in ctx.ghost else BoolVal(False)
                    elif k == 'mode':
                        cond = sv.arg == mode if isinstance(sv, TokenStr) and sv.kind == 'mode' else BoolVal(False)
                    else:
                        cond = BoolVal(isinstance(sv, TokenStr) and sv.kind == k and sv.arg is ctx.ghost['entry'])
                elif col in INT_COLS:
                    iv = v.f[F.index('int_value')]
                    src = getattr(meta, INT_COLS[col])
                    want = z3.ZeroExt(64 - src.size(), src) if src.size() < 64 else src
                    cond = And(BoolVal(conc(iv.d) == 1), iv.p[1][0] == want) if conc(iv.d) == 1 else BoolVal(False)
                else:
                    bv_ = v.f[F.index('bool_value')]
                    if archived == 'nomode':
                        want = BoolVal(False)
                    elif col in TYPE_COLS:
                        want = (mode & IFMT) == TYPE_COLS[col]
                    else:
                        msk, val = PERM_COLS[col]
                        want = (mode & msk) == val
                    cond = bv_.p[1][0] == want if conc(bv_.d) == 1 else BoolVal(False)
                box['paths'] = box.get('paths', 0) + 1
                if ctx.check(Not(cond)) == z3.unsat:
                    return
                if box.get('viol'):
                    return
                box['viol'] = True
                m = ctx.model(Not(cond))
                if archived == 'nomode':
                    sess.violated(name, 'wiring/' + col + '/zip-nomode', 'a member without a stored mode reports %s = true' % col, {'column': col}, cli_replay_nomode(col), fam)
                    return
                sess.violated(name, 'wiring/' + col + ('/zip' if archived else ''), 'the column is not the attribute it names (mode %s)' % oct(m.eval(mode, model_completion=True).as_long()),
                              {'column': col}, cli_replay_zipmode(col) if (archived and (col in TYPE_COLS or col in PERM_COLS)) else cli_replay_columns([col]), fam)
            ex.explore(run, on_path)
            if not box.get('viol') and not box.get('bad'):
                sess.discharged('wiring %s%s' % (col, ' (zip member without a stored mode)' if archived == 'nomode' else ' (zip member)' if archived else ''), family=fam, queries=box.get('paths', 1))


# ------------------------------------------------------------------------------------------------ content readers
class FileM:
    """an open file: `chunks` = what successive reads deliver; each chunk has a symbolic length (>0) and newline count"""
    def __init__(self, chunks, first_bytes=None):
        self.chunks, self.pos, self.first_bytes = chunks, 0, first_bytes
        self.consumed = []


class BufM:
    def __init__(self, idx, length, newlines):
        self.idx, self.len_, self.newlines = idx, length, newlines

    def length(self, ctx):
        return self.len_


class ByteBuf:
    """a large byte buffer (vec![0u8; N]) as an ordered list of segments [length term, source]; source = ('zero',) |
    ('file', chunk index, offset term) — bytes [offset, offset+length) of what the chunk-th read delivered"""
    def __init__(self, n):
        self.n = n
        self.segs = [[BitVecVal(n, 64), ('zero',)]]

    def overwrite_prefix(self, ctx, k, src_chunk):
        """bytes [0, k) := the chunk's bytes; the rest keeps what it held (k <= n assumed by the caller)"""
        rest = []
        skipped = BitVecVal(0, 64)          # bytes of the old content already covered
        for ln, src in self.segs:
            end = z3.simplify(skipped + ln)
            if ctx.decide(z3.ULE(end, k)):
                pass                        # wholly overwritten
            elif ctx.decide(z3.ULE(k, skipped)):
                rest.append([ln, src])      # wholly kept
            else:
                cut = z3.simplify(k - skipped)      # overwritten part of this segment
                if src[0] == 'file':
                    rest.append([z3.simplify(ln - cut), ('file', src[1], z3.simplify(src[2] + cut))])
                else:
                    rest.append([z3.simplify(ln - cut), src])
            skipped = end
        self.segs = [[k, ('file', src_chunk, BitVecVal(0, 64))]] + rest

    def view(self, ctx, hi):
        """segments of bytes [0, hi)"""
        out = []
        skipped = BitVecVal(0, 64)
        for ln, src in self.segs:
            end = z3.simplify(skipped + ln)
            if ctx.decide(z3.ULE(end, hi)):
                out.append([ln, src])
            elif ctx.decide(z3.ULE(hi, skipped)):
                break
            else:
                out.append([z3.simplify(hi - skipped), src]); break
            skipped = end
        return out


class ByteView:
    def __init__(self, segs):
        self.segs = segs


def reader_models():
    out = []

    def reg(pat, name):
        def deco(f):
            out.append((pat, f, name)); return f
        return deco

    @reg(r'^(std::fs::)?DirEntry::path$', 'fs:DirEntry::path')
    def entry_path(ctx, args, callee):
        return PathV(0, '/d/file')

    @reg(r'^(std::fs::)?File::open$', 'fs:File::open (Ok / Err symbolic)')
    def file_open(ctx, args, callee):
        if ctx.decide(ctx.ghost['open_fails']):
            return err(IoError('open failed'))
        return ok(ctx.ghost['file'])

    @reg(r'^BufReader::with_capacity$|^BufReader::new$|^(std::io::)?BufReader::(with_capacity|new)$', 'io:BufReader::new')
    def bufreader(ctx, args, callee):
        return args[-1]

    @reg(r'^<BufReader<File> as BufRead>::fill_buf$|^<(std::io::)?BufReader<(std::fs::)?File> as (std::io::)?BufRead>::fill_buf$', 'io:BufRead::fill_buf (next chunk, or empty at EOF, or Err)')
    def fill_buf(ctx, args, callee):
        f = ctx.deref(args[0])
        if ctx.ghost.get('read_fails') is not None and ctx.decide(ctx.ghost['read_fails'][min(f.pos, len(ctx.ghost['read_fails']) - 1)]):
            return err(IoError('read failed'))
        if f.pos >= len(f.chunks):
            return ok(Ref(Cell(BufM(None, BitVecVal(0, 64), BitVecVal(0, 64)))))
        ln, nl = f.chunks[f.pos]
        return ok(Ref(Cell(BufM(f.pos, ln, nl))))

    @reg(r'^(core|std)::slice::<impl \[u8\]>::is_empty$', 'slice::is_empty')
    def buf_is_empty(ctx, args, callee):
        return ctx.deref(args[0]).len_ == 0

    @reg(r'^(std|alloc)::vec::from_elem$', 'vec![0u8; N] with a large N: an abstract byte buffer')
    def from_elem(ctx, args, callee):
        n = conc(args[1])
        if n is None or n <= 64 or not z3.is_bv(args[0]) or conc(args[0]) != 0:
            from mirsym.models_std import m_vec_from_elem
            return m_vec_from_elem(ctx, args, callee)
        return ByteBuf(n)

    @reg(r'^<Vec<u8> as (std::ops::)?Deref(Mut)?>::deref(_mut)?$', 'Vec<u8> deref')
    def vec_deref(ctx, args, callee):
        v = ctx.deref(args[0])
        if isinstance(v, ByteBuf):
            return args[0]
        from mirsym.models_std import MODELS
        for pat, f, name in MODELS:
            if pat.search('<Vec<u8> as Deref>::deref'):
                return f(ctx, args, callee)
        raise Unmodelled('Vec<u8> deref')

    @reg(r'^<Vec<u8> as (std::ops::)?Index(Mut)?<(std::ops::)?Range(To|Full)(<usize>)?>>::index(_mut)?$', 'slice of the abstract byte buffer')
    def vec_slice(ctx, args, callee):
        v = ctx.deref(args[0])
        if not isinstance(v, ByteBuf):
            raise Unmodelled('byte slice of %r' % (v,))
        if 'RangeFull' in callee:
            return args[0]
        hi = args[1].f[0]
        ctx.obligation(z3.ULE(hi, BitVecVal(v.n, 64)), 'range end index out of range for slice')
        return Ref(Cell(ByteView(v.view(ctx, hi))))

    @reg(r'^<(std::fs::)?File as (std::io::)?Read>::read$|^<BufReader<File> as (std::io::)?Read>::read$', 'io:Read::read into the abstract byte buffer: the next chunk (<= buffer length), 0 at EOF, or Err')
    def file_read(ctx, args, callee):
        f = ctx.deref(args[0]); b = ctx.deref(args[1])
        if not isinstance(b, ByteBuf):
            raise Unmodelled('read into %r' % (b,))
        ctx.ghost['read_attempted'] = True
        if ctx.ghost.get('read_fails') is not None and ctx.decide(ctx.ghost['read_fails'][min(f.pos, len(ctx.ghost['read_fails']) - 1)]):
            return err(IoError('read failed'))
        if f.pos >= len(f.chunks):
            return ok(BitVecVal(0, 64))
        ln, nl = f.chunks[f.pos]
        ctx.assume(z3.ULE(ln, BitVecVal(b.n, 64)))
        b.overwrite_prefix(ctx, ln, f.pos)
        f.consumed.append((f.pos, ln))
        f.pos += 1
        return ok(ln)

    @reg(r'^bytecount::count$', 'bytecount::count (the chunk\'s newline count; uninterpreted)')
    def bytecount(ctx, args, callee):
        b = ctx.deref(args[0])
        needle = conc(args[1])
        if isinstance(b, (ByteBuf, ByteView)):
            if needle != 10:
                ctx.ghost['wrong_needle'] = needle
                return ctx.fresh_bv('count_of_other_byte', 64)
            f = ctx.ghost['file']
            total = BitVecVal(0, 64)
            for ln, src in b.segs:
                if src[0] == 'zero':
                    continue
                clen, cnl = f.chunks[src[1]]
                whole = And(src[2] == 0, ln == clen)
                if ctx.check(Not(whole)) == z3.unsat:
                    total = total + cnl                         # exactly one delivered chunk
                else:
                    part = ctx.fresh_bv('newlines_in_part_of_chunk%d' % src[1], 64)      # any count the bytes allow
                    ctx.assume(z3.ULE(part, ln))
                    total = total + part
            return z3.simplify(total)
        if needle != 10:
            ctx.ghost['wrong_needle'] = needle
            return ctx.fresh_bv('count_of_other_byte', 64)
        ctx.ghost.setdefault('counted', []).append(b.idx)
        return b.newlines

    @reg(r'^(core|std)::slice::<impl \[u8\]>::len$', 'slice::len')
    def buf_len(ctx, args, callee):
        return ctx.deref(args[0]).len_

    @reg(r'^<BufReader<File> as BufRead>::consume$|^<(std::io::)?BufReader<(std::fs::)?File> as (std::io::)?BufRead>::consume$', 'io:BufRead::consume')
    def consume(ctx, args, callee):
        f = ctx.deref(args[0])
        n = args[1]
        if f.pos < len(f.chunks):
            f.consumed.append((f.pos, n))
            # consuming less than the chunk would re-deliver its tail: the model requires the exact length
            if ctx.check(n != f.chunks[f.pos][0]) != z3.unsat:
                ctx.ghost['short_consume'] = True
            f.pos += 1
        return UNIT

    @reg(r'^<BufReader<File> as Read>::read_exact$|^<(std::io::)?BufReader<(std::fs::)?File> as (std::io::)?Read>::read_exact$|^(std::io::)?Read::read_exact$', 'io:Read::read_exact')
    def read_exact(ctx, args, callee):
        f = ctx.deref(args[0])
        buf = ctx.deref(args[1])
        n = len(buf.items)
        if f.first_bytes is None or not ctx.decide(ctx.ghost['has_two_bytes']):
            return err(IoError('unexpected eof'))
        for i in range(n):
            buf.items[i].v = f.first_bytes[i]
        return ok(UNIT)

    return out


def fam_readers(sess):
    prog = sess.prog
    ex = sess.executor(reader_models(), unwind=8)
    # ---- is_shebang
    fam = 'shebang'
    box = {}
    isb = prog.find_free('is_shebang')

    def run(ctx):
        b0 = ctx.fresh_bv('byte0', 8); b1 = ctx.fresh_bv('byte1', 8)
        ctx.ghost['open_fails'] = ctx.fresh_bool('open_fails'); ctx.ghost['has_two_bytes'] = ctx.fresh_bool('has_two_bytes')
        ctx.ghost['file'] = FileM([], [b0, b1])
        r = ctx.call_fn(isb, [Ref(Cell(PathV(0, '/d/file')))])
        return b0, b1, r

    def on_path(ctx, out):
        if out[0] != 'ret':
            box['bad'] = True; sess.inconclusive(fam, str(out), fam); return
        b0, b1, r = out[1]
        want = And(Not(ctx.ghost['open_fails']), ctx.ghost['has_two_bytes'], b0 == 0x23, b1 == 0x21)
        if ctx.check(r != want) != z3.unsat and not box.get('viol'):
            box['viol'] = True

            def rep():
                exe = common.native_binary()
                tree = {'s1': {'content': '#!/bin/sh\n'}, 's2': {'content': '#x'}, 's3': {'content': '#'}, 's4': {'content': ' #!'}, 's5': {'content': ''}}
                r_ = common.run_cli(exe, ['name', 'from', '.', 'where', 'is_shebang', '=', 'true'], tree)
                rows = r_['stdout'].split('\n')[:-1]
                return rows != ['s1'], 'is_shebang true for %r, expected only s1' % rows
            sess.violated(fam, 'readers/shebang', 'is_shebang is not "the file starts with #!"', {}, rep, fam)
    ex.explore(run, on_path)
    if not box.get('viol') and not box.get('bad'):
        sess.discharged('shebang: true iff the file opens, has two bytes and they are 0x23 0x21', family=fam)
    # ---- get_line_count
    fam = 'line_count'
    glc = prog.find_free('get_line_count')
    for k in range(0, 4 if sess.tier == "quick" else 6):
        box = {}

        def run2(ctx, k=k):
            chunks = []
            for i in range(k):
                ln = ctx.fresh_bv('len%d' % i, 64); nl = ctx.fresh_bv('nl%d' % i, 64)
                ctx.assume(And(ln != 0, ULT(ln, BitVecVal(1 << 40, 64)), z3.ULE(nl, ln)))
                chunks.append((ln, nl))
            ctx.ghost['open_fails'] = ctx.fresh_bool('open_fails')
            ctx.ghost['read_fails'] = [ctx.fresh_bool('read_fails%d' % i) for i in range(k + 1)]
            ctx.ghost['file'] = FileM(chunks)
            r = ctx.call_fn(glc, [Ref(Cell(EntryM(None)))])
            return chunks, r

        def on_path2(ctx, out, k=k):
            name = 'line_count, %d chunks' % k
            if out[0] != 'ret':
                if out[0] == 'panic':
                    return      # usize overflow of the sum is excluded by the chunk bounds; any other panic:
                box['bad'] = True; sess.inconclusive(name, str(out), fam); return
            chunks, r = out[1]
            anyfail = Or([ctx.ghost['open_fails']] + ctx.ghost['read_fails'])
            total = BitVecVal(0, 64)
            for ln, nl in chunks:
                total = total + nl
            d = r.d if isinstance(r.d, int) else None
            some_ = BoolVal(d == 1) if d is not None else (r.d == 1)
            val = r.p[1][0] if 1 in r.p and r.p[1] else BitVecVal(0, 64)
            # a failure yields None (an empty column); otherwise the exact sum
            cond = If(anyfail, BoolVal(True), And(some_, val == total))
            bad = ctx.ghost.get('short_consume') or ctx.ghost.get('wrong_needle') is not None
            if (ctx.check(Not(cond)) != z3.unsat or bad) and not box.get('viol'):
                box['viol'] = True

                def rep():
                    exe = common.native_binary()
                    tree = {'big': {'content': ('x' * 99 + '\n') * 700 + 'tail'}, 'small': {'content': 'a\nb\n'}, 'none': {'content': 'abc'}, 'empty': {'content': ''}}
                    r_ = common.run_cli(exe, ['name, line_count', 'from', '.'], tree)
                    got = dict(l.split('\t') for l in r_['stdout'].split('\n')[:-1])
                    want = {'big': '700', 'small': '2', 'none': '0', 'empty': '0'}
                    return got != want, 'line_count %r, expected %r' % (got, want)
                sess.violated(name, 'readers/line_count', 'line_count is not the number of newline bytes of the whole file', {}, rep, fam)
        ex.explore(run2, on_path2)
        if not box.get('viol') and not box.get('bad'):
            sess.discharged('line_count over %d chunks = sum of the chunks\' newline counts' % k, family=fam)


class HasherM:
    def __init__(self, alg):
        self.alg, self.absorbed = alg, []


class DigestM:
    def __init__(self, alg, absorbed):
        self.alg, self.absorbed = alg, absorbed

    def display(self, ctx, kind):
        return TokenStr('hex' if kind == 'hex' else 'digest-' + kind, self)


ALG_OF_CORE = {'Sha1Core': 'sha1', 'Sha256VarCore': 'sha256', 'Sha512VarCore': 'sha512', 'Sha3_512Core': 'sha3_512', 'Sha3_256Core': 'sha3_256', 'Sha3_384Core': 'sha3_384',
               'Sha3_224Core': 'sha3_224', 'Md5Core': 'md5'}


def digest_models():
    out = [m for m in reader_models()]

    def reg(pat, name):
        def deco(f):
            out.append((pat, f, name)); return f
        return deco

    def alg_of(callee):
        import re
        m = re.search(r'<(?:CoreWrapper<)?(?:CtVariableCoreWrapper<)?(\w+)', callee)
        core = m.group(1) if m else ''
        if core == 'CtVariableCoreWrapper' or core == 'CoreWrapper':
            m = re.search(r'Wrapper<(\w+Core)', callee); core = m.group(1) if m else core
        if core in ('Sha256VarCore', 'Sha512VarCore'):
            # the output size (a typenum) selects SHA-224/256 resp. SHA-384/512: read it from the type text
            return core, callee
        return core, callee

    @reg(r'^<.* as (digest::)?Digest>::new$', 'digest:Digest::new (by the hasher type)')
    def d_new(ctx, args, callee):
        return HasherM(type_alg(callee))

    @reg(r'^(std::)?io::copy$', 'io::copy(file, hasher): the hasher absorbs the whole file, or Err')
    def io_copy(ctx, args, callee):
        f = ctx.deref(args[0]); h = ctx.deref(args[1])
        ctx.ghost['used_copy'] = True
        if ctx.decide(ctx.ghost['copy_fails']):
            h.absorbed.append(('prefix', f))
            return err(IoError('read failed'))
        h.absorbed.append(('all', f))
        return ok(ctx.fresh_bv('copied', 64))

    @reg(r'^<.* as (digest::)?(Digest|Update)>::update$', 'digest:Digest::update(bytes): the hasher absorbs exactly those bytes')
    def d_update(ctx, args, callee):
        h = ctx.deref(args[0]); b = ctx.deref(args[1])
        if isinstance(b, (ByteBuf, ByteView)):
            h.absorbed.append(('segs', [list(x) for x in b.segs]))
            return UNIT
        raise Unmodelled('Digest::update with %r' % (b,))

    @reg(r'^<.* as (digest::)?Digest>::finalize$', 'digest:Digest::finalize')
    def d_fin(ctx, args, callee):
        h = ctx.deref(args[0])
        return DigestM(h.alg, list(h.absorbed))

    return out


def type_alg(callee):
    """the algorithm a RustCrypto hasher type denotes (from the monomorphised type text of the call)"""
    import re
    t = callee
    if 'Sha1Core' in t:
        return 'sha1'
    m = re.search(r'Sha3_(\d+)Core', t)
    if m:
        return 'sha3_' + m.group(1)
    m = re.search(r'(Sha256VarCore|Sha512VarCore), (UInt<.*)', t)
    if m:
        # typenum: UInt<UInt<..UTerm, B1>, B0>..> binary digits, most significant first = output bytes
        bits = re.findall(r'B([01])', m.group(2))
        n = int(''.join(bits), 2) * 8 if bits else 0
        return 'sha%d' % n if m.group(1) == 'Sha256VarCore' or n in (384, 512) else 'sha512_%d' % n
    return 'unknown:' + t[:60]


DIGEST_FNS = {'get_sha1_file_hash': 'sha1', 'get_sha256_file_hash': 'sha256', 'get_sha512_file_hash': 'sha512', 'get_sha3_512_file_hash': 'sha3_512'}


def fam_digests(sess):
    prog = sess.prog
    fam = 'digests'
    ex = sess.executor(digest_models(), unwind=4)
    sess.bounds[fam] = {'file': 'abstract (whole content as one object); open and read may fail', 'functions': sorted(DIGEST_FNS)}
    for fname, alg in DIGEST_FNS.items():
        box = {}
        fn = prog.find_free(fname)

        def run(ctx):
            ctx.ghost['open_fails'] = ctx.fresh_bool('open_fails'); ctx.ghost['copy_fails'] = ctx.fresh_bool('copy_fails')
            chunks = []
            for i in range(2):       # consulted only by an implementation that reads the file itself (read loop + update)
                ln = ctx.fresh_bv('len%d' % i, 64); nl = ctx.fresh_bv('nl%d' % i, 64)
                ctx.assume(And(ln != 0, ULT(ln, BitVecVal(1 << 40, 64)), z3.ULE(nl, ln)))
                chunks.append((ln, nl))
            ctx.ghost['read_fails'] = [ctx.fresh_bool('read_fails%d' % i) for i in range(3)]
            ctx.ghost['file'] = FileM(chunks)
            return ctx.call_fn(fn, [Ref(Cell(EntryM(None)))])

        def on_path(ctx, out, fname=fname, alg=alg):
            if out[0] != 'ret':
                box['bad'] = True; sess.inconclusive(fname, str(out), fam); return
            r = out[1]
            f = ctx.ghost['file']
            used_read = bool(f.pos or f.consumed or ctx.ghost.get('read_attempted'))
            anyfail = Or([ctx.ghost['open_fails']] + ([ctx.ghost['copy_fails']] if ctx.ghost.get('used_copy') or not used_read else []) + (ctx.ghost['read_fails'] if used_read else []))
            fails = ctx.check(Not(anyfail)) == z3.unsat
            if fails:
                good = isinstance(r, Str) and not isinstance(r, SpecialStr) and r.s == ''
                what = 'a file that cannot be read must give an empty digest column'
            else:
                good = isinstance(r, TokenStr) and r.kind == 'hex' and isinstance(r.arg, DigestM) and r.arg.alg == alg
                if good:
                    ab = r.arg.absorbed
                    if len(ab) == 1 and ab[0][0] == 'all':
                        good = ab[0][1] is f
                    elif ctx.check(anyfail) != z3.unsat and ctx.check(Not(anyfail)) != z3.unsat:
                        good = True      # a path on which the outcome still depends on undecided failures: judged on its siblings
                    else:
                        # read loop: the updates must be exactly the delivered chunks, whole and in order, up to EOF
                        segs = [sg for a in ab if a[0] == 'segs' for sg in a[1]]
                        good = all(a[0] == 'segs' for a in ab) and f.pos == len(f.chunks) and len(segs) == len(f.chunks)
                        for j, (ln, src) in enumerate(segs):
                            if not good:
                                break
                            good = src[0] == 'file' and src[1] == j and ctx.check(Not(And(src[2] == 0, ln == f.chunks[j][0]))) == z3.unsat
                what = 'the column is not the lower-case hex %s of the whole file (got %r%s)' % (alg, r, ' of ' + r.arg.alg if isinstance(r, TokenStr) and isinstance(r.arg, DigestM) else '')
            if not good and not box.get('viol'):
                box['viol'] = True
                col = {'sha1': 'Sha1', 'sha256': 'Sha256', 'sha512': 'Sha512', 'sha3_512': 'Sha3'}[alg]
                sess.violated(fname, 'digests/' + alg, what, {}, cli_replay_columns([col]), fam)
        ex.explore(run, on_path)
        if not box.get('viol') and not box.get('bad'):
            sess.discharged('%s = hex(%s(whole file)), empty when the file cannot be read' % (fname, alg), family=fam)


HIDDEN_NAMES = ['.top', 'plain', 'a.b', '..x', 'x.', 'sub/.inner', 'sub/plain', '.hid/plain2', 'a/b/.c', 'a/.b/c', 'a.b/c.d']


def fam_hidden_empty(sess):
    """is_hidden: the entry's own name (last component) starts with a dot — directory entries and zip members;
    is_empty: size 0 for files and zip members, no entries for directories (is_dir_empty summarised as a symbolic verdict)"""
    from mirsym.models_std import table_str
    from drivers.parsecore import pure_lift
    prog = sess.prog
    fam = 'hidden_empty'
    lifts = [(r'(^|::)is_hidden$', pure_lift(lambda p: p.find_free('is_hidden'), 'is_hidden'), 'lift:util::is_hidden (real MIR per table entry)'),
             (r'(^|::)is_dir_empty$', lambda ctx, args, callee: ctx.ghost['dir_empty'], 'summary:is_dir_empty (symbolic Option<bool>)')]
    ex = sess.executor(models() + lifts, unwind=6)
    gfv = prog.find('Searcher', 'get_field_value')
    fms_new = prog.find('FileMetadataState', 'new')
    sess.bounds[fam] = {'names': HIDDEN_NAMES, 'entry names': 'those without a slash'}
    for col in ('IsHidden', 'IsEmpty'):
        for archived in (False, True):
            box = {}

            def run(ctx, col=col, archived=archived):
                names = HIDDEN_NAMES if archived else [n for n in HIDDEN_NAMES if '/' not in n]
                name = table_str(ctx, 'name', names)
                meta = MetaV(ctx)
                entry = EntryM(meta, name='outer.zip' if archived else name)
                ctx.ghost['entry'] = entry
                de = ctx.fresh_bool('dir_is_empty'); dk = ctx.fresh_bool('dir_listable')
                ctx.ghost['dir_empty'] = some(de) if ctx.decide(dk) else none()
                s = E.mk_searcher(prog, fms=ctx.call_fn(fms_new, []), current_follow_symlinks=BoolVal(False))
                zsize = ctx.fresh_bv('zip_size', 64)
                fi = some(E.mk_struct(prog, 'FileInfo', {'name': name, 'size': zsize, 'mode': none(), 'modified': none()})) if archived else none()
                v = ctx.call_fn(gfv, [Ref(Cell(s)), Ref(Cell(entry)), Ref(Cell(fi)), Ref(Cell(E.field_enum(prog, col)))])
                return name, meta, zsize, de, v

            def on_path(ctx, out, col=col, archived=archived):
                nm = '%s %s%s' % (fam, col, ' (zip member)' if archived else '')
                if out[0] != 'ret':
                    box['bad'] = True; sess.inconclusive(nm, str(out), fam); return
                name, meta, zsize, de, v = out[1]
                F = E.struct_fields(prog, 'Variant')
                bv_ = v.f[F.index('bool_value')]
                d = conc(bv_.d)
                listable = ctx.ghost['dir_empty'].d == 1 if not isinstance(ctx.ghost['dir_empty'].d, int) else ctx.ghost['dir_empty'].d == 1
                if col == 'IsHidden':
                    want = Or([name.var == k for k, t in name.tab.items() if t.rsplit('/', 1)[-1].startswith('.')] + [BoolVal(False)])
                    cond = bv_.p[1][0] == want if d == 1 else BoolVal(False)
                elif archived:
                    cond = bv_.p[1][0] == (zsize == 0) if d == 1 else BoolVal(False)
                else:
                    isdir = (meta.mode & IFMT) == 0o040000
                    if d == 1:
                        cond = And(bv_.p[1][0] == If(isdir, de, meta.len == 0), Or(Not(isdir), BoolVal(bool(listable))))
                    else:
                        cond = And(isdir, BoolVal(not listable))     # an unreadable directory: empty column
                box['paths'] = box.get('paths', 0) + 1
                if ctx.check(Not(cond)) == z3.unsat or box.get('viol'):
                    return
                box['viol'] = True
                m = ctx.model(Not(cond))
                wname = name.tab[m.eval(name.var, model_completion=True).as_long()]
                sess.violated(nm, 'hidden_empty/' + col + ('/zip' if archived else ''), 'entry %r: wrong %s' % (wname, col), {'name': wname, 'zip': archived},
                              cli_replay_hidden_empty(col), fam)
            ex.explore(run, on_path)
            if not box.get('viol') and not box.get('bad'):
                sess.discharged('%s %s%s' % (fam, col, ' (zip member)' if archived else ''), family=fam, queries=box.get('paths', 1))


def cli_replay_hidden_empty(col):
    def rep():
        import os, tempfile, shutil, subprocess, zipfile
        exe = common.native_binary()
        d = tempfile.mkdtemp(prefix='verif-c04h-', dir=common.SCRATCH_ROOT)
        try:
            t = os.path.join(d, 't'); os.mkdir(t)
            z = zipfile.ZipFile(os.path.join(t, 'o.zip'), 'w')
            for i, n in enumerate(HIDDEN_NAMES):
                z.writestr(n, '' if i % 2 else 'data')
                if '/' not in n:
                    open(os.path.join(t, n), 'w').write('' if i % 2 else 'data')
            z.close()
            os.mkdir(os.path.join(t, '.emptydir')); os.mkdir(os.path.join(t, 'fulldir')); open(os.path.join(t, 'fulldir', 'x'), 'w').close()
            env = {'PATH': os.environ['PATH'], 'HOME': d, 'TZ': 'UTC'}
            sql = 'is_hidden' if col == 'IsHidden' else 'is_empty'
            r = subprocess.run([exe, 'name, ' + sql, 'from', t, 'depth', '1', 'archives'], env=env, stdout=subprocess.PIPE, stderr=subprocess.PIPE, timeout=20)
            for line in r.stdout.decode().split('\n')[:-1]:
                n, v = line.split('\t')
                member = n.startswith('[o.zip] ')
                base = n[len('[o.zip] '):] if member else n
                if col == 'IsHidden':
                    want = base.rsplit('/', 1)[-1].startswith('.')
                elif member:
                    want = HIDDEN_NAMES.index(base) % 2 == 1
                elif os.path.isdir(os.path.join(t, n)):
                    want = not os.listdir(os.path.join(t, n))
                else:
                    want = os.path.getsize(os.path.join(t, n)) == 0
                if v != ('true' if want else 'false'):
                    return True, '%s of %r is %s, expected %s' % (sql, n, v, want)
            return False, '%s agrees on %d rows' % (sql, len(r.stdout.decode().split('\n')) - 1)
        finally:
            shutil.rmtree(d, ignore_errors=True)
    return rep


CLASSES = ['archive', 'audio', 'book', 'doc', 'font', 'image', 'source', 'video']
CLASS_NAMES = (['A.X0', 'b.tar.x1', 'd.x3x', 'x4', '.x5', 'e.x6.bak', 'noext', 'H.Y1', 'm.Y6']            # the awkward ones
               + ['p%d.x%d' % (i, i) for i in range(8)] + ['q%d.y%d' % (i, i) for i in range(8)])       # one plain hit per class and list


def fam_extclass(sess):
    """is_archive .. is_video: true exactly when the lower-cased name ends with an extension of the ACTIVE list of that class
    (the user's configuration if it sets the list, the default configuration otherwise); every class gets its own one-entry lists
    (.xN by default, .yN in the user file) so that any mis-wired list or inverted precedence is visible"""
    from mirsym.models_std import table_str
    from drivers import walker as W
    prog = sess.prog
    fam = 'extclass'
    ex = sess.executor(models(), unwind=6)
    gfv = prog.find('Searcher', 'get_field_value')
    fms_new = prog.find('FileMetadataState', 'new')
    sess.bounds[fam] = {'names': CLASS_NAMES, 'lists': 'one entry per class, default .xN, user .yN, user list present or absent (symbolic)', 'zip members': 'yes'}
    for i, cl in enumerate(CLASSES):
        col = 'Is' + cl.capitalize()
        for archived in (False, True):
            box = {}

            def run(ctx, i=i, cl=cl, col=col, archived=archived):
                name = table_str(ctx, 'name', CLASS_NAMES)
                dflt = W.mk_config(prog); user = W.mk_config(prog)
                F = E.struct_fields(prog, 'Config')
                has_user = ctx.fresh_bool('user_sets_list')
                for j, c2 in enumerate(CLASSES):
                    dflt.f[F.index('is_' + c2)] = some(Seq([Str('.x%d' % j)]))
                    user.f[F.index('is_' + c2)] = some(Seq([Str('.y%d' % j)]))
                hu = ctx.decide(has_user)
                if not hu:
                    user.f[F.index('is_' + cl)] = none()
                entry = EntryM(MetaV(ctx), name='outer.zip' if archived else name)
                ctx.ghost['entry'] = entry
                s = E.mk_searcher(prog, fms=ctx.call_fn(fms_new, []), current_follow_symlinks=BoolVal(False), config=Ref(Cell(user)), default_config=Ref(Cell(dflt)))
                fi = some(E.mk_struct(prog, 'FileInfo', {'name': name, 'size': ctx.fresh_bv('zip_size', 64), 'mode': none(), 'modified': none()})) if archived else none()
                v = ctx.call_fn(gfv, [Ref(Cell(s)), Ref(Cell(entry)), Ref(Cell(fi)), Ref(Cell(E.field_enum(prog, col)))])
                return name, hu, v

            def on_path(ctx, out, i=i, cl=cl, col=col, archived=archived):
                nm = '%s %s%s' % (fam, col, ' (zip member)' if archived else '')
                if out[0] != 'ret':
                    box['bad'] = True; sess.inconclusive(nm, str(out), fam); return
                name, hu, v = out[1]
                F = E.struct_fields(prog, 'Variant')
                bv_ = v.f[F.index('bool_value')]
                ext = ('.y%d' if hu else '.x%d') % i
                want = Or([name.var == k for k, t in name.tab.items() if t.lower().endswith(ext)] + [BoolVal(False)])
                cond = bv_.p[1][0] == want if conc(bv_.d) == 1 else BoolVal(False)
                box['paths'] = box.get('paths', 0) + 1
                if ctx.check(Not(cond)) == z3.unsat or box.get('viol'):
                    return
                box['viol'] = True
                m = ctx.model(Not(cond))
                wname = name.tab[m.eval(name.var, model_completion=True).as_long()]
                sess.violated(nm, 'extclass/' + cl, 'name %r, user configuration %s the list: wrong verdict' % (wname, 'sets' if hu else 'does not set'),
                              {'name': wname, 'class': cl, 'user_list': hu}, cli_replay_extclass(cl, i), fam)
            ex.explore(run, on_path)
            if not box.get('viol') and not box.get('bad'):
                sess.discharged('%s %s%s: lower-cased name ends with an extension of the active list' % (fam, col, ' (zip member)' if archived else ''), family=fam, queries=box.get('paths', 1))


def cli_replay_extclass(cl, i):
    def rep():
        import os, tempfile, shutil, subprocess, re
        exe = common.native_binary()
        d = tempfile.mkdtemp(prefix='verif-c04x-', dir=common.SCRATCH_ROOT)
        try:
            src = open(os.path.join(common.REPO, 'src', 'config.rs')).read()
            defaults = {}
            for c2 in CLASSES:
                m = re.search(r'is_%s: vec_of_strings!\[(.*?)\]' % c2, src, re.S)
                defaults[c2] = re.findall(r'"([^"]*)"', m.group(1)) if m else []
            os.mkdir(os.path.join(d, 't'))
            names = list(CLASS_NAMES) + ['z%d%s' % (j, defaults[c2][0]) for j, c2 in enumerate(CLASSES) if defaults[c2]]
            for n in names:
                open(os.path.join(d, 't', n), 'w').close()
            msgs = []
            for user in (False, True):
                # the configuration file of the user: $XDG_CONFIG_HOME/fselect/config.toml (directories::ProjectDirs)
                xdg = os.path.join(d, 'xdg%d' % user)
                os.makedirs(os.path.join(xdg, 'fselect'))
                lines = []
                for j, c2 in enumerate(CLASSES):
                    if user or c2 != cl:
                        lines.append('is_%s = [".y%d"]' % (c2, j))
                open(os.path.join(xdg, 'fselect', 'config.toml'), 'w').write('\n'.join(lines) + '\n')
                env = {'PATH': os.environ['PATH'], 'HOME': d, 'XDG_CONFIG_HOME': xdg, 'TZ': 'UTC'}
                r = subprocess.run([exe, 'name', 'from', os.path.join(d, 't'), 'where', 'is_' + cl, '=', 'true'], cwd=d, env=env, stdout=subprocess.PIPE, stderr=subprocess.PIPE, timeout=20)
                got = sorted(r.stdout.decode().split('\n')[:-1])
                if user:
                    want = sorted(n for n in names if n.lower().endswith('.y%d' % i))
                else:
                    want = sorted(n for n in names if any(n.lower().endswith(e) for e in defaults[cl]))
                if got != want:
                    return True, 'is_%s with the list %s by the configuration file: true for %r, expected %r' % (cl, 'set' if user else 'not set', got, want)
                msgs.append('%r' % got)
            return False, 'is_%s verdicts agree (%s)' % (cl, '; '.join(msgs))
        finally:
            shutil.rmtree(d, ignore_errors=True)
    return rep


# Linux capability numbers (include/uapi/linux/capability.h), the ABI the security.capability xattr is written in
CAP_NAMES = ['cap_chown', 'cap_dac_override', 'cap_dac_read_search', 'cap_fowner', 'cap_fsetid', 'cap_kill', 'cap_setgid', 'cap_setuid', 'cap_setpcap',
             'cap_linux_immutable', 'cap_net_bind_service', 'cap_net_broadcast', 'cap_net_admin', 'cap_net_raw', 'cap_ipc_lock', 'cap_ipc_owner', 'cap_sys_module',
             'cap_sys_rawio', 'cap_sys_chroot', 'cap_sys_ptrace', 'cap_sys_pacct', 'cap_sys_admin', 'cap_sys_boot', 'cap_sys_nice', 'cap_sys_resource', 'cap_sys_time',
             'cap_sys_tty_config', 'cap_mknod', 'cap_lease', 'cap_audit_write', 'cap_audit_control', 'cap_setfcap', 'cap_mac_override', 'cap_mac_admin', 'cap_syslog',
             'cap_wake_alarm', 'cap_block_suspend', 'cap_audit_read', 'cap_perfmon', 'cap_bpf', 'cap_checkpoint_restore']


def cap_models():
    out = []

    def reg(pat, name):
        def deco(f):
            out.append((pat, f, name)); return f
        return deco

    @reg(r'^<Vec<u8> as (std::ops::)?Index<(std::ops::)?Range<usize>>>::index$|^(core|std)::slice::index::<impl (std::ops::)?Index<(std::ops::)?Range<usize>> for \[u8\]>::index$', 'byte slice caps[a..b]')
    def slice_range(ctx, args, callee):
        v = ctx.deref(args[0]); r = args[1]
        lo, hi = conc(r.f[0]), conc(r.f[1])
        ctx.obligation(BoolVal(lo <= hi <= len(v.items)), 'range end index out of range for slice')
        return Ref(Cell(Seq([c.v for c in v.items[lo:hi]])))

    @reg(r'^<&\[u8\] as TryInto<\[u8; 4\]>>::try_into$|^<\[u8; 4\] as TryFrom<&\[u8\]>>::try_from$', 'slice -> [u8; 4]')
    def try_into4(ctx, args, callee):
        v = ctx.deref(args[0])
        if len(v.items) != 4:
            return err(UNIT)
        return ok(Agg([c.v for c in v.items]))

    @reg(r'^(core::num::<impl u32>|u32)::from_le_bytes$', 'u32::from_le_bytes')
    def from_le(ctx, args, callee):
        b = args[0].f
        return z3.simplify(z3.Concat(b[3], b[2], b[1], b[0]))

    return out


def fam_capabilities(sess):
    """util::capabilities::parse_capabilities on a vfs_cap_data record with ONE capability (symbolic number 0..40) in a symbolic
    combination of the permitted / inheritable sets and a symbolic effective flag: `cap_<name>=[e][i][p]` of exactly that number"""
    prog = sess.prog
    fam = 'capabilities'
    ex = sess.executor(cap_models(), unwind=6, maxsteps=400000)
    pc = prog.find_free('parse_capabilities')
    sess.bounds[fam] = {'capability': 'one, number symbolic in 0..40', 'sets': 'permitted / inheritable symbolic', 'effective flag': 'symbolic byte',
                        'record length': '20 bytes (revision 2/3) and 12 bytes (revision 1: numbers 0..31)'}
    for nbytes in (20, 12):
        box = {'paths': 0}

        def run(ctx, nbytes=nbytes):
            i = ctx.fresh_bv('cap_number', 32)
            ctx.assume(ULT(i, BitVecVal(41 if nbytes == 20 else 32, 32)))
            inp = ctx.fresh_bool('in_permitted'); ini = ctx.fresh_bool('in_inheritable')
            eff = ctx.fresh_bv('effective_byte', 8)
            bit_lo = If(ULT(i, BitVecVal(32, 32)), BitVecVal(1, 32) << i, BitVecVal(0, 32))
            bit_hi = If(ULT(i, BitVecVal(32, 32)), BitVecVal(0, 32), BitVecVal(1, 32) << (i - 32))
            words = [If(inp, bit_lo, 0), If(ini, bit_lo, 0), If(inp, bit_hi, 0), If(ini, bit_hi, 0)]
            by = [eff, BitVecVal(0, 8), BitVecVal(0, 8), BitVecVal(2, 8)]
            for w in words:
                w = z3.simplify(w) if z3.is_expr(w) else BitVecVal(w, 32)
                by += [z3.Extract(7, 0, w), z3.Extract(15, 8, w), z3.Extract(23, 16, w), z3.Extract(31, 24, w)]
            return i, inp, ini, eff, ctx.call_fn(pc, [Seq(by[:nbytes])])

        def on_path(ctx, out, nbytes=nbytes):
            nm = '%s (%d-byte record)' % (fam, nbytes)
            box['paths'] += 1
            if out[0] != 'ret':
                if not box.get('bad'):
                    box['bad'] = True; sess.inconclusive(nm, str(out)[:300], fam)
                return
            i, inp, ini, eff, r = out[1]
            if not isinstance(r, Str) or r.s is None:
                if not box.get('bad'):
                    box['bad'] = True; sess.inconclusive(nm, 'result is not a concrete text on this path: %r' % (r,), fam)
                return
            # the path condition must imply the reading of the text
            txt = r.s
            if txt == '':
                cond = And(Not(inp), Not(ini))
            else:
                import re
                m = re.fullmatch(r'(cap_[a-z_]+)=(e?)(ip|p|i)', txt)
                if not m or m.group(1) not in CAP_NAMES:
                    cond = BoolVal(False)
                else:
                    k = CAP_NAMES.index(m.group(1))
                    fl = m.group(3)
                    cond = And(i == k, inp == BoolVal('p' in fl), ini == BoolVal('i' in fl), (eff == 1) == BoolVal(m.group(2) == 'e'))
            if ctx.check(Not(cond)) == z3.unsat or box.get('viol'):
                return
            box['viol'] = True
            mm = ctx.model(Not(cond))
            k = mm.eval(i, model_completion=True).as_long()
            sess.violated(nm, 'capabilities/' + CAP_NAMES[k], 'capability number %d (%s) in sets p=%s i=%s is rendered as %r' % (
                k, CAP_NAMES[k], mm.eval(inp, model_completion=True), mm.eval(ini, model_completion=True), txt), {'number': k, 'text': txt},
                native_caps_replay(k), fam)
        ex.explore(run, on_path)
        if not box.get('viol') and not box.get('bad'):
            sess.discharged('%s (%d-byte record): cap_<name of the number>=[e][i][p]' % (fam, nbytes), family=fam, queries=box['paths'])


def native_caps_replay(k):
    """parse_capabilities is private to the binary and setcap needs privileges: replayed as a unit test appended to a scratch copy"""
    def rep():
        lo = (1 << k) if k < 32 else 0
        hi = (1 << (k - 32)) if k >= 32 else 0
        import struct
        rec = bytes([1, 0, 0, 2]) + struct.pack('<IIII', lo, 0, hi, 0)
        mod = """
#[cfg(test)]
mod verif_c04_caps {
    #[test]
    fn run() {
        let input = std::env::var("VERIF_INPUT").unwrap();
        let rec: Vec<u8> = input.split(',').map(|b| b.trim().parse::<u8>().unwrap()).collect();
        println!("VERIF_OUT {}", super::parse_capabilities(rec));
    }
}
"""
        rc, lines, raw = common.native_unit('c04caps', 'src/util/capabilities.rs', mod, 'util::capabilities::verif_c04_caps::run', ','.join(str(b) for b in rec))
        got = lines[0] if lines else None
        want = CAP_NAMES[k] + '=ep'
        return got != want, 'parse_capabilities(record with capability %d permitted+effective) = %r, expected %r' % (k, got, want)
    return rep


def run(sess):
    sess.engines.append('mirsym (MIR symbolic execution) + z3')
    sess.assumptions += [
        'wiring: std::fs::Metadata is a symbolic lstat record; Metadata::is_dir / is_file / FileType::is_symlink decode S_IFMT (their std contract)',
        'readers: a file is a sequence of <= 3 chunks delivered by BufRead::fill_buf with symbolic lengths and newline counts; bytecount::count and the digest crates are '
        'uninterpreted / outside (hash columns, CONTAINS, MIME, EXIF, media readers are not covered); a reader rewritten onto another std::io API is UNMODELLED (inconclusive)',
    ]
    only = getattr(sess, 'only', None)
    fam_wiring(sess)
    fam_readers(sess)
    fam_digests(sess)
    fam_extclass(sess)
    fam_hidden_empty(sess)
    fam_capabilities(sess)
