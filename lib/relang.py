"""Engine C: the language of a generated regular expression, decided by z3's sequence / regular-language theory.

* `translate_patterns` builds (once per tree) a small driver crate that `#[path]`-includes the *real* translator sources
  (src/util/glob.rs, src/ignore/hg.rs, src/ignore/docker.rs) of the tree under test, with `pub` shims appended, and prints
  the regex text the real code generates for each pattern and whether `Regex::new` accepts it; the same binary evaluates
  real `Regex::is_match` for replay / cross-validation of the translation below.
* `regex_to_z3` parses the subset of the regex crate's syntax these translators can emit (literals, escapes, `.`, classes
  `[..]` / `[^..]`, groups, `|`, `* + ?`, `{m,n}` absent, `^ $`, `(?i)`) into a z3 RegLan; anything else raises Unparsed."""
import os, subprocess, json, hashlib, shutil
import z3
import common

ALPHABET = "abAB17 .+()[]{}|^$-,'#~*?%_/\\"


class Unparsed(Exception):
    pass


def lit(c, icase):
    if icase and c.isalpha() and c.lower() != c.upper():
        return z3.Union(z3.Re(c.lower()), z3.Re(c.upper()))
    return z3.Re(c)


def anychar(sigma, exclude=''):
    cs = [c for c in sigma if c not in exclude and c != '\n']
    return z3.Union(*[z3.Re(c) for c in cs]) if len(cs) > 1 else z3.Re(cs[0])


def regex_to_z3(rx, sigma=ALPHABET, search=False):
    """-> z3 RegLan over the alphabet `sigma` for `Regex::is_match` semantics (search=True: unanchored unless ^/$)."""
    import re as _re0
    tail = _re0.search(r'(?<!\\)\((?:\?:)?([^()|\\]*)\|\$\)$', rx)
    if tail and search:
        # `core(X|$)` at the very end: the alternation distributes (search semantics): core X | core $
        core = rx[:tail.start()]
        return z3.Union(regex_to_z3(core + tail.group(1), sigma, True), regex_to_z3(core + '$', sigma, True))
    pos = [0]; n = len(rx)
    icase = [False]
    anchored_start = [False]; anchored_end = [False]

    def peek():
        return rx[pos[0]] if pos[0] < n else None

    def eat():
        pos[0] += 1

    def alt():
        branches = [concat()]
        while peek() == '|':
            eat(); branches.append(concat())
        return branches[0] if len(branches) == 1 else z3.Union(*branches)

    def concat():
        items = []
        while peek() is not None and peek() not in '|)':
            items.append(repeat())
        if not items:
            return z3.Re('')
        return items[0] if len(items) == 1 else z3.Concat(*items)

    def repeat():
        a = atom()
        while peek() is not None and peek() in '*+?':
            c = peek(); eat()
            if peek() == '?':
                eat()          # lazy: same language
            a = z3.Star(a) if c == '*' else (z3.Plus(a) if c == '+' else z3.Option(a))
        if peek() == '{':
            # a counted repetition or a literal brace: the regex crate rejects a stray '{' — caller checks Regex::new
            raise Unparsed('brace at %d in %r' % (pos[0], rx))
        return a

    def atom():
        c = peek()
        if c == '(':
            eat()
            import re as _re
            fm = _re.match(r'\?([imsx]+)\)', rx[pos[0]:])
            if fm:
                pos[0] += len(fm.group(0))
                if 'i' in fm.group(1):
                    icase[0] = True
                if 'x' in fm.group(1) or 'm' in fm.group(1):
                    raise Unparsed('flag %s in %r' % (fm.group(1), rx))
                return z3.Re('')
            if rx.startswith('?:', pos[0]):
                pos[0] += 2
            elif peek() == '?':
                raise Unparsed('group flag in %r' % rx)
            r = alt()
            if peek() != ')':
                raise Unparsed('unbalanced group in %r' % rx)
            eat()
            return r
        if c == '[':
            return cls()
        if c == '.':
            eat(); return anychar(sigma)
        if c == '^':
            eat()
            if pos[0] == 1:
                anchored_start[0] = True
                return z3.Re('')
            raise Unparsed('^ inside %r' % rx)
        if c == '$':
            eat()
            if pos[0] == n or set(rx[pos[0]:]) == {')'}:
                # at the very end, possibly inside the group(s) that close there: the end of the subject
                anchored_end[0] = True
                return z3.Re('')
            raise Unparsed('$ inside %r' % rx)
        if c == '\\':
            eat(); d = peek()
            if d is None:
                raise Unparsed('trailing backslash')
            eat()
            if d.isalnum():
                raise Unparsed('escape class \\%s' % d)
            return z3.Re(d)
        if c in '*+?':
            raise Unparsed('dangling repetition in %r' % rx)
        if c in '{}':
            raise Unparsed('brace in %r' % rx)
        eat()
        return lit(c, icase[0])

    def cls():
        eat()
        neg = False
        if peek() == '^':
            neg = True; eat()
        members = []
        first = True
        while peek() is not None and (peek() != ']' or first):
            c = peek(); eat(); first = False
            if c == '\\':
                c = peek(); eat()
            if peek() == '-' and pos[0] + 1 < n and rx[pos[0] + 1] != ']':
                eat(); hi = peek(); eat()
                members += [chr(x) for x in range(ord(c), ord(hi) + 1)]
            else:
                members.append(c)
        if peek() != ']':
            raise Unparsed('unterminated class in %r' % rx)
        eat()
        if icase[0]:
            members = list({m.lower() for m in members} | {m.upper() for m in members})
        chars = [c for c in sigma if (c in members) != neg and c != '\n'] if True else []
        if not chars:
            return z3.Empty(z3.ReSort(z3.StringSort()))
        return z3.Union(*[z3.Re(c) for c in chars]) if len(chars) > 1 else z3.Re(chars[0])

    r = alt()
    if pos[0] != n:
        raise Unparsed('trailing %r in %r' % (rx[pos[0]:], rx))
    if search:
        any_ = z3.Star(anychar(sigma + '\n' if False else sigma))
        parts = ([] if anchored_start[0] else [any_]) + [r] + ([] if anchored_end[0] else [any_])
        r = z3.Concat(*parts) if len(parts) > 1 else r
    return r


def sigma_star(sigma=ALPHABET):
    return z3.Star(anychar(sigma))


def languages_differ(r1, r2, sigma=ALPHABET, timeout_ms=20000, extra=None):
    """-> ('equal', None) | ('differ', witness string, in_r1) | ('unknown', None)"""
    s = z3.String('subject')
    sol = z3.Solver(); sol.set('timeout', timeout_ms)
    sol.add(z3.InRe(s, sigma_star(sigma)))
    if extra is not None:
        sol.add(extra(s))
    sol.add(z3.Xor(z3.InRe(s, r1), z3.InRe(s, r2)))
    r = sol.check()
    if r == z3.unsat:
        return ('equal', None, None)
    if r == z3.sat:
        m = sol.model()
        w = m.eval(s, model_completion=True).as_string()
        w = bytes(w, 'utf-8').decode('unicode_escape') if '\\u{' not in w else _unescape_z3(w)
        in1 = z3.is_true(m.eval(z3.InRe(s, r1), model_completion=True))
        return ('differ', w, in1)
    return ('unknown', None, None)


def _unescape_z3(w):
    import re
    return re.sub(r'\\u\{([0-9a-fA-F]+)\}', lambda m: chr(int(m.group(1), 16)), w)


# ------------------------------------------------------------------------------------------ the native driver
MAIN_RS = r'''
#![allow(dead_code, unused_imports)]
use std::io::{self, BufRead, Write};
mod util {
    pub fn error_exit(source: &str, description: &str) -> ! {
        eprintln!("{}: {}", source, description);
        std::process::exit(2);
    }
    pub fn canonical_path(path_buf: &std::path::PathBuf) -> Result<String, String> {
        Ok(path_buf.to_string_lossy().to_string())
    }
}
#[path = "glob.rs"] mod glob;
#[path = "hg.rs"] mod hg;
#[path = "docker.rs"] mod docker;

fn unhex(s: &str) -> String {
    let b: Vec<u8> = (0..s.len()).step_by(2).map(|i| u8::from_str_radix(&s[i..i + 2], 16).unwrap()).collect();
    String::from_utf8_lossy(&b).to_string()
}
fn hex(s: &str) -> String { s.bytes().map(|b| format!("{:02x}", b)).collect() }

fn main() {
    // one request per line: "<kind> <hex pattern> [<hex arg>]"
    //   glob | like | isglob            -> regex text produced by the real translator (+ whether Regex::new accepts it)
    //   hgglob | hgrx | dockerglob      -> regex text of the compiled ignore filter for root <arg>
    //   match <hex regex> <hex subject> -> real Regex::is_match
    let stdin = io::stdin();
    let out = io::stdout();
    let mut out = out.lock();
    for line in stdin.lock().lines() {
        let line = line.unwrap();
        let parts: Vec<&str> = line.split(' ').collect();
        let p = unhex(parts.get(1).unwrap_or(&""));
        let res = match parts[0] {
            "glob" => { let r = glob::convert_glob_to_pattern(&p); format!("{} {}", hex(&r), regex::Regex::new(&r).is_ok()) }
            "like" => { let r = glob::convert_like_to_pattern(&p); format!("{} {}", hex(&r), regex::Regex::new(&r).is_ok()) }
            "isglob" => format!("{} true", hex(if glob::is_glob(&p) { "1" } else { "0" })),
            "hgglob" => match hg::verif_convert_hgignore_glob(&p, std::path::Path::new(&unhex(parts[2]))) { Ok(r) => format!("{} true", hex(r.as_str())), Err(_) => format!("{} false", hex("")) },
            "hgrx" => match hg::verif_convert_hgignore_regexp(&p, std::path::Path::new(&unhex(parts[2]))) { Ok(r) => format!("{} true", hex(r.as_str())), Err(_) => format!("{} false", hex("")) },
            "dockerglob" => match docker::verif_convert_dockerignore_glob(&p, std::path::Path::new(&unhex(parts[2]))) { Ok(r) => format!("{} true", hex(r.as_str())), Err(_) => format!("{} false", hex("")) },
            "match" => match regex::Regex::new(&p) { Ok(r) => format!("{} true", hex(if r.is_match(&unhex(parts[2])) { "1" } else { "0" })), Err(_) => format!("{} false", hex("")) },
            _ => String::from("? false"),
        };
        writeln!(out, "{}", res).unwrap();
    }
}
'''

SHIM_HG = '''
pub fn verif_convert_hgignore_glob(glob: &str, file_path: &Path) -> Result<Regex, Error> { convert_hgignore_glob(glob, file_path) }
pub fn verif_convert_hgignore_regexp(regexp: &str, file_path: &Path) -> Result<Regex, Error> { convert_hgignore_regexp(regexp, file_path) }
'''
SHIM_DOCKER = '''
pub fn verif_convert_dockerignore_glob(glob: &str, file_path: &Path) -> Result<Regex, Error> { convert_dockerignore_glob(glob, file_path) }
'''


def driver_binary():
    """build (or reuse) the native driver for the current tree"""
    h = common.repo_hash()
    d = os.path.join(common.CACHE, 'relang', h)
    exe = os.path.join(d, 'relang-driver')
    if os.path.exists(exe):
        return exe
    with common.Lock('relang'):
        if os.path.exists(exe):
            return exe
        work = os.path.join(common.SCRATCH_ROOT, 'relang-src')
        shutil.rmtree(work, ignore_errors=True)
        os.makedirs(os.path.join(work, 'src'))
        for rel, name, shim in (('src/util/glob.rs', 'glob.rs', ''), ('src/ignore/hg.rs', 'hg.rs', SHIM_HG), ('src/ignore/docker.rs', 'docker.rs', SHIM_DOCKER)):
            src = open(os.path.join(common.REPO, rel)).read()
            open(os.path.join(work, 'src', name), 'w').write(src + '\n' + shim)
        open(os.path.join(work, 'src', 'main.rs'), 'w').write(MAIN_RS)
        open(os.path.join(work, 'Cargo.toml'), 'w').write(
            '[package]\nname = "relang-driver"\nversion = "0.0.0"\nedition = "2021"\n\n[dependencies]\nregex = "1.1"\n\n[workspace]\n')
        shutil.copy2(os.path.join(common.REPO, 'Cargo.lock'), os.path.join(work, 'Cargo.lock'))
        env = dict(common.ENV, CARGO_TARGET_DIR=os.path.join(common.CACHE, 'target-relang'))
        p = subprocess.run(['cargo', 'build', '--offline'], cwd=work, env=env, stdout=subprocess.PIPE, stderr=subprocess.STDOUT, text=True)
        if p.returncode != 0:
            # the lock file may pin versions this tiny crate does not need in that shape: retry without it
            os.unlink(os.path.join(work, 'Cargo.lock'))
            p = subprocess.run(['cargo', 'build', '--offline'], cwd=work, env=env, stdout=subprocess.PIPE, stderr=subprocess.STDOUT, text=True)
        if p.returncode != 0:
            common.log(p.stdout[-4000:])
            raise common.BuildError('relang driver build failed')
        os.makedirs(d, exist_ok=True)
        shutil.copy2(os.path.join(common.CACHE, 'target-relang', 'debug', 'relang-driver'), exe + '.tmp')
        os.replace(exe + '.tmp', exe)
        common._prune(os.path.join(common.CACHE, 'relang'), 6)
    return exe


def hx(s):
    return s.encode('utf-8').hex()


def unhx(s):
    return bytes.fromhex(s).decode('utf-8', 'replace')


def run_driver(requests):
    """requests: list of (kind, pattern[, arg]) -> list of (text, ok)"""
    exe = driver_binary()
    inp = '\n'.join(' '.join([r[0]] + [hx(x) for x in r[1:]]) for r in requests) + '\n'
    p = subprocess.run([exe], input=inp, stdout=subprocess.PIPE, stderr=subprocess.PIPE, text=True, timeout=300)
    out = []
    lines = p.stdout.split('\n')
    for i, r in enumerate(requests):
        if i >= len(lines) or ' ' not in lines[i]:
            out.append((None, False)); continue
        a, b = lines[i].split(' ')
        out.append((unhx(a) if a != '?' else None, b == 'true'))
    return out
