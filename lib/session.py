"""One check run = one Session: collects solver obligations, replays counterexamples against the real
build, matches them against known findings, prints the protocol lines and writes the evidence file."""
import os, sys, json, time, traceback
import common
from common import log


class Ob:
    """one obligation (a solver query family member)"""

    def __init__(self, name, role, status, detail='', witness=None, replay=None, family='', queries=1):
        self.name, self.role, self.status = name, role, status
        self.detail, self.witness, self.replay, self.family = detail, witness, replay, family
        self.queries = queries
        self.reproduced = None
        self.replay_detail = ''

    def brief(self):
        return {'name': self.name, 'role': self.role, 'status': self.status, 'detail': str(self.detail)[:400],
                'witness': self.witness, 'reproduced': self.reproduced, 'replay': self.replay_detail[:400]}


class Session:
    def __init__(self, pid, tier, seed, level='model_checking'):
        self.pid, self.tier, self.seed, self.level = pid, tier, seed, level
        self.t0 = time.time()
        self.obs = []
        self.assumptions = []
        self.functions = {}
        self.models_used = {}
        self.bounds = {}
        self.stats = {'paths': 0, 'solver_checks': 0, 'solver_s': 0.0, 'steps': 0}
        self.samples = []
        self.validated = 0
        self.notes = []
        self._prog = None
        self.mir_s = 0.0
        self.inconclusive_reasons = []
        self.engines = []

    # ------------------------------------------------------------------ program under test
    @property
    def prog(self):
        if self._prog is None:
            from mirsym.core import Program
            mir, src, dt = common.get_mir()
            self.mir_s = dt
            self.mir_path, self.src_root = mir, src
            self._prog = Program(mir, src)
        return self._prog

    def executor(self, overrides=None, **kw):
        from mirsym.core import Exec
        from mirsym import models_std, models_ext, models_fmt  # noqa: register models
        from mirsym.models_std import MODELS
        import re
        ov = [(re.compile(p), f, n) for p, f, n in (overrides or [])]
        ex = Exec(self.prog, MODELS, ov, **kw)
        self._execs = getattr(self, '_execs', [])
        self._execs.append(ex)
        return ex

    def absorb(self, ex):
        st = ex.stats
        for k in ('paths', 'solver_checks', 'solver_s', 'steps'):
            self.stats[k] += st[k]
        for k, v in st['models_used'].items():
            self.models_used[k] = self.models_used.get(k, 0) + v
        for k, v in st['fns_executed'].items():
            if k not in self.functions:
                fl = self.prog.fns.get(k)
                f = fl[0] if fl else None
                self.functions[k] = {'calls': 0, 'mir_lines': f.nlines if f else 0, 'hash': f.text_hash() if f else ''}
            self.functions[k]['calls'] += v
        st['models_used'] = {}; st['fns_executed'] = {}
        for k in ('paths', 'solver_checks', 'steps'):
            st[k] = 0
        st['solver_s'] = 0.0

    # ------------------------------------------------------------------ obligations
    def add(self, ob):
        self.obs.append(ob)
        return ob

    def discharged(self, name, role='', detail='', family='', queries=1):
        return self.add(Ob(name, role, 'discharged', detail, family=family, queries=queries))

    def violated(self, name, role, detail, witness, replay, family=''):
        return self.add(Ob(name, role, 'violated', detail, witness, replay, family))

    def inconclusive(self, name, detail, family=''):
        self.inconclusive_reasons.append('%s: %s' % (name, detail))
        return self.add(Ob(name, '', 'inconclusive', detail, family=family))

    def sample(self, s):
        if len(self.samples) < 12:
            self.samples.append(s)

    # ------------------------------------------------------------------ finish
    def finish(self):
        known = common.load_known_findings()
        listed = {(k['property'], k['role']): k for k in known.get('findings', [])}
        viol = [o for o in self.obs if o.status == 'violated']
        # replay every counterexample against the real build before reporting it
        seen_roles = {}
        for o in viol:
            key = o.role
            if key in seen_roles and seen_roles[key].reproduced:
                # same role already reproduced once: replay at most 3 witnesses per role
                if seen_roles.setdefault('#' + key, 0) >= 2:
                    o.reproduced = True
                    o.replay_detail = 'same role as an already reproduced witness (not replayed again)'
                    continue
                seen_roles['#' + key] += 1
            try:
                if o.replay is None:
                    o.reproduced, o.replay_detail = False, 'no replay available'
                else:
                    o.reproduced, o.replay_detail = o.replay()
                    self.validated += 1
            except Exception as e:
                o.reproduced, o.replay_detail = False, 'replay crashed: %r' % (e,)
                log(traceback.format_exc())
            if o.reproduced:
                seen_roles[key] = o
        lines = []
        new_viol = []
        known_hit = {}
        for o in viol:
            if not o.reproduced:
                self.inconclusive_reasons.append('counterexample for %s did not reproduce natively: %s' % (o.name, o.replay_detail))
                continue
            k = listed.get((self.pid, o.role))
            if k:
                known_hit.setdefault(o.role, (k, o))
            else:
                new_viol.append(o)
        for role, (k, o) in sorted(known_hit.items()):
            lines.append('KNOWN-FINDING: property=%s %s [role %s]' % (self.pid, k['what'], role))
        replay_paths = []
        for o in new_viol:
            path = common.write_replay(self.pid, {'property': self.pid, 'obligation': o.name, 'role': o.role,
                                                  'detail': str(o.detail), 'witness': o.witness,
                                                  'native_replay': o.replay_detail})
            replay_paths.append(path)
            lines.append('VIOLATION property=%s replay=%s' % (self.pid, path))
            log('  violated: %s [%s] %s :: %s' % (o.name, o.role, o.detail, o.replay_detail))
        incon = [o for o in self.obs if o.status == 'inconclusive'] or []
        n_incon = len(incon) + sum(1 for o in viol if not o.reproduced)
        status = 1 if new_viol else (2 if n_incon else 0)
        for ex in getattr(self, '_execs', []):
            self.absorb(ex)
        nobs = len(self.obs)
        ndis = sum(1 for o in self.obs if o.status == 'discharged')
        distinct_roles = len({(o.family, o.name) for o in self.obs})
        ev = {
            'property_id': self.pid, 'tier': self.tier, 'seed': self.seed, 'level': self.level,
            'coverage': {
                'states': max(1, self.stats['paths']),
                'transitions': max(1, self.stats['steps']),
                'traces_validated_against_impl': self.validated,
                'samples': self.samples or [o.brief() for o in self.obs[:5]],
                'evaluations': max(1, sum(o.queries for o in self.obs)),
                'distinct_nontrivial': distinct_roles,
                'rule': 'one evaluation = one solver query (obligation) over symbolic inputs; distinct = distinct '
                        '(family, obligation) pairs; paths = feasible symbolic paths through the encoded MIR / harness',
                'obligations': nobs, 'discharged': ndis,
                'programs': max(1, sum(o.queries for o in self.obs)), 'disagreements_checked': self.validated,
                'violated_known': sorted(known_hit), 'violated_new': [o.role for o in new_viol],
                'inconclusive': self.inconclusive_reasons[:20],
                'functions_encoded': self.functions,
                'contract_models_used': self.models_used,
                'bounds': self.bounds,
                'solver': {'queries': self.stats['solver_checks'], 'seconds': round(self.stats['solver_s'], 3),
                           'engines': self.engines},
                'mir_dump_s': round(self.mir_s, 1),
                'repo_tree_hash': common.repo_hash(),
                'obligation_list': [o.brief() for o in self.obs][:400],
                'notes': self.notes,
                'exhaustive': False,
            },
            'assumptions': self.assumptions,
            'wall_s': round(time.time() - self.t0, 2),
            'violations': len(new_viol),
        }
        common.write_evidence(self.pid, ev)
        for l in lines:
            print(l)
        print('%s tier=%s: %d obligations, %d discharged, %d known findings, %d new violations, %d inconclusive; '
              '%d paths, %d solver queries (%.1fs), wall %.1fs'
              % (self.pid, self.tier, nobs, ndis, len(known_hit), len(new_viol), n_incon, self.stats['paths'],
                 self.stats['solver_checks'], self.stats['solver_s'], time.time() - self.t0))
        if n_incon:
            for r in self.inconclusive_reasons[:10]:
                print('INCONCLUSIVE: ' + r)
        sys.stdout.flush()
        return status
