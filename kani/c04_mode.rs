// Appended to src/mode.rs of a scratch copy of the tree under test (a child module sees the private items).
// Every harness quantifies over ALL u32 modes (kani::any); the reference is POSIX S_IFMT decoding / `ls -l` notation.
#[cfg(kani)]
mod verif_c04 {
    use super::*;

    const IFMT: u32 = 0o170000;

    fn known_type(mode: u32) -> bool {
        let t = mode & IFMT;
        t == 0o100000 || t == 0o040000 || t == 0o120000 || t == 0o010000 || t == 0o020000 || t == 0o060000 || t == 0o140000
    }

    #[kani::proof]
    fn type_predicates_decode_s_ifmt() {
        let mode: u32 = kani::any();
        kani::assume(known_type(mode));
        let t = mode & IFMT;
        assert!(mode_is_pipe(mode) == (t == 0o010000), "is_pipe");
        assert!(mode_is_char_device(mode) == (t == 0o020000), "is_char");
        assert!(mode_is_block_device(mode) == (t == 0o060000), "is_block");
        assert!(mode_is_socket(mode) == (t == 0o140000), "is_socket");
        assert!(mode_is_directory(mode) == (t == 0o040000), "is_dir(mode)");
        assert!(mode_is_link(mode) == (t == 0o120000), "is_link(mode)");
        kani::cover!(t == 0o120000, "reachable: symlink");
    }

    #[kani::proof]
    fn permission_predicates_decode_bits() {
        let mode: u32 = kani::any();
        assert!(mode_user_read(mode) == (mode & 0o400 != 0), "user_read");
        assert!(mode_user_write(mode) == (mode & 0o200 != 0), "user_write");
        assert!(mode_user_exec(mode) == (mode & 0o100 != 0), "user_exec");
        assert!(mode_group_read(mode) == (mode & 0o040 != 0), "group_read");
        assert!(mode_group_write(mode) == (mode & 0o020 != 0), "group_write");
        assert!(mode_group_exec(mode) == (mode & 0o010 != 0), "group_exec");
        assert!(mode_other_read(mode) == (mode & 0o004 != 0), "other_read");
        assert!(mode_other_write(mode) == (mode & 0o002 != 0), "other_write");
        assert!(mode_other_exec(mode) == (mode & 0o001 != 0), "other_exec");
        assert!(mode_user_all(mode) == (mode & 0o700 == 0o700), "user_all");
        assert!(mode_group_all(mode) == (mode & 0o070 == 0o070), "group_all");
        assert!(mode_other_all(mode) == (mode & 0o007 == 0o007), "other_all");
        assert!(mode_suid(mode) == (mode & 0o4000 != 0), "suid");
        assert!(mode_sgid(mode) == (mode & 0o2000 != 0), "sgid");
        assert!(mode_sticky(mode) == (mode & 0o1000 != 0), "sticky");
        kani::cover!(mode & 0o7777 == 0o4755, "reachable: 4755");
    }

    fn ls_char(bit_r: bool, on: char) -> u8 {
        if bit_r { on as u8 } else { b'-' }
    }

    fn ls_exec(x: bool, special: bool, lower: u8, upper: u8) -> u8 {
        if x { if special { lower } else { b'x' } } else if special { upper } else { b'-' }
    }

    #[kani::proof]
    #[kani::unwind(12)]
    fn mode_string_is_ls_notation() {
        let mode: u32 = kani::any();
        kani::assume(known_type(mode));
        let s = get_mode_unix(mode);
        let b = s.as_bytes();
        assert!(b.len() == 10, "mode string has 10 characters");
        let t = mode & IFMT;
        let want0 = if t == 0o120000 { b'l' } else if t == 0o060000 { b'b' } else if t == 0o020000 { b'c' } else if t == 0o140000 { b's' }
            else if t == 0o010000 { b'p' } else if t == 0o040000 { b'd' } else { b'-' };
        assert!(b[0] == want0, "mode[0] file type");
        assert!(b[1] == ls_char(mode & 0o400 != 0, 'r'), "mode[1]");
        assert!(b[2] == ls_char(mode & 0o200 != 0, 'w'), "mode[2]");
        assert!(b[3] == ls_exec(mode & 0o100 != 0, mode & 0o4000 != 0, b's', b'S'), "mode[3]");
        assert!(b[4] == ls_char(mode & 0o040 != 0, 'r'), "mode[4]");
        assert!(b[5] == ls_char(mode & 0o020 != 0, 'w'), "mode[5]");
        assert!(b[6] == ls_exec(mode & 0o010 != 0, mode & 0o2000 != 0, b's', b'S'), "mode[6]");
        assert!(b[7] == ls_char(mode & 0o004 != 0, 'r'), "mode[7]");
        assert!(b[8] == ls_char(mode & 0o002 != 0, 'w'), "mode[8]");
        assert!(b[9] == ls_exec(mode & 0o001 != 0, mode & 0o1000 != 0, b't', b'T'), "mode[9]");
        kani::cover!(b[0] == b's', "reachable: socket");
    }
}
