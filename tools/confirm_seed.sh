#!/bin/bash
# confirm_seed.sh <PID> <worktree> <outdir>: re-verify every mutant an agent produced, then file the confirmed
# ones under /verif/seeded/<PID>-mN/ (patch.diff, demo.sh, meta.json)
PID=$1; WT=$2; OUT=$3
export CARGO_NET_OFFLINE=true
cd "$WT" || exit 2
git checkout -q -- . ; git status --short | grep -v '^??' && { echo "worktree dirty"; exit 2; }
cargo build --offline -q 2>/dev/null || { echo "base build failed"; exit 2; }
cp target/debug/fselect /tmp/fselect-base-$PID
for n in 1 2 3; do
  [ -f "$OUT/m$n.diff" ] || continue
  res="PID=$PID m$n:"
  bash "$OUT/m$n-demo.sh" /tmp/fselect-base-$PID >/tmp/seedlog-$PID-$n-base.txt 2>&1; b=$?
  git apply "$OUT/m$n.diff" || { echo "$res patch does not apply"; continue; }
  if cargo build --offline -q 2>/tmp/seedlog-$PID-$n-build.txt; then
    t=$(cargo test --offline 2>&1 | grep -c "test result: ok. 137 passed")
    cp target/debug/fselect /tmp/fselect-mut-$PID-$n
    bash "$OUT/m$n-demo.sh" /tmp/fselect-mut-$PID-$n >/tmp/seedlog-$PID-$n-mut.txt 2>&1; m=$?
    echo "$res base_demo_exit=$b tests_ok=$t mutant_demo_exit=$m"
    if [ $b -eq 0 ] && [ "$t" = "1" ] && [ $m -ne 0 ]; then
      d=/verif/seeded/$PID-${TAG}m$n; mkdir -p $d
      cp "$OUT/m$n.diff" $d/patch.diff; cp "$OUT/m$n-demo.sh" $d/demo.sh; cp "$OUT/m$n.txt" $d/description.txt
      python3 - "$PID" "$n" "$d" <<'PY'
import json,sys
pid,n,d=sys.argv[1:]
desc=open(d+'/description.txt').read()
json.dump({'property':pid,'mutant':__import__('os').environ.get('TAG','')+'m'+n,'needs_to_manifest':desc.strip(),
 'confirmed':{'ran':'tools/confirm_seed.sh: cargo build --offline; demo.sh on unmodified binary (exit 0); git apply patch.diff; cargo build; cargo test --offline (137 passed); demo.sh on mutated binary (exit != 0)',
              'base_demo_exit':0,'tests':'137 passed','mutant_demo_exit':'non-zero'},
 'detected_by':None},open(d+'/meta.json','w'),indent=1)
PY
      echo "$res CONFIRMED -> $d"
    fi
  else
    echo "$res mutant does not build"
  fi
  git checkout -q -- .
done
rm -f /tmp/fselect-base-$PID /tmp/fselect-mut-$PID-*
