#!/bin/bash
# run_seed.sh <seed-name> <PID> [tier]: apply /verif/seeded/<seed>/patch.diff to /repo, run the check, undo.
S=$1; PID=$2; TIER=${3:-quick}
cd /verif
git -C /repo diff --quiet || { echo "/repo is dirty"; exit 2; }
git -C /repo apply /verif/seeded/$S/patch.diff || { echo "$S: patch does not apply"; exit 2; }
mkdir -p /tmp/seedruns
cp evidence/$PID.json /tmp/seedruns/evidence-$PID.bak 2>/dev/null
./check $PID --tier $TIER > /tmp/seedruns/$S-$PID.log 2>&1; rc=$?
git -C /repo checkout -- .
cp /tmp/seedruns/evidence-$PID.bak evidence/$PID.json 2>/dev/null
echo "$S $PID exit=$rc $(grep -c '^VIOLATION' /tmp/seedruns/$S-$PID.log) violation line(s); $(grep -m1 'violated:' /tmp/seedruns/$S-$PID.log | cut -c1-220)"
