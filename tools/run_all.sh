#!/bin/bash
# run_all.sh [tier] [parallelism]: run every registered check on /repo's working tree; logs under /var/tmp/verif-scratch/allruns
TIER=${1:-quick}; P=${2:-6}
cd /verif
OUT=/var/tmp/verif-scratch/allruns-$TIER; mkdir -p $OUT
./check C01 --tier quick --only none >/dev/null 2>&1   # warm the MIR cache once
ids=$(python3 -c "import json;print(' '.join(c['property_id'] for c in json.load(open('MANIFEST.json'))['checks']))")
for id in $ids; do echo $id; done | xargs -P $P -I{} bash -c "s=\$(date +%s); ./check {} --tier $TIER > $OUT/{}.log 2>&1; rc=\$?; e=\$(date +%s); echo \"{} exit=\$rc \$((e-s))s \$(tail -1 $OUT/{}.log | cut -c1-160)\""
