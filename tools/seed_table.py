#!/usr/bin/env python3
"""Rewrites the seeded-changes table of DESIGN.md (between the seed-table markers) from seeded/*/meta.json."""
import json, glob, os, re
HERE = os.path.dirname(os.path.dirname(os.path.abspath(__file__)))
rows = ['| seed | change (first line of its description) | caught by | obligation that fails |', '|---|---|---|---|']
for d in sorted(glob.glob(os.path.join(HERE, 'seeded', '*', ''))):
    name = os.path.basename(d.rstrip('/'))
    meta = json.load(open(os.path.join(d, 'meta.json')))
    desc = open(os.path.join(d, 'description.txt')).read().strip().split('\n')[0]
    desc = re.sub(r'^(Change|Mutant \d+)\s*[:(]?\s*', '', desc)[:150].replace('|', '\\|')
    det = meta.get('detected_by')
    if det:
        ob = re.sub(r'\s+', ' ', det.get('obligation', ''))[:110].replace('|', '\\|')
        rows.append('| %s | %s | %s (%s) | %s |' % (name, desc, det['check'], det.get('tier', 'quick'), ob))
    else:
        rows.append('| %s | %s | **not caught** | %s |' % (name, desc, (meta.get('miss_reason') or '')[:110]))
table = '\n'.join(rows)
p = os.path.join(HERE, 'DESIGN.md')
s = open(p).read()
if 'SEED_TABLE_PLACEHOLDER' in s:
    s = s.replace('SEED_TABLE_PLACEHOLDER', '<!-- seed-table:begin -->\n' + table + '\n<!-- seed-table:end -->')
else:
    s = re.sub(r'<!-- seed-table:begin -->.*?<!-- seed-table:end -->', lambda m: '<!-- seed-table:begin -->\n' + table + '\n<!-- seed-table:end -->', s, flags=re.S)
open(p, 'w').write(s)
print(len(rows) - 2, 'seeds')
