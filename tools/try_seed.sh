#!/bin/bash
# try_seed.sh <seed> <PID> [check args…]: development helper — the seeded patch applied to a scratch COPY of /repo's HEAD
# (VERIF_REPO), so that /repo stays untouched while other runs use it. The recorded results come from run_seed.sh on /repo.
S=$1; PID=$2; shift 2
D=/var/tmp/verif-scratch/tryrepo-$S; rm -rf $D; mkdir -p $D
git -C /repo archive HEAD | tar -x -C $D
( cd $D && patch -p1 -s < /verif/seeded/$S/patch.diff ) || { echo "patch failed"; rm -rf $D; exit 2; }
cd /verif; cp evidence/$PID.json /var/tmp/verif-scratch/try-$PID.ev.bak 2>/dev/null
VERIF_REPO=$D ./check $PID --tier quick "$@" > /var/tmp/verif-scratch/try-$S-$PID.log 2>&1; rc=$?
cp /var/tmp/verif-scratch/try-$PID.ev.bak evidence/$PID.json 2>/dev/null
rm -rf $D
echo "$S $PID exit=$rc"; grep -E "violated:|INCONCLUSIVE|^C[0-9][0-9] tier" /var/tmp/verif-scratch/try-$S-$PID.log | cut -c1-330 | head -${LINES_MAX:-8}
