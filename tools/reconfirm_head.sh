#!/bin/bash
# reconfirm_head.sh <glob>: re-run each seed's demonstration against /repo's CURRENT HEAD (+ the patch) in a scratch worktree:
# a seed stays filed only if its demo still passes on HEAD and fails on HEAD + patch (repairs of /repo can make a seed equivalent).
G=${1:-'*'}
export CARGO_NET_OFFLINE=true
WT=/tmp/reconfirm-wt
git -C /repo worktree remove --force $WT 2>/dev/null; rm -rf $WT
git -C /repo worktree add -q --detach $WT HEAD || exit 2
cp -r /repo/target $WT/target 2>/dev/null
cd $WT && cargo build --offline -q 2>/dev/null; cp target/debug/fselect /tmp/reconfirm-base
for d in /verif/seeded/$G/; do
  n=$(basename $d)
  git checkout -q -- .
  git apply $d/patch.diff 2>/dev/null || { echo "$n: patch does not apply"; continue; }
  if cargo build --offline -q 2>/dev/null; then
    bash $d/demo.sh /tmp/reconfirm-base >/dev/null 2>&1; b=$?
    bash $d/demo.sh $WT/target/debug/fselect >/dev/null 2>&1; m=$?
    echo "$n: base_demo_exit=$b mutant_demo_exit=$m $([ $b -eq 0 ] && [ $m -ne 0 ] && echo OK || echo STALE)"
  else
    echo "$n: does not build on HEAD"
  fi
done
git checkout -q -- .; cd /; git -C /repo worktree remove --force $WT; rm -f /tmp/reconfirm-base
