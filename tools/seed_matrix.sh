#!/bin/bash
# seed_matrix.sh [tier]: every seed under seeded/ against the check of the property it breaks (sequential: /repo is patched in place)
TIER=${1:-quick}
cd /verif
for d in seeded/*/; do
  s=$(basename $d)
  pid=$(python3 -c "import json;print(json.load(open('$d/meta.json'))['property'])")
  tools/run_seed.sh $s $pid $TIER
done
