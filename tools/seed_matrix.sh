#!/bin/bash
# seed_matrix.sh [tier] [seed-glob]: every seed under seeded/ against the check of the property it breaks, and — when that check is
# silent — against the checks listed as cross-property catchers below. Sequential: /repo is patched in place (git apply / checkout).
TIER=${1:-quick}; GLOB=${2:-*}
cd /verif
declare -A CROSS=( [C02-m1]="C16" [C02-r2m2]="C12" [C12-r2m3]="C03" [C16-r2m2]="C13" [C17-r2m2]="C07" [C19-r2m2]="C04" [C18-r2m3]="C01" [C10-r2m3]="C16" [C02-r4m2]="C13" [C16-r4m3]="C13" [C17-r5m2]="C07" [C02-r6m1]="C13" [C02-r6m3]="C04" [C03-r3m1]="C12" [C08-r3m3]="C07" [C17-r3m3]="C19" )
for d in seeded/$GLOB/; do
  s=$(basename $d)
  pid=$(python3 -c "import json;print(json.load(open('$d/meta.json'))['property'])")
  out=$(tools/run_seed.sh $s $pid $TIER)
  echo "$out"
  if ! echo "$out" | grep -q "exit=1"; then
    for alt in ${CROSS[$s]}; do tools/run_seed.sh $s $alt $TIER; done
  fi
done
